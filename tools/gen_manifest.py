#!/usr/bin/env python3
"""Regenerates /verif/MANIFEST.json from sa/claims.py (the single table of
what is claimed, at which level, and what is not applicable)."""
import json
import pathlib
import sys

root = pathlib.Path(__file__).resolve().parent.parent
sys.path.insert(0, str(root))
from sa import claims  # noqa: E402

ids = [json.loads(l)["id"] for l in (root / "properties.jsonl").read_text().splitlines() if l.strip()]
checks = []
na = []
for pid in ids:
    c = claims.CLAIMS.get(pid)
    if c is None or not (root / "sa" / "props" / f"{pid.lower()}.py").exists():
        na.append({"property_id": pid, "reason": claims.NOT_APPLICABLE.get(pid, "checker not built yet in this round (see DESIGN.md section 5 for the planned rules)")})
        continue
    checks.append(
        {
            "property_id": pid,
            "quick_cmd": f"./vcheck {pid} --tier quick",
            "thorough_cmd": f"./vcheck {pid} --tier thorough",
            "evidence_file": f"/verif/evidence/{pid}.json",
            "replay_cmd_template": f"./vcheck {pid} --replay {{path}}",
            "engine": "sa",
            "level_claimed": {"category": "other", "text": c["level"], "design_ref": c.get("design_ref", f"DESIGN.md section 5, {pid}")},
            "level_note": c["note"],
            "technique": c["technique"],
        }
    )
for pid, reason in claims.NOT_APPLICABLE.items():
    if pid not in [x["property_id"] for x in na] and pid not in [x["property_id"] for x in checks]:
        na.append({"property_id": pid, "reason": reason})
m = {
    "version": 1,
    "setup_cmd": "true",
    "hooks": {
        "guard": "CXXHEADERPARSER_VERIF",
        "enable": "no hooks: every check reads /repo's source (ast, regex constants) and never runs it; the guard is unused",
        "baseline_off_cmd": "cd /repo && /venv/bin/python -m pytest -ra -q -p no:cacheprovider --timeout=900 --continue-on-collection-errors",
        "source_commits": [],
        "add_only": True,
    },
    "engines": [
        {
            "name": "sa",
            "path": "/verif/sa",
            "serves_properties": [c["property_id"] for c in checks],
            "kind_free_text": "repository-specific static analysis: AST source model + constant folding, statement CFG with dominators and forward dataflow, resolved intra-class call graph, Glushkov automata with look-ahead filters built from the regex constants in the source, PLY lexer model re-derived from _ply/lex.py",
        }
    ],
    "checks": checks,
    "notes": claims.NOTES,
    "not_applicable": na,
}
(root / "MANIFEST.json").write_text(json.dumps(m, indent=1) + "\n")
print(f"{len(checks)} checks, {len(na)} not applicable")
