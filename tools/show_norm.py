#!/usr/bin/env python3
"""usage: show_norm.py <repo-root> [module [qualname]]  -- print the normalisation log and, optionally, a normalised function"""
import ast, sys, pathlib
sys.path.insert(0, str(pathlib.Path(__file__).resolve().parent.parent))
from sa.model import Repo
r = Repo(sys.argv[1])
for m, log in r.normalisation.items():
    for l in log: print(f"[{m}] {l}")
if len(sys.argv) > 3:
    print(ast.unparse(r.mod(sys.argv[2]).func(sys.argv[3])))
