#!/bin/bash
# usage: neutral_all.sh [verif-root] [base-commit]  -- runs every stored behaviour-preserving refactoring through all checks
vroot="${1:-/verif}"; base="${2:-HEAD}"
ls /verif/neutral | xargs -P 8 -I{} sh -c "/verif/tools/neutral_eval.sh /verif/neutral/{} {} $vroot $base 2>&1 | cut -c1-600" | sort | sed -E 's/tests=\[([0-9]+ passed)[^]]*\]/\1/'
