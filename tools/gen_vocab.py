#!/usr/bin/env python3
"""Regenerate sa/vocab.json (the reference vocabulary of sa/normalize.py) from a tree on which every rule is confirmed.
usage: python3 tools/gen_vocab.py [repo-root]   (default /repo)"""
import ast, json, pathlib, sys
ROOT = pathlib.Path(__file__).resolve().parent.parent
sys.path.insert(0, str(ROOT))
from sa.normalize import module_vocab, VOCAB_FILE
repo = pathlib.Path(sys.argv[1] if len(sys.argv) > 1 else "/repo") / "cxxheaderparser"
out = {}
for p in sorted(repo.rglob("*.py")):
    name = ".".join(p.relative_to(repo).with_suffix("").parts)
    out[name] = module_vocab(ast.parse(p.read_text(encoding="utf-8")))
VOCAB_FILE.write_text(json.dumps(out, indent=0, sort_keys=True))
print("wrote", VOCAB_FILE, sum(len(v["functions"]) for v in out.values()), "functions")
