#!/bin/bash
# usage: neutral_round.sh <tag e.g. n6> [verif-root]  -- runs the stored refactorings of one round through all checks
tag="$1"; vroot="${2:-/verif}"
ls /verif/neutral | grep -- "-$tag-" | xargs -P 8 -I{} sh -c "/verif/tools/neutral_eval.sh /verif/neutral/{} {} $vroot HEAD 2>&1 | cut -c1-700" | sort | sed -E 's/tests=\[([0-9]+ passed)[^]]*\]/\1/'
