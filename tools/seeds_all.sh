#!/bin/bash
# usage: seeds_all.sh  -- every stored seeded defect must still be reported by the check of the property it was written against
cd /verif/seeded
ls -d C* | xargs -P 8 -I{} sh -c 'p=$(echo {} | cut -c1-3); out=$(VERIF_EVIDENCE_DIR=/tmp/ev_seed_{} /verif/tools/try_patch.sh /verif/seeded/{}/patch.diff $p 2>&1); rm -rf /tmp/ev_seed_{}; if echo "$out" | grep -q "PATCH-FAILED"; then echo "{}: PATCH-FAILED"; elif echo "$out" | grep -q "^VIOLATION"; then echo "{}: detected $(echo "$out" | grep -oE "finding: \[R[0-9a-zA-Z.]+\]" | sort -u | tr "\n" " ")"; else echo "{}: MISSED $(echo "$out" | grep -m1 ANALYSIS | cut -c1-120)"; fi' | sort
