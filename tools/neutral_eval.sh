#!/bin/bash
# usage: neutral_eval.sh <dir with patch.diff> <name> <verif-root> [base-commit]
# Applies a behaviour-preserving patch to a scratch worktree and reports every check that does not exit 0.
src="$1"; name="$2"; vroot="${3:-/verif}"; base_commit="${4:-HEAD}"
wt=$(mktemp -d /tmp/newt.XXXXXX); rmdir "$wt"
git -C /repo worktree add --detach "$wt" "$base_commit" -q || exit 9
trap 'git -C /repo worktree remove --force "$wt" 2>/dev/null; rm -rf "$wt"' EXIT
cd "$wt"
git apply "$src/patch.diff" 2>/dev/null || patch -p1 -s --fuzz=3 --no-backup-if-mismatch < "$src/patch.diff" >/dev/null 2>&1 || { echo "$name: PATCH DOES NOT APPLY"; exit 3; }
tests=$(/venv/bin/python -m pytest -q -p no:cacheprovider -x 2>&1 | tail -1)
det=""
for p in $(ls $vroot/sa/props/ | grep -oE 'c[0-9]{2}' | tr a-z A-Z | sort -u); do
  out=$(VERIF_EVIDENCE_DIR=$wt/.ev $vroot/vcheck $p --repo "$wt" 2>&1)
  rc=$?
  if [ $rc -eq 1 ]; then det="$det $p:FALSE-ALARM($(echo "$out" | grep -oE 'finding: \[R[0-9a-zA-Z.+-]+\]' | sed -E 's/finding: \[(.*)\]/\1/' | sort -u | tr '\n' ','))"; fi
  if [ $rc -eq 2 ]; then det="$det $p:ERR($(echo "$out" | grep -m1 ANALYSIS-ERROR | cut -c1-160))"; fi
done
echo "$name: tests=[$tests] alarms=[$det ]"
