#!/bin/bash
# usage: mk_patched.sh <patch.diff> <dir>  -- copy of /repo's package with the patch applied (for inspection; remove after use)
rm -rf "$2"; mkdir -p "$2"; cp -r /repo/cxxheaderparser "$2/"; cd "$2" && (git apply "$1" 2>/dev/null || patch -p1 -s --fuzz=3 --no-backup-if-mismatch < "$1")
