#!/bin/sh
# usage: try_patch.sh <patch.diff> <Cnn> [more props...]   -- runs vcheck on a scratch copy with the patch applied
set -e
p="$1"; shift
d=$(mktemp -d /tmp/vsc.XXXXXX)
trap 'rm -rf "$d"' EXIT
cp -r /repo/cxxheaderparser "$d/"
( cd "$d" && patch -p1 -s --no-backup-if-mismatch < "$p" ) || { echo "PATCH-FAILED $p"; exit 3; }
rc=0
for prop in "$@"; do
  VERIF_EVIDENCE_DIR="$d/ev" ${VROOT:-/verif}/vcheck "$prop" --repo "$d" | grep -E "VIOLATION|finding:|ANALYSIS-ERROR|^           |new violation" || true
done
