#!/bin/bash
# usage: confirm_seed.sh <seeddir> <name>   e.g. /tmp/seedout/C04/1 C04-1
# Confirms a seeded defect in a scratch worktree of /repo's HEAD, then stores it under /verif/seeded/<name>/
set -u
src="$1"; name="$2"
wt=$(mktemp -d /tmp/cfwt.XXXXXX); rmdir "$wt"
git -C /repo worktree add --detach "$wt" HEAD -q || exit 9
cleanup() { git -C /repo worktree remove --force "$wt" 2>/dev/null; rm -rf "$wt"; }
trap cleanup EXIT
cd "$wt"
base=$(/venv/bin/python "$src/demo.py" "$wt" >/tmp/cf.base.$$ 2>&1; echo $?)
if ! git apply "$src/patch.diff" 2>/dev/null; then
  if ! patch -p1 -s --fuzz=3 --no-backup-if-mismatch < "$src/patch.diff" >/dev/null 2>&1; then echo "$name: PATCH DOES NOT APPLY"; exit 3; fi
fi
git diff > /tmp/cf.patch.$$
tests=$(/venv/bin/python -m pytest -q -p no:cacheprovider -x 2>&1 | tail -1)
withp=$(/venv/bin/python "$src/demo.py" "$wt" >/tmp/cf.with.$$ 2>&1; echo $?)
git checkout -q -- . ; git clean -fdq
prop=$(python3 -c "import json;print(json.load(open('$src/meta.json'))['property'])")
det=$(/verif/tools/try_patch.sh /tmp/cf.patch.$$ $(ls /verif/sa/props/ | grep -oE 'c[0-9]{2}' | tr a-z A-Z | sort -u) 2>/dev/null | grep -E "^VIOLATION|finding:" | sed -E 's/.*property=(C[0-9]+).*/\1/; s/.*finding: \[(R[0-9a-z.]+)\].*/\1/' | sort -u | tr '\n' ' ')
echo "$name: tests=[$tests] demo_pristine_exit=$base demo_patched_exit=$withp detected_by=[$det]"
if [[ "$tests" == *"301 passed"* && "$base" == "0" && "$withp" == "1" ]]; then
  d=/verif/seeded/$name; mkdir -p "$d"
  cp /tmp/cf.patch.$$ "$d/patch.diff"; cp "$src/demo.py" "$d/demo.py"
  python3 - "$src/meta.json" "$d/meta.json" "$tests" "$det" <<'PY'
import json,sys
m=json.load(open(sys.argv[1]))
m["confirmed"]={"base_commit":"HEAD of /repo at confirmation","test_suite":sys.argv[3],"demo_on_pristine":"PASS (exit 0)","demo_with_patch":"FAIL (exit 1)",
  "ran":["git worktree add (scratch)","git apply patch.diff","/venv/bin/python -m pytest -q -p no:cacheprovider -x","python demo.py <tree> (patched, then pristine)","tools/try_patch.sh patch.diff <all properties>"]}
m["detected_by"]=sys.argv[4].split()
json.dump(m,open(sys.argv[2],"w"),indent=1)
PY
  echo "   kept as $d"
else
  echo "   NOT KEPT"
fi
rm -f /tmp/cf.*.$$
