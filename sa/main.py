"""vcheck driver: exit 0 = all rule instances discharged (or listed as known
findings), 1 = new violation (VIOLATION line printed), 2 = ANALYSIS-ERROR."""
import argparse
import importlib
import json
import os
import pathlib
import sys
import traceback

sys.path.insert(0, str(pathlib.Path(__file__).resolve().parent.parent))

from sa.model import AnalysisError, Repo  # noqa: E402
from sa.report import Ctx, finish  # noqa: E402


def control_run(ctx) -> None:
    """Thorough tier: the control run.  Positive controls (an edit that breaks a rule,
    applied to a scratch copy) must make that rule fire; negative controls
    (behaviour-preserving rewrites) must add no finding.  A control that fails means the
    machinery is not live / is brittle on this tree: ANALYSIS-ERROR, never a silent pass."""
    from sa.selftest import controls_for_property

    base = {o.fkey for o in ctx.obs if not o.ok}
    res = controls_for_property(ctx.prop, str(ctx.repo.root), base, jobs=min(16, os.cpu_count() or 4))
    ctx.rule("CTRL+", "positive controls: an edit that breaks a rule makes exactly that rule fire (scratch copy, parsed only)", minimum=0)
    ctx.rule("CTRL-", "negative controls: behaviour-preserving rewrites add no finding", minimum=0)
    failed = []
    for name, kind, verdict, note in res:
        if verdict == "skipped":
            ctx.note(f"control not applicable on this tree: {name}")
            continue
        ctx.ob("CTRL+" if kind == "positive" else "CTRL-", f"control|{name}", True, nontrivial=True)
        if verdict != "pass":
            failed.append(f"{name}: {note}")
    ctx.extra["controls"] = {"positive": sum(1 for r in res if r[1] == "positive" and r[2] == "pass"), "negative": sum(1 for r in res if r[1] == "negative" and r[2] == "pass"),
                             "skipped": sum(1 for r in res if r[2] == "skipped"), "failed": failed}
    if failed:
        raise AnalysisError("control run failed (the checker is not live or is brittle on this tree): " + " || ".join(failed[:3]))


def main() -> int:
    ap = argparse.ArgumentParser()
    ap.add_argument("prop")
    ap.add_argument("--tier", default=os.environ.get("VERIF_TIER") or "quick", choices=["quick", "thorough"])
    ap.add_argument("--replay", default=None)
    ap.add_argument("--repo", default=None)
    a = ap.parse_args()
    prop = a.prop.upper()
    try:
        seed = int(os.environ.get("VERIF_SEED", "0") or 0)
    except ValueError:
        seed = 0
    try:
        mod = importlib.import_module(f"sa.props.{prop.lower()}")
    except ModuleNotFoundError:
        print(f"ANALYSIS-ERROR property={prop} no checker module")
        return 2
    try:
        repo = Repo(a.repo)
        ctx = Ctx(prop, a.tier, repo, seed)
        mod.run(ctx)
        if a.tier == "thorough" and not a.replay:
            control_run(ctx)
        if a.replay:
            want = json.loads(pathlib.Path(a.replay).read_text())
            k = (want.get("rule"), want.get("key"))
            ctx.obs = [o for o in ctx.obs if (o.rule, o.key) == k]
            ctx.minimum = {r: 0 for r in ctx.minimum}
            if not ctx.obs:
                print(f"replay: instance {k} no longer exists on this tree")
        return finish(ctx, getattr(mod, "LEVEL", ""), getattr(mod, "EXPLANATION", ""))
    except AnalysisError as e:
        # a violation that was already established stands, whatever could not be analysed afterwards
        try:
            c_ = locals().get("ctx")
            if c_ is not None and any(not o.ok for o in c_.obs):
                from sa.report import load_known
                kn = {k["key"] for k in load_known().get("known", []) if k.get("property") == prop}
                if any((not o.ok) and o.fkey not in kn for o in c_.obs):
                    c_.notes.append(f"analysis stopped early: {e}")
                    c_.minimum = {r: 0 for r in c_.minimum}
                    c_.shared_errors = []
                    print(f"  note: analysis stopped early ({e}); the findings established before that are reported")
                    return finish(c_, getattr(mod, "LEVEL", ""), getattr(mod, "EXPLANATION", ""))
        except AnalysisError:
            pass
        print(f"ANALYSIS-ERROR property={prop} {e}")
        return 2
    except Exception:
        traceback.print_exc()
        print(f"ANALYSIS-ERROR property={prop} internal failure (traceback above)")
        return 2


if __name__ == "__main__":
    rc = main()
    sys.stdout.flush()
    sys.exit(rc)
