"""vcheck driver: exit 0 = all rule instances discharged (or listed as known
findings), 1 = new violation (VIOLATION line printed), 2 = ANALYSIS-ERROR."""
import argparse
import importlib
import json
import os
import pathlib
import sys
import traceback

sys.path.insert(0, str(pathlib.Path(__file__).resolve().parent.parent))

from sa.model import AnalysisError, Repo  # noqa: E402
from sa.report import Ctx, finish  # noqa: E402


def main() -> int:
    ap = argparse.ArgumentParser()
    ap.add_argument("prop")
    ap.add_argument("--tier", default=os.environ.get("VERIF_TIER") or "quick", choices=["quick", "thorough"])
    ap.add_argument("--replay", default=None)
    ap.add_argument("--repo", default=None)
    a = ap.parse_args()
    prop = a.prop.upper()
    try:
        seed = int(os.environ.get("VERIF_SEED", "0") or 0)
    except ValueError:
        seed = 0
    try:
        mod = importlib.import_module(f"sa.props.{prop.lower()}")
    except ModuleNotFoundError:
        print(f"ANALYSIS-ERROR property={prop} no checker module")
        return 2
    try:
        repo = Repo(a.repo)
        ctx = Ctx(prop, a.tier, repo, seed)
        mod.run(ctx)
        if a.replay:
            want = json.loads(pathlib.Path(a.replay).read_text())
            k = (want.get("rule"), want.get("key"))
            ctx.obs = [o for o in ctx.obs if (o.rule, o.key) == k]
            ctx.minimum = {r: 0 for r in ctx.minimum}
            if not ctx.obs:
                print(f"replay: instance {k} no longer exists on this tree")
        return finish(ctx, getattr(mod, "LEVEL", ""), getattr(mod, "EXPLANATION", ""))
    except AnalysisError as e:
        print(f"ANALYSIS-ERROR property={prop} {e}")
        return 2
    except Exception:
        traceback.print_exc()
        print(f"ANALYSIS-ERROR property={prop} internal failure (traceback above)")
        return 2


if __name__ == "__main__":
    rc = main()
    sys.stdout.flush()
    sys.exit(rc)
