"""CxxParser._consume_balanced_tokens decided by interpreting its source
(sa/miniexec.py) over every short script of bracket tokens.

The reference is a stack machine: an opener pushes its closer (the pairs are
the function's own token map, folded from the class constants); a closer must
be the innermost expectation; the lexer delivers two adjacent ']' as one
DBL_RBRACKET token (longest match), so a DBL_RBRACKET also closes two pending
'['.  Entered after its initial opener(s), the function must
  * return right after the token that empties the stack, having fetched exactly
    the tokens up to it, and hand back the initial and fetched tokens, all of
    them, in order;
  * raise at the first closer that is not the innermost expectation - except
    where '<' / '>' are involved, which the function deliberately tolerates
    (they may be operators); scripts with '<' '>' are only judged when they
    nest properly.

Used by C13 (R13.4), C14 (R14.5) and C06 (R6.4).  Nothing of the package is
imported or run."""
from __future__ import annotations

import ast
from typing import Any, Dict, List, NamedTuple, Optional, Tuple

from .miniexec import Opaque, OpaqueWithConstants, OutOfTokens, Run, Tok, Unsupported
from .model import AnalysisError, norm
from .pmodel import LEX_CONSUME, ParserModel


class Verdict(NamedTuple):
    init: Tuple[str, ...]
    script: Tuple[str, ...]
    expect: str            # 'return' | 'raise'
    ok: bool
    what: str


_CACHE: Dict[Tuple[int, int], List[Verdict]] = {}


def verdicts(ctx, pm: ParserModel, max_len: int = 4) -> List[Verdict]:
    key = (id(pm), max_len)
    if key in _CACHE:
        return _CACHE[key]
    fname = "_consume_balanced_tokens"
    fn = pm.fn(fname)
    cfg = pm.cfg(fname)
    folder = ctx.repo.folder("parser", "CxxParser")
    tmap: Dict[str, str] = dict(folder.get("_balanced_token_map"))
    args = fn.args
    if not args.vararg or len(args.args) != 1:
        raise AnalysisError(f"{fname}: signature changed (expected *initial_tokens)")
    kwonly = [a.arg for a in args.kwonlyargs]
    closers = set(tmap.values())
    plain = [t for t in tmap if t not in ("<",)]
    alphabet = sorted(set(plain) | {tmap[t] for t in plain}) + ["x"]
    angle = "<" in tmap

    def is_fetch(c: ast.Call) -> bool:
        r = pm.resolve(fname, c)
        return bool(r) and r[0] == "lex" and r[1] in LEX_CONSUME

    def extern(call: ast.Call, run: Run) -> Any:
        f = norm(call.func)
        if f in ("deque", "collections.deque") and len(call.args) <= 1:
            return list(run.ev(call.args[0])) if call.args else []
        if f.startswith("self.") and f.split(".")[-1] in ("_parse_error",):
            return Opaque()
        raise Unsupported(f"call {norm(call)[:60]}")

    def step(stack: List[str], t: str, tolerant: bool = False) -> Optional[str]:
        """None: continue; 'done'; 'mismatch'.  tolerant: '<' and '>' may be operators - a closer that meets a pending
        '>' expectation, or a '>' that meets another expectation, is matched with the innermost pending expectation of
        its own kind (everything above it is given up), and ignored when there is none"""
        if t in tmap:
            stack.append(tmap[t])
            return None
        if t in closers:
            if t == "DBL_RBRACKET" and len(stack) >= 2 and stack[-1] == "]" and stack[-2] == "]":
                stack.pop()
                stack.pop()
            elif stack and stack[-1] == t:
                stack.pop()
            elif tolerant and stack and (t == ">" or stack[-1] == ">"):
                for i in range(len(stack) - 2, -1, -1):
                    if stack[i] == t:
                        del stack[i:]
                        break
                else:
                    return None
            else:
                return "mismatch"
            return "done" if not stack else None
        return None

    scripts: List[Tuple[Tuple[str, ...], Tuple[str, ...], str]] = []

    def gen(init: Tuple[str, ...], alpha: List[str], only_complete: bool, tolerant: bool = False) -> None:
        def rec(prefix: List[str], stack: List[str], strict: List[str], lenient: bool) -> None:
            if len(prefix) >= max_len:
                return
            for t in alpha:
                st2 = list(stack)
                r = step(st2, t, tolerant)
                # does the strict machine agree so far?  (scripts on which it does are the plain families)
                sx = list(strict)
                len2 = lenient or (tolerant and (step(sx, t) == "mismatch" or sx != st2))
                p2 = prefix + [t]
                if r == "done":
                    if not tolerant or len2:
                        scripts.append((init, tuple(p2), "tolerant-return" if tolerant else "return"))
                elif r == "mismatch":
                    if not only_complete and (not tolerant or len2):
                        scripts.append((init, tuple(p2), "tolerant-raise" if tolerant else "raise"))
                else:
                    rec(p2, st2, sx, len2)
        rec([], [tmap[t] for t in init], [tmap[t] for t in init], False)

    for op in plain:
        gen((op,), alphabet, False)
    gen(("(", "("), alphabet, False)
    if angle:
        # '<' '>' only where they nest properly (no tolerated mismatch is judged)
        gen(("<",), ["<", ">", "(", ")", "x"], True)
        gen(("(",), ["<", ">", "(", ")", "x"], True)
        # the tolerance for '<' '>' used as operators: only scripts on which it comes into play
        for op in ("(", "<", "["):
            gen((op,), ["<", ">", "(", ")", "[", "]", "x"], False, True)

    out: List[Verdict] = []
    for init, script, expect in scripts:
        inits = [Tok(t) for t in init]
        toks = [Tok(t) for t in script]
        tail = [Tok("x"), Tok(")"), Tok("]")]
        env: Dict[str, Any] = {"self": OpaqueWithConstants(folder.lookup), args.vararg.arg: tuple(inits), "None": None, "True": True, "False": False}
        for k, d in zip(kwonly, args.kw_defaults):
            env[k] = None if d is None or (isinstance(d, ast.Constant) and d.value is None) else Opaque()
        run = Run(cfg, env, toks + tail, is_fetch, extern)
        try:
            run.run()
        except OutOfTokens:
            out.append(Verdict(init, script, expect, False, "reads on past the end of the input"))
            continue
        except Unsupported as e:
            raise AnalysisError(f"{fname} uses a construct the interpreter does not model: {e}")
        if expect.endswith("return"):
            if run.raised:
                out.append(Verdict(init, script, expect, False, f"raises ({run.raised})"))
            elif run.pos != len(script):
                out.append(Verdict(init, script, expect, False, f"returns after {run.pos} of {len(script)} tokens" if run.pos < len(script) else f"fetches {run.pos - len(script)} token(s) beyond the balancing closer"))
            elif not (isinstance(run.returned, list) and len(run.returned) == len(inits) + len(toks) and all(a is b for a, b in zip(run.returned, inits + toks))):
                out.append(Verdict(init, script, expect, False, "does not hand back the initial and fetched tokens, all of them, in order"))
            else:
                out.append(Verdict(init, script, expect, True, ""))
        else:
            if not run.raised:
                out.append(Verdict(init, script, expect, False, f"accepts the mismatched closer (returns after {run.pos} tokens)"))
            elif run.pos != len(script):
                out.append(Verdict(init, script, expect, False, f"raises at token {run.pos}, not at the mismatched closer (token {len(script)})"))
            else:
                out.append(Verdict(init, script, expect, True, ""))
    _CACHE[key] = out
    return out


def show(v: Verdict) -> str:
    return f"after {' '.join(v.init)} the tokens {' '.join(v.script)!r}: {v.what}"


def obligations(ctx, rid: str, pm: ParserModel, parts: Tuple[str, ...]) -> None:
    """parts: 'return' (stops at the balancing closer, keeps every token), 'fused' (']]' closing two '['), 'raise' (mismatch raises)"""
    vs = verdicts(ctx, pm, 6 if getattr(ctx, "tier", "quick") == "thorough" else 4)
    fn = pm.fn("_consume_balanced_tokens")
    mod = pm.mod

    def fused(v: Verdict) -> bool:
        # a DBL_RBRACKET that closes two '[' on the reference machine
        stack = []
        for t in v.init + v.script:
            if t in ("(", "[", "{", "<", "DBL_LBRACKET"):
                stack.append(t)
            elif t == "DBL_RBRACKET" and len(stack) >= 2 and stack[-1] == "[" and stack[-2] == "[":
                return True
            elif t in (")", "]", "}", ">", "DBL_RBRACKET") and stack:
                stack.pop()
        return False

    groups = {
        "tolerant": ([v for v in vs if v.expect.startswith("tolerant")], "a tolerated '<' / '>' is matched with the innermost pending bracket of its kind",
                     "where '<' or '>' is taken for an operator, the closer is matched with another pending opener than the innermost one of its kind (or not ignored / not rejected as before): the value or attribute argument ends at the wrong bracket"),
        "return": ([v for v in vs if v.expect == "return" and not fused(v)], "returns right after the balancing closer with every token kept",
                   "the value or attribute argument ends at the wrong token, or loses tokens"),
        "fused": ([v for v in vs if v.expect == "return" and fused(v)], "a ']]' token closes two pending '['",
                  "the lexer delivers two adjacent ']' as one ']]' token, so a balanced 'a[b[0]]' inside a value, an attribute argument or a default is rejected or ends at the wrong token"),
        "raise": ([v for v in vs if v.expect == "raise"], "bracket mismatch raises",
                  "a closer that does not match the innermost open bracket is accepted"),
    }
    for p in parts:
        sel, title, why = groups[p]
        bad = [v for v in sel if not v.ok]
        ctx.ob(rid, f"parser:CxxParser._consume_balanced_tokens|{title}", bool(sel) and not bad,
               msg=(f"{why}: {show(bad[0])}" if bad else "no script of this kind was enumerated"), node=fn, mod=mod,
               detail={"scripts": len(sel), "failing": [" ".join(v.init) + " | " + " ".join(v.script) for v in bad[:5]]})
