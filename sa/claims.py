"""What each check claims (feeds MANIFEST.json via tools/gen_manifest.py)."""

NOTES = (
    "Technique family: static analysis only. Every check decides from /repo/cxxheaderparser/**/*.py as it is on disk at the "
    "time of the run (ast, constant folding, CFG/dataflow, call graph, automata built from the regex constants). No check "
    "imports or executes the package. Exit 0 = all rule instances discharged or listed in known_findings.json (printed as "
    "KNOWN-FINDING), 1 = new violation (VIOLATION line + replay file), 2 = ANALYSIS-ERROR (an anchor a rule depends on vanished "
    "or an unsupported shape appeared; never a silent pass). Each property is claimed only for the clauses its rules decide; the "
    "undecided remainder is stated in level_note and in the evidence (coverage.undecided_clauses)."
)

NOT_APPLICABLE = {}

CLAIMS = {
    "C07": {
        "level": "Exhaustive static decision, for every token regular expression and every regex literal in the package, that no "
        "exponentially ambiguous loop precedes a failing suffix (position automata with look-ahead filters, self-product search, "
        "link multiplicity, nullable loop bodies); plus CFG rules: every while-loop cycle consumes input, a consumed token group is "
        "re-scanned at most once per path, the template-argument trial parse is attempted once. This is the half of the property "
        "its statement singles out (unterminated comments/strings/character literals, runs of escapes or digits).",
        "note": "Decides the lexer half and structural necessary conditions of the parser half. Not decided: a polynomial bound for "
        "the recursive-descent algorithm as a whole and timing itself (runtime quantities). Trusted: re._parser as the meaning of "
        "the regex constants; the representative alphabet (ASCII + one representative per Unicode class \\d \\s \\w . can tell apart); "
        "PLY facts re-derived from _ply/lex.py anchors (VERBOSE flag, rule order).",
        "technique": "regex ambiguity analysis on Glushkov automata built from source constants; CFG loop-progress and single-rescan rules",
    },
}
