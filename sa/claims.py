"""What each check claims (feeds MANIFEST.json via tools/gen_manifest.py)."""

NOTES = (
    "Technique family: static analysis only. Every check decides from /repo/cxxheaderparser/**/*.py as it is on disk at the "
    "time of the run (ast, constant folding, CFG/dataflow, call graph, automata built from the regex constants). No check "
    "imports or executes the package. Exit 0 = all rule instances discharged or listed in known_findings.json (printed as "
    "KNOWN-FINDING), 1 = new violation (VIOLATION line + replay file), 2 = ANALYSIS-ERROR (an anchor a rule depends on vanished "
    "or an unsupported shape appeared; never a silent pass). Each property is claimed only for the clauses its rules decide; the "
    "undecided remainder is stated in level_note and in the evidence (coverage.undecided_clauses)."
)

NOT_APPLICABLE = {}

CLAIMS = {
    "C07": {
        "level": "Exhaustive static decision, for every token regular expression and every regex literal in the package, that no "
        "exponentially ambiguous loop precedes a failing suffix (position automata with look-ahead filters, self-product search, "
        "link multiplicity, nullable loop bodies); plus CFG rules: every while-loop cycle consumes input, a consumed token group is "
        "re-scanned at most once per path, the template-argument trial parse is attempted once. This is the half of the property "
        "its statement singles out (unterminated comments/strings/character literals, runs of escapes or digits).",
        "note": "Decides the lexer half and structural necessary conditions of the parser half. Not decided: a polynomial bound for "
        "the recursive-descent algorithm as a whole and timing itself (runtime quantities). Trusted: re._parser as the meaning of "
        "the regex constants; the representative alphabet (ASCII + one representative per Unicode class \\d \\s \\w . can tell apart); "
        "PLY facts re-derived from _ply/lex.py anchors (VERBOSE flag, rule order).",
        "technique": "regex ambiguity analysis on Glushkov automata built from source constants; CFG loop-progress and single-rescan rules",
    },
    "C08": {
        "level": "Static decision over the PLY rule list re-derived from source (regex constants folded, priority order from _ply/lex.py): "
        "which rules can discard text, linear use of raw tokens in _fill_tokbuf, newline accounting per rule (language contains a newline "
        "iff the rule counts newlines), keyword re-typing on all paths, maximal munch of fixed-string tokens, the full set of rule-order "
        "shadowing pairs (703 ordered pairs, product reachability) against a reasoned reference set, UDL fusion facts, and language "
        "inclusion of a reference literal grammar (22 classes) in the intended rule with no pre-emption by an earlier rule.",
        "note": "Decides necessary structural conditions and, for the reference grammar, acceptance by the intended rule as a language-level "
        "fact (exhaustive over the grammar, not sampled). Not decided: which match a backtracking regex prefers inside one rule (ordered "
        "alternation), literal forms outside the reference grammar (raw strings, universal character names). Trusted: re._parser; the "
        "reference grammar table in sa/props/c08.py; PLY anchors.",
        "technique": "automata queries on lexer rule regexes (containment, shadowing, inclusion); CFG linear-use analysis of the buffer fill",
    },
    "C16": {
        "level": "Complete finite decision for all ordered pairs (quick) and triples (thorough) of token classes: tokfmt's loop is "
        "abstractly interpreted per class to find which pairs are printed without a blank, and for each such pair the product of the "
        "class automata with every lexer rule of sufficient priority is searched for a match crossing the token boundary (or a comment "
        "opener completed across it). Cross-checked at build time against the real lexer on 66 exemplars squared and cubed: same verdicts.",
        "note": "Exhaustive over token classes (rule tokens, literals, keywords, re-typed names, UD_* fused literals). Sequences longer than 3 are "
        "covered only in as far as fusion is a property of adjacent tokens (true for this lexer: no rule needs more than three tokens' text "
        "except comment bodies, covered by the opener rule). Nine families ('.' next to a numeric literal) are genuine and listed in known_findings.json.",
        "technique": "abstract interpretation of tokfmt over token classes + product-automaton boundary-crossing search",
    },
    "C04": {
        "level": "Typestate, pairing and ownership of the callback stream decided on every path of parser.py: unique first callback, block "
        "start = fresh state object whose parent is the current state, pushed before the callback; block end only through "
        "_finish <- _pop_state (after the balance check) <- _on_block_end <- '}' key, current state becomes the parent; three writers of "
        "self.state; current-state argument at all 23 other callback sites; kind-guard dominance at 33 sites against the protocol's own "
        "annotations; fold of the simple visitor (one append per payload into the typed list of its state's scope); exception discipline "
        "of parse(); visitor save/restore and no cached visitor (shared with C05).",
        "note": "Decided essentially in full by structure. Not decided: that every block closed in the source reaches the '}' dispatch "
        "(depends on token values, e.g. a brace swallowed by a skipped region). Trusted: the annotations in visitor.py / parserstate.py "
        "as the oracle for kinds; the call-graph resolution listed in the evidence.",
        "technique": "CFG dominance + reaching definitions + kind-set dataflow with isinstance narrowing + who-may-call over the resolved call graph",
    },
    "C05": {
        "level": "The skip mechanism is pure visitor plumbing and is decided completely: identity test on the start callback's result, the "
        "null visitor installed only there, save on push / end-to-active-visitor / restore-from-popped-state ordering on every path, no "
        "emission between pop and restore, no cached visitor or bound visitor method anywhere, NullVisitor complete and inert.",
        "note": "Nothing material left undecided. Trusted: CxxVisitor doc-strings as the statement of which callbacks may prune.",
        "technique": "ownership (who may write/read self.visitor, _prior_visitor), ordering by dominance on the CFG, sibling agreement NullVisitor vs protocol",
    },
    "C06": {
        "level": "Exception discipline (everything that consumes tokens is inside a catch-all whose every path raises CxxParseError chained to "
        "the caught exception; message prefix flows from the token's location), handler safety (every token that can reach the handler "
        "is stamped; the location-less placeholder is confined), lexer error rules never return, and each enumerated structural check "
        "dominates the effect it guards (33 kind obligations, '{' without owner, unbalanced '}', bracket mismatch, validate after every _parse_type), "
        "no nullable token regex.",
        "note": "Not decided: that every ill-formed input is rejected (only the checks the statement enumerates), and that the reported "
        "line number is a line of the input (provenance of the number is decided under C10).",
        "technique": "guard-dominance and must-pass-through on the CFG, exception-edge reachability, kind-set dataflow",
    },
    "C10": {
        "level": "Line accounting decided rule by rule: newline accounting of all 38 lexer rules (automaton containment vs. lineno update), "
        "token stamping from a current_location() evaluated after the fetch (path-sensitive), current_location() = lineno - line_offset and "
        "#line offset = physical lineno - N + 1 by linear-form normalisation, file name from the quoted group, and a forward must-fact "
        "(CFG + call-site meet) that state.location is stored after the declaration began at each of the 23 non-block callback sites; "
        "a peeked location must be followed by a consumption before it is reported.",
        "note": "Not decided: #line directives placed inside a declaration; which line of a multi-line declaration is reported (any line of "
        "its extent satisfies the statement). Trusted: PLY stamps tok.lineno before the rule function (anchor checked).",
        "technique": "must-pass-through dataflow over CFG and call graph; linear-form normalisation of the offset arithmetic; automaton containment queries",
    },
    "C11": {
        "level": "Single attribution (at most one consuming construction per path for every doc value, with return-correlated call summaries), "
        "reset points of the top-level loop and the attribute-only exception set, who may ask for leading/trailing doc text and under which "
        "guard, prefix set and accumulation in _extract_comments, and the shape of both comment scans (every comment recorded, blank line "
        "detaches, real tokens kept).",
        "note": "Not decided: the exact text of the doc string (string values).",
        "technique": "linear-use counting dataflow with call summaries; who-may-call; must-pass-through on the comment scans",
    },
    "C13": {
        "level": "Pair agreement and opener dominance at all 7 _discard_contents sites, the transition table of the counting loop (initial "
        "value, +1/-1 under the right tests by linear-form normalisation, single exit on 0, one token per iteration), opener hand-over and "
        "no use of consumed tokens in the five attribute/static_assert consumers, and linear use / push / LIFO / empty-stack return of the balanced consumer.",
        "note": "Not decided: that _discard_ctor_initializer finds the function body for every initializer expression, and result equality "
        "under region replacement as such (runtime relation).",
        "technique": "guard dominance, linear-form normalisation of counter updates, linear-use analysis, LIFO API-discipline check",
    },
    "C14": {
        "level": "No-drop / no-duplicate linear use of tokens in the 7 collector functions (path-sensitive), delimiter-slice dataflow "
        "(exactly one [1:-1] into throw/noexcept/decltype/array size, none elsewhere, through helper return summaries), terminator sets vs. "
        "the next consumer (context-sensitive follower search), one-to-one token mapping, closer set vs. token maps, LIFO use of the expectation stack.",
        "note": "One genuine finding is listed (D2: '::' dropped in requires-clauses; a test pins it). Not decided: which pending opener a "
        "tolerated '>' is matched with beyond the LIFO discipline; position-specific value correctness (e.g. ']]' closing two subscripts).",
        "technique": "linear-use (typestate) analysis on the CFG; slice-count dataflow with interprocedural summaries; follower-set search",
    },
    "C03": {
        "level": "The stateful mechanism the statement singles out is decided: class-key default access by evaluation over the finite domain "
        "{class, struct, union}; one value feeding bases and block; per-base flags re-initialised per iteration; who writes "
        "ClassBlockState.access and who calls _set_access; every access-carrying dataclass (12 sites) built from self._current_access read "
        "before the block push; _current_access reading only the per-block state; method/function trailer fields stored only under tests "
        "admitting their own keywords; anonymous-id discipline.",
        "note": "Not decided: constructor/destructor/operator recognition and qualifier values in general (runtime comparisons of names); "
        "that every member is reported once and in order. Trusted: dataclass field tables; the keyword-to-field table in sa/props/c03.py.",
        "technique": "finite-domain expression evaluation, ownership (who may write / call), guard analysis of keyword tests, per-iteration re-initialisation",
    },
    "C12": {
        "level": "No-leak by ownership: five governed parser attributes and no others written after construction, loop-carried locals of the "
        "top-level loop, nothing parked on state objects, per-iteration re-initialisation of flags handed to constructors, lookup-or-create "
        "shape of on_namespace_start (five obligations incl. descend-on-every-iteration and start-at-parent-scope), extern aliasing, and "
        "the whole-package shared-state audit.",
        "note": "Not decided: the concatenation equation itself (result equality is a runtime relation).",
        "technique": "ownership audit, reaching-definitions / liveness across the loop back edge, must-pass-through on the namespace walk",
    },
    "C15": {
        "level": "Whole-package audit of everything that outlives a parse: 55 module-/class-level mutable objects and every one of their uses "
        "classified (read-only contexts only; two reasoned exceptions), local aliases and mutable defaults included; prototype-lexer "
        "discipline (assigned once under is-None, only cloned with an instance, clone re-bound with begin('INITIAL'), Lexer.clone un-shares "
        "rule and error tables, no shared-table mutators called); per-instance creation of every attribute written later; no global "
        "writes; tokens never mutated in parser.py.",
        "note": "Decided structurally: with no shared mutable state, sequences, nesting and thread interleavings need no further argument "
        "(the GIL is not relied on). Trusted: CPython semantics of class attributes / default arguments.",
        "technique": "effect / ownership audit over the resolved package (who may mutate what), ordering by dominance in PlyLexer.__new__",
    },
    "C01": {
        "level": "Necessary structural conditions, each decided on all paths: dispatch table vs. lexer vocabulary and handler reachability "
        "(79), fold of the simple visitor (44), payload class at every callback site (23), scope kind at every callback/constructor/"
        "annotated parameter (33), constructor keyword and **props key-set conformance to the dataclass field tables (66), parameter "
        "index of abbreviated templates, per-iteration flag re-initialisation and namespace walk, and the whole token-type vocabulary the "
        "parser names (215 strings) against what the lexer can deliver.",
        "note": "Decides 'in the scope where it was written', 'every reported object conforms to the published dataclass field types' and "
        "that each declaration kind has a route from token to callback to the right list. NOT decided: that names, types, specifiers, "
        "defaults and flags equal the source - runtime values of a 2.8 kLOC recursive descent for which static analysis has no oracle.",
        "technique": "table agreement (VOCAB) between lexer model, parser literals, dataclass field tables and protocol annotations; kind-set dataflow; reaching definitions",
    },
    "C02": {
        "level": "Restore-on-all-exits of the swapped token source and the trial-parse region rules (failures swallowed there, nothing "
        "emitted, placeholder confined, whole-argument condition); conformance of all 7 type-node constructions and cv stores to the "
        "declared Unions by kind-set dataflow; flag pairing (trailing return, vararg, calling convention); keyword partition (82 "
        "keywords); bottom-up construction (no re-linking of child fields), mode forwarding in recursive calls, per-iteration flags.",
        "note": "NOT decided: that the nesting order is the inside-out order for every declarator and that the reported name is the core "
        "identifier - value-level facts about token push-back and recursion. Trusted: Union annotations in types.py.",
        "technique": "acquire/release pairing over try/finally CFG copies; kind-set dataflow with isinstance narrowing; ownership of child links; sibling agreement of recursive calls",
    },
    "C18": {
        "level": "Forward slices from the three option reads: one read site for convert_void_to_zero_params through which every parameter "
        "list passes, effect limited to emptying the list under the lone-unnamed-void test; verbose read only for the debug_print choice "
        "and the top-of-handler re-raise, debug_print bodies and call sites effect-free; preprocessor hook called once with the "
        "unmodified (filename, content), its unmodified result the only content that is lexed, file read exactly when content is None.",
        "note": "Nothing material left undecided.",
        "technique": "def-use / control-dependence slicing from option reads; must-pass-through at call sites",
    },
    "C20": {
        "level": "Def-use chains through the entry points: every parameter of parse_file/parse_string in the backward slice of the parser "
        "construction, encoding reaching open() and the stdin decode, default literals agreeing (library and CLI), fsdecode-first, "
        "identical pipeline in both entry points, JSON dump = asdict of the unmodified result, nondefault_repr's container coverage "
        "against the closure of ParsedData's annotations and its exact skip conditions (control dependences of the emitting statement).",
        "note": "Not decided: console-encoding behaviour for non-ASCII output. Two genuine defects were repaired (encoding not passed on; stdin not decoded with it).",
        "technique": "backward slicing, reaching definitions, control-dependence comparison, annotation-closure exhaustiveness",
    },
    "C09": {
        "level": "Layout tokens cannot be observed by the parser except where the statement says the line end is significant: accessor "
        "discipline at all 128 stream accesses in parser.py, filter discipline of every TokenStream accessor (tokens inspected only after "
        "the discard filter), the discard sets against the documented layout kinds with automaton facts (blank-only, newline-only, "
        "mandatory comment prefixes, reference comment grammar included in the comment rules), newline-swallowing discardables tested "
        "where the line end matters, CRLF normalisation, splice guard, re-queueing trailing-comment scan.",
        "note": "One genuine finding listed (D9: '#include <a.h> // c' keeps the comment). Two defects repaired (pragma + trailing comment; "
        "CRLF). NOT decided: equality of results under re-layout as such (a runtime relation over all gaps).",
        "technique": "who-may-call and filter-discipline rules over the resolved accesses; reaching definitions; automaton containment/inclusion queries",
    },
    "C19": {
        "level": "Narrow: the code-shape parts of the filters and factories. Anchoring of the marker file-name comparison in all three "
        "filters (sibling cross-check), kept lines written under `keep` only (markers stay, so line numbers hold), `keep` updated only on "
        "marker lines, filter applied exactly when retain_all_content is false, gcc depfile argument handling (raise without targets, one "
        "-MQ per target), pcpp depfile contents.",
        "note": "NOT decided (the bulk of the statement): macro expansion, ordering, line numbers after filtering, depfile completeness - "
        "they depend on what gcc / cl.exe / pcpp emit, which no static argument over this repository can bound. One defect repaired (unanchored endswith).",
        "technique": "sibling cross-check of filter functions; control-dependence comparison; reaching definitions of the comparison needle",
    },
    "C17": {
        "level": "Necessary conditions of the round trip decided on the formatter code by partial evaluation of every format()/format_decl() "
        "over an enumerated shape domain (bools, optionals, list lengths 0-2, one placeholder per class of each child Union; 370 "
        "evaluations): every compared field visible under every assignment of the others, prefix declarators around suffix kinds "
        "delegate with a parenthesised declarator, arrays delegate the rest of the declarator (dimension order), comma lists well formed, "
        "Parameter form; plus the C16 pair analysis for the token values inside types.",
        "note": "NOT decided: round-trip equality itself (it needs the parser's behaviour on the formatted text). Four keys of one genuine "
        "finding are listed (FunctionType.noexcept / msvc_convention never rendered); two defects were repaired (reference to function, "
        "array dimension order). Types the parser cannot produce (rvalue reference to array/function) are outside the domain and only noted.",
        "technique": "partial evaluation (AST interpretation) of pure formatting methods over a finite abstract shape domain; template comparison",
    },
}


# Amendments after the second seeding round (applied to the texts above; a substring that no
# longer exists is an error so the texts cannot silently drift).
def _amend(prop: str, field: str, old: str, new: str) -> None:
    text = CLAIMS[prop][field]
    if old not in text:
        raise AssertionError(f"claims amendment for {prop}.{field} does not apply: {old[:40]!r}")
    CLAIMS[prop][field] = text.replace(old, new, 1)


_amend("C03", "level", "fields stored only under tests admitting their own keywords; anonymous-id discipline.",
       "fields stored only under tests admitting their own keywords; anonymous-id discipline; the segment indexes feeding the "
       "constructor/destructor name comparison are right-anchored ([-1] own name, [-2] enclosing class).")
_amend("C03", "note", "Not decided: constructor/destructor/operator recognition and qualifier values in general (runtime comparisons of names)",
       "Not decided: constructor/destructor/operator recognition beyond which segments are compared, and qualifier values in general (runtime comparisons of names)")
_amend("C06", "level", "validate after every _parse_type), no nullable token regex.",
       "validate after every _parse_type), no nullable token regex, and the '#line' re-basing arithmetic (shared with C10).")
_amend("C06", "note", "and that the reported line number is a line of the input (provenance of the number is decided under C10).",
       "and that the reported line number is a line of the input beyond the #line arithmetic (provenance of the number is decided under C10).")
_amend("C11", "level", "and the shape of both comment scans (every comment recorded, blank line detaches, real tokens kept).",
       "the leading scan's shape (every comment recorded, blank line detaches, real token pushed back), the trailing scan decided per class "
       "of token by walking its loop under a representative of each class (a line end stops it, doc comments are recorded, a plain comment "
       "that ends the line ends the scan, real tokens are re-queued), and the lookup order: no token of the declaration is consumed between "
       "the trailing lookup and the documented object.")
_amend("C11", "note", "Not decided: the exact text of the doc string (string values).",
       "Not decided: the exact text of the doc string (string values); which declaration a comment trails when several share one line. One "
       "genuine finding is listed (enumerator lookup before its value, D24); two defects were repaired (block-comment accumulation, plain "
       "trailing comment handing the next doc block to the finished declaration).")
_amend("C14", "level", "closer set vs. token maps, LIFO use of the expectation stack.",
       "closer set vs. token maps, LIFO use of the expectation stack, and the line-end test that bounds pragma contents (shared with C09).")
_amend("C15", "level", "no global writes; tokens never mutated in parser.py.",
       "no global writes; tokens never mutated in parser.py; closures handed out by factories (the preprocessor functions stored in "
       "ParserOptions) capture read-only configuration only - no object built once in the factory is used per call.")
_amend("C17", "level", "prefix declarators around suffix kinds delegate with a parenthesised declarator, arrays delegate the rest of the declarator (dimension order),",
       "the C++ declarator nesting as a reference algebra (pointer / reference / function around anything whose text continues after the "
       "name - array, function, pointer chains ending in one, to depth 3 - hands its declarator to the child's format_decl, parenthesised "
       "around array/function), arrays delegate the rest of the declarator (dimension order),")
_amend("C17", "note", "two defects were repaired (reference to function, array dimension order).",
       "three defects were repaired (reference to function, array dimension order, pointer/reference/function around pointer-to-array/function).")
_amend("C18", "level", "debug_print bodies and call sites effect-free;",
       "debug_print bodies and call sites effect-free, and - because the verbose printer applies '%' to its format - every call site passes "
       "a constant format whose conversions match its values (parsed data never becomes part of the format);")
_amend("C19", "level", "gcc depfile argument handling (raise without targets, one -MQ per target), pcpp depfile contents.",
       "gcc depfile argument handling (raise without targets, one -MQ per target), pcpp depfile contents, and the lexer's re-basing on the "
       "kept line markers (shared with C10).")
_amend("C20", "level", "default literals agreeing (library and CLI),",
       "default literals agreeing (library and CLI), the codec used when none is given evaluated at every decoding site by constant "
       "propagation and required to be the same,")


# Amendments after round 3 (normalisation, semantic rule forms, new rules)
NOTES = NOTES + (
    " Before the rules run, every function that differs from the reference vocabulary (sa/vocab.json) is normalised by meaning-preserving "
    "rewrites with checked side conditions (inlining of new helpers, propagation of new constants and pure aliases, un-chaining, table and "
    "per-class specialisation, store forwarding, alignment of renamed locals/attributes - sa/normalize.py, DESIGN 9.8), so that a "
    "behaviour-preserving refactoring is analysed in the vocabulary the rules were confirmed in. The thorough tier additionally replays "
    "the stored seeded defects and stored behaviour-preserving refactorings of the property as controls."
)
_amend("C13", "level", "the transition table of the counting loop (initial value, +1/-1 under the right tests by linear-form normalisation, single exit on 0, one token per iteration)",
       "the counting loop decided by interpreting its source over every short script of {opener, closer, other} tokens (returns right after the balancing closer, "
       "fetches exactly the skipped tokens, two bracket pairs), token-type must-facts for which token opens a skipped region and for what restarts the "
       "constructor-initializer scan")
_amend("C02", "level", "per-iteration flags.",
       "per-iteration flags; the grouping-parenthesis test admits every prefix operator the declarator parser handles; the parenthesis group after a parameter's type is dropped only under a test of its contents.")
_amend("C02", "note", "Trusted: Union annotations in types.py.",
       "Trusted: Union annotations in types.py. One genuine finding is listed (parameter parentheses dropped unseen, D30); one defect was repaired ('(&&name)' groups).")
_amend("C01", "level", "parameter index of abbreviated templates,",
       "parameter index of abbreviated templates (computed where it is evaluated) and their promotion into the last template header,")
_amend("C14", "level", "and the line-end test that bounds pragma contents (shared with C09).",
       "the line-end test that bounds pragma contents (shared with C09), and no token reported both as a flag and inside a value.")
_amend("C14", "note", "One genuine finding is listed (D2:", "Two genuine findings are listed (D28: 'sizeof...' argument reported as a pack, pinned by a test; D2:")
_amend("C20", "level", "JSON dump = asdict of the unmodified result,",
       "JSON dump = asdict of the unmodified result, no preprocessor in the dumped configuration unless one was asked for (finite-domain evaluation of the mode/flag arguments),")
_amend("C17", "level", "comma lists well formed, Parameter form;",
       "comma lists well formed with a C variadic as a list item of its own, Parameter form, every type-id position (parameter, alias) accepting the array suffix format() writes;")
_amend("C17", "note", "three defects were repaired (reference to function, array dimension order, pointer/reference/function around pointer-to-array/function).",
       "six defects were repaired (reference to function, array dimension order, pointer/reference/function around pointer-to-array/function, variadic after parameters, alias of an array type, rvalue reference to array/function).")

# ---- round 4 / refactoring round 3 (DESIGN 9.9)
_amend("C12", "level", "lookup-or-create shape of on_namespace_start (five obligations incl. descend-on-every-iteration and start-at-parent-scope)",
       "on_namespace_start interpreted over 15 scope trees x name lists (every component looked up in the scope reached so far, reused by identity when present, created under its own name when "
       "missing, walk started at the enclosing scope, block bound to the innermost scope - whatever lookup idiom is used), start callbacks choosing a scope from the parent state only (no visitor-level cache)")
_amend("C12", "technique", "must-pass-through on the namespace walk", "abstract interpretation of the namespace walk over an enumerated family of scope trees")
_amend("C11", "level", "reset points of the top-level loop and the attribute-only exception set,",
       "the top-level loop walked per token type (which handler receives the pending text, whether it is reset before the next iteration: kept only after attribute introducers whose handlers ignore it), "
       "no shrinking mutation of the collected comments,")
_amend("C11", "technique", "must-pass-through on the comment scans", "per-token-class walks of the comment scans and of the dispatch loop with decided branch conditions")
_amend("C06", "level", "handler safety (every token that can reach the handler is stamped;",
       "handler safety (every token that can reach the handler is stamped: each LexError built around a token is dominated by the stamp of that token and raised at once or returned by a factory whose calls are all raised;")
_amend("C06", "level", "validate after every _parse_type)", "validate after every _parse_type, the validator itself interpreted over all 32 modifier combinations)")
_amend("C15", "level", "prototype-lexer discipline (assigned once under is-None,", "no memoising decorator anywhere in the package; prototype-lexer discipline (built by the one method that calls lex.lex, assigned once under is-None,")
_amend("C15", "technique", "ordering by dominance in PlyLexer.__new__", "ordering by dominance in the prototype builder")
_amend("C19", "level", "Anchoring of the marker file-name comparison in all three filters (sibling cross-check)", "Anchoring of the marker file-name comparison in all three filters (sibling cross-check; both sides unprojected)")
_amend("C13", "level", "Pair agreement and opener dominance at all 7 _discard_contents sites", "Pair agreement (or opener membership, when the skipper looks the closer up itself) and opener dominance at all 7 _discard_contents sites")
_amend("C03", "level", "are right-anchored ([-1] own name, [-2] enclosing class).", "are right-anchored ([-1] own name, [-2] enclosing class); a plain segment is named by the NAME token just matched.")

# ---- round 5 (DESIGN 9.10)
_amend("C02", "level", "whole-argument condition);", "whole-argument condition, the guard evaluated for every first token of a type-id: name, fundamental type, cv-qualifier);")
_amend("C02", "level", "the grouping-parenthesis test admits every prefix operator the declarator parser handles;",
       "the grouping-parenthesis test admits every prefix operator the declarator parser handles and every parameter-list parse of the declarator loop comes after it (abstract declarators as template arguments); "
       "every type-id position (parameter, alias, template argument) reads the array suffix;")
_amend("C13", "level", "and linear use / push / LIFO / empty-stack return of the balanced consumer.",
       "and the balanced consumer decided by interpreting its source over every script of bracket tokens up to length 4 (quick) / 6 (thorough) against a reference stack machine: returns right after the "
       "balancing closer with every token kept in order, a ']]' token closes two pending '[', a tolerated '<' / '>' is matched with the innermost pending bracket of its kind.")
_amend("C13", "technique", "linear-use analysis, LIFO API-discipline check", "linear-use analysis, abstract interpretation of the two bracket consumers over enumerated token scripts")
_amend("C14", "level", "closer set vs. token maps, LIFO use of the expectation stack,", "closer set vs. token maps, the balanced consumer interpreted over bracket scripts (shared with C13),")
_amend("C06", "level", "bracket mismatch,", "bracket mismatch (the balanced consumer interpreted over bracket scripts: raises at the first closer that is not the innermost expectation),")
_amend("C11", "level", "and the lookup order: no token of the declaration is consumed between the trailing lookup and the documented object.",
       "and the lookup order: no token of the declaration is consumed between the trailing lookup and the documented object, and no separator (',' ';' '}') before it.")
_amend("C12", "level", "extern aliasing,", "extern aliasing, the doc-comment leak channels (C11's single attribution, reset after dispatch and trailing-scan rules under this property's id),")
_amend("C16", "level", "Complete finite decision for all ordered pairs (quick) and triples (thorough) of token classes:",
       "Complete finite decision for all ordered pairs (quick; plus the triples of fixed-text tokens that spell a longer token) and all triples (thorough) of token classes:")
_amend("C18", "level", "every call site passes a constant format whose conversions match its values", "every call site passes a constant format whose conversions match its values in number and, where the value is certainly text, in kind")
_amend("C19", "level", "and the lexer's re-basing on the kept line markers (shared with C10).", "the lexer's re-basing on the kept line markers (shared with C10), and the preprocessor closures keeping nothing from one file to the next (shared with C15).")
_amend("C20", "level", "and its exact skip conditions (control dependences of the emitting statement).", "its exact skip conditions (control dependences of the emitting statement), and no state kept from one field or object to the next.")

# ---- round 6 (DESIGN 9.11)
_amend("C08", "level", "UDL fusion", "UDL fusion (the buffer fill interpreted over every short script of raw tokens: fusion of a literal with its '_' suffix, one physical line per call, every raw token kept once with a location)") if "UDL fusion" in CLAIMS["C08"]["level"] else None
_amend("C13", "level", "opener hand-over and no use of consumed tokens in the five attribute/static_assert consumers,", "opener hand-over and no use of consumed tokens in the five attribute/static_assert consumers, the attribute-specifier sequence continuing with every kind of specifier it handles,")
_amend("C20", "level", "and no state kept from one field or object to the next.", "no state kept from one field or object to the next, and leaves rendered with repr().")
_amend("C07", "level", "re-enters the parser once per argument", "re-enters the parser once per argument (the re-parse stream is built at the loop depth at which the argument's tokens are taken)") if "re-enters the parser once per argument" in CLAIMS["C07"]["level"] else None
_amend("C02", "level", "Restore-on-all-exits of the swapped token source", "Restore-on-all-exits of the swapped token source, nothing taken from the token source kept on the parser,")
_amend("C17", "level", "every type-id position (parameter, alias) accepting the array suffix format() writes;", "every type-id position (parameter, alias, template argument) accepting the array suffix format() writes, template arguments that format() writes as type-ids tried and kept as types (C02's trial-parse rules under this id);")
_amend("C09", "level", "the line-splice guard", "the buffer fill interpreted over raw-token scripts (a backslash-NEWLINE pair removed wherever it falls, nothing else), the include handler's compressing pattern covering the blanks the lexer rule admits,") if "the line-splice guard" in CLAIMS["C09"]["level"] else None
_amend("C08", "level", "UDL fusion (the buffer fill", "user-defined-literal fusion (the buffer fill")
_amend("C08", "level", "with a location) facts,", "with a location),")
_amend("C07", "level", "the template-argument trial parse is attempted once.", "the template-argument trial parse is attempted once (one re-parse stream, built at the loop depth at which the argument's tokens are taken).")
_amend("C09", "level", "CRLF normalisation, splice guard,", "CRLF normalisation, the buffer fill interpreted over raw-token scripts (a backslash-NEWLINE pair removed wherever it falls and nothing else), the include handler's compressing pattern covering the blanks the lexer rule admits,")
_amend("C06", "level", "message prefix flows from the token's location)", "message prefix flows from the token's location; an error raised by parse()'s own loop carries a token known to exist there)")
_amend("C11", "level", "and no separator (',' ';' '}') before it.", "no separator (',' ';' '}') before it, and nothing fetched after a function body has been skipped.")
_amend("C01", "level", "per-iteration flag re-initialisation and namespace walk,", "per-iteration flag re-initialisation and namespace walk, the #include operand cut out exactly as the lexer rule admits it (shared with C09),")
_amend("C14", "level", "and no token reported both as a flag and inside a value.", "no token reported both as a flag and inside a value, and every literal of the reference literal grammar taken whole by its lexer rule, so that a literal in a value is one token (language inclusion and leftmost-first preference on the rule automata, shared with C08).")
# round 7 / 8
CLAIMS["C01"]["level"] += " Also, shared: every lexer keyword is one the parser knows (C02's keyword partition), template arguments that are type-ids get the trial parse as types (C02's guard rules)."
CLAIMS["C02"]["level"] += " A FunctionType built from the fields of one Function takes every field the two classes share (whole package)."
CLAIMS["C03"]["level"] += " An inline member body ends where its braces balance, counted token by token (C13's counting loop and token-accessor discipline under this id)."
CLAIMS["C06"]["level"] += " Code that runs at construction (outside the catch-all) never indexes the input text without a test of it; brackets are matched by counting only in the body skipper."
CLAIMS["C08"]["level"] += " PLY's scanning loop hands out nothing and moves nowhere before the master regular expression was tried (dominance in Lexer.token); discarding t_ignore_ string rules are modelled (text lost, newlines not counted)."
CLAIMS["C10"]["level"] += " Line-end normalisation before lexing keeps one line end per line (shared with C09)."
CLAIMS["C11"]["level"] += " The buffer the comment scans read holds every raw token, comments included, unchanged (the buffer fill interpreted over raw-token scripts)."
CLAIMS["C13"]["level"] += " Regions are skipped token by token: parser.py reaches the input only through the token accessors (C09's who-may-call rule under this id)."
CLAIMS["C14"]["level"] += " A collected token list is passed on on every completing path (inspection and one arm of a conditional expression do not count); the buffer the values are cut from holds every raw token once, unchanged (fill interpretation); a '['-opened group stripped of its delimiters is checked for the fused ']]' closer."
CLAIMS["C15"]["level"] += " Library modules call no setter of process-wide interpreter state (recursion limit, cwd, environment, locale, warning filters, hooks)."
CLAIMS["C17"]["level"] += " Text leaves (str fields) are written verbatim, and text returned by a child's format()/format_decl()/tokfmt is only concatenated, never edited."
CLAIMS["C19"]["level"] += " The main-file name handed to a filter never derives from the preprocessor's output; the gcc filter compares with the name escaped as gcc writes it on every path."
# round 9
CLAIMS["C01"]["level"] += " Every specifier token the type parser's loop consumes leaves a trace; the #include operand is cut off once, at the first blank (shared with C09)."
CLAIMS["C03"]["level"] += " A constructor's initializer list ends at the body (C13's R13.6 under this id)."
CLAIMS["C06"]["level"] += " Every specifier token the type parser consumes is recorded, so that validate() can reject it (shared with C01)."
CLAIMS["C09"]["level"] += " The #include operand is cut off once, at the first blank."
CLAIMS["C10"]["level"] += " The handler's message names the file and the line of the token the error is about (C06's message rule under this id); nothing is carried on the parser from one declaration to the next (C12's ownership rule under this id: a parked location would be reported for a later declaration)."
CLAIMS["C12"]["level"] += " The trailing-doc lookup order (C11's R11.6) is evaluated under this id as well."
CLAIMS["C14"]["level"] += " The raw value of a template argument is created from its own token list before the trial parse touches it (C02's region rule under this id)."
CLAIMS["C16"]["level"] += " tokfmt is interpreted as a whole function on concrete class sequences (any number of loops, early returns, for-else); text returned by tokfmt / format() is only concatenated by its callers in types.py, never edited (shared with C17)."
# round 10
CLAIMS["C01"]["level"] += " Look-ahead accessors compare token types with types and texts with texts (shared with C09)."
CLAIMS["C03"]["level"] += " The class block's constructor stores the access level it is handed (the class-key default computed by the parser)."
CLAIMS["C08"]["level"] += " A keyword guard with further conjuncts is evaluated for every keyword; the text handed to the lexer is the input with CR LF read as LF and nothing else rewritten (shared with C09); back-references in token rules are read with the group's language (widened)."
CLAIMS["C09"]["level"] += " Look-ahead accessors compare exactly one token attribute with their argument."
CLAIMS["C12"]["level"] += " No container that lives on the parser is filled while parsing (a cache shared between declarations)."
CLAIMS["C13"]["level"] += " The argument lists of constructor initializers go through the bracket counter, not the '<' '>'-interpreting consumer."
CLAIMS["C17"]["level"] += " Children are formatted in full: format() without arguments, format_decl() with the declarator only."
CLAIMS["C19"]["level"] += " A regular expression that extracts the file name from a line marker admits blanks in the name."
