"""The trailing-comment scan (LexerTokenStream.get_doxygen_after), decided per
class of token: the loop body is walked from the `tok = tokbuf.popleft()` node
under a representative (type, value) of every class of token the lexer model
can deliver; tests that the representative decides prune the walk, the others
fork it.  The outcome of a walk is whether the loop continues or is left, and
whether the token was recorded as a comment or kept for the parser.

Used by C09 (no token is lost) and C11 (which comment lines the scan may
collect)."""
from __future__ import annotations

import ast
from typing import Any, Dict, List, NamedTuple, Optional, Set, Tuple

from .booleval import UNKNOWN, ev
from .cfg import CFG, Node
from .model import AnalysisError, Module, norm

# class name -> (token type, representative value)
REPRESENTATIVES: Dict[str, Tuple[str, str]] = {
    "NEWLINE": ("NEWLINE", "\n"),
    "WHITESPACE": ("WHITESPACE", " "),
    "doc '///' line": ("COMMENT_SINGLELINE", "/// d\n"),
    "doc '//!' line": ("COMMENT_SINGLELINE", "//! d\n"),
    "doc '///' at end of input": ("COMMENT_SINGLELINE", "///< d"),
    "doc '/**' block ending the line": ("COMMENT_MULTILINE", "/** d */\n"),
    "doc '/*!' block ending the line": ("COMMENT_MULTILINE", "/*! d */\n"),
    "doc '/**' block inside a line": ("COMMENT_MULTILINE", "/**< d */"),
    "plain '//' line": ("COMMENT_SINGLELINE", "// p\n"),
    "plain '/*' block ending the line": ("COMMENT_MULTILINE", "/* p */\n"),
    "plain '/*' block spanning lines": ("COMMENT_MULTILINE", "/* p\n p */\n"),
    "plain '/*' block inside a line": ("COMMENT_MULTILINE", "/* p */"),
    "real token": ("NAME", "x"),
    "real token ';'": (";", ";"),
}
DOC_PREFIXES = ("///", "//!", "/**", "/*!")


def is_doc(value: str) -> bool:
    return value.startswith(DOC_PREFIXES)


class Walk(NamedTuple):
    cls: str
    outcome: str          # 'continue' | 'leave'
    recorded: bool        # comments.append(tok)
    kept: bool            # new_tokbuf.append(tok)
    trail: Tuple[int, ...]  # line numbers of the decided / forked tests


def _str_call(e: ast.AST, env: Dict[str, Any], sym) -> Any:
    """startswith / endswith on a concretely known string"""
    if isinstance(e, ast.Call) and isinstance(e.func, ast.Attribute) and e.func.attr in ("startswith", "endswith") and len(e.args) == 1 and not e.keywords:
        base = ev2(e.func.value, env, sym)
        arg = ev2(e.args[0], env, sym)
        if isinstance(base, str) and isinstance(arg, (str, tuple)):
            return getattr(base, e.func.attr)(arg)
    return UNKNOWN


def ev2(e: ast.AST, env: Dict[str, Any], sym) -> Any:
    def sym2(x: ast.AST) -> Optional[str]:
        k = sym(x)
        if k is not None:
            return k
        v = _str_call(x, env, sym)
        if v is not UNKNOWN:
            env["@" + norm(x)] = v
            return "@" + norm(x)
        return None
    return ev(e, env, sym2)


def walks(lex: Module, qual: str = "LexerTokenStream.get_doxygen_after", extract: str = "_extract_comments") -> Tuple[List[Walk], CFG, Node]:
    fn = lex.func(qual)
    cfg = CFG(fn)
    pops = [n for n in cfg.nodes if n.kind == "stmt" and isinstance(n.stmt, ast.Assign) and norm(n.stmt.value).endswith(".popleft()")
            and len(n.stmt.targets) == 1 and isinstance(n.stmt.targets[0], ast.Name)]
    if len(pops) != 1:
        raise AnalysisError(f"anchor vanished: the single `tok = tokbuf.popleft()` of {qual}")
    pop = pops[0]
    var = pop.stmt.targets[0].id
    loop = None
    for n in cfg.nodes:
        if n.kind == "test" and isinstance(n.stmt, ast.While) and any(x is pop.stmt for x in ast.walk(n.stmt)):
            if loop is None or any(x is n.stmt for x in ast.walk(loop.stmt)):
                loop = n  # innermost
    if loop is None:
        raise AnalysisError(f"anchor vanished: the scan loop of {qual}")
    inside: Set[int] = {id(x) for st in loop.stmt.body for x in ast.walk(st)}

    out: List[Walk] = []
    for cname, (ttype, value) in REPRESENTATIVES.items():
        docval = value.rstrip("\n") if is_doc(value) else None

        def sym(e: ast.AST) -> Optional[str]:
            t = norm(e)
            if t == f"{var}.type":
                return "type"
            if t == f"{var}.value":
                return "value"
            if isinstance(e, ast.Call) and norm(e.func) == f"self.{extract}" and len(e.args) == 1 and norm(e.args[0]) == f"[{var}]":
                return "extract"
            return None

        env0 = {"type": ttype, "value": value, "extract": docval}
        stack: List[Tuple[Node, bool, bool, Tuple[int, ...]]] = [(s, False, False, ()) for s, lab in pop.succ if lab != "exc"]
        seen: Set[Tuple[int, bool, bool]] = set()
        while stack:
            n, rec, kept, trail = stack.pop()
            if n is loop:
                out.append(Walk(cname, "continue", rec, kept, trail))
                continue
            if n is cfg.exit or n.stmt is None or id(n.stmt) not in inside:
                out.append(Walk(cname, "leave", rec, kept, trail))
                continue
            k = (n.id, rec, kept)
            if k in seen:
                continue
            seen.add(k)
            if n.kind == "stmt" and isinstance(n.stmt, ast.Expr) and isinstance(n.stmt.value, ast.Call):
                c = n.stmt.value
                f = norm(c.func)
                if len(c.args) == 1 and norm(c.args[0]) == var:
                    if f == "comments.append":
                        rec = True
                    elif f.endswith(".append") or f.endswith(".appendleft"):
                        kept = True
            decided: Any = UNKNOWN
            if n.kind == "test" and n.cond is not None:
                decided = ev2(n.cond, dict(env0), sym)
                trail = trail + (n.lineno,)
            for s, lab in n.succ:
                if lab == "exc":
                    continue
                if decided is not UNKNOWN and lab in ("T", "F") and bool(decided) != (lab == "T"):
                    continue
                stack.append((s, rec, kept, trail))
    return out, cfg, pop


class LeadWalk(NamedTuple):
    cls: str
    popped: bool
    outcome: str          # 'continue' (back to the scan loop) | 'leave'
    recorded: bool        # comments.append(tok)
    cleared: bool         # comments.clear() / comments = []
    pushed_back: bool     # <buffer>.appendleft(tok)
    trail: Tuple[int, ...]


def leading_walks(lex: Module, qual: str = "LexerTokenStream.get_doxygen", consts: Optional[Dict[str, Any]] = None) -> List[LeadWalk]:
    """The leading-comment scan, decided per class of token: one iteration of the loop that takes tokens off the front
    of the buffer, started at the loop test with the class's representative as the buffer's first token (so a loop that
    peeks at tokbuf[0] before popping and one that pops and pushes back are both followed)."""
    fn = lex.func(qual)
    cfg = CFG(fn)
    pops = [n for n in cfg.nodes if n.kind == "stmt" and isinstance(n.stmt, ast.Assign) and norm(n.stmt.value).endswith(".popleft()")
            and len(n.stmt.targets) == 1 and isinstance(n.stmt.targets[0], ast.Name)]
    if len(pops) != 1:
        raise AnalysisError(f"anchor vanished: the single `tok = tokbuf.popleft()` of {qual}")
    pop = pops[0]
    var = pop.stmt.targets[0].id
    buf = norm(pop.stmt.value.func.value)  # type: ignore[attr-defined]
    loop = None
    for n in cfg.nodes:
        if n.kind == "test" and isinstance(n.stmt, ast.While) and any(x is pop.stmt for x in ast.walk(n.stmt)):
            if loop is None or any(x is n.stmt for x in ast.walk(loop.stmt)):
                loop = n
    if loop is None:
        raise AnalysisError(f"anchor vanished: the scan loop of {qual}")
    inside = {id(x) for st in loop.stmt.body for x in ast.walk(st)}
    out: List[LeadWalk] = []
    for cname, (ttype, value) in REPRESENTATIVES.items():
        def sym(e: ast.AST) -> Optional[str]:
            t = norm(e)
            if t in (f"{var}.type", f"{buf}[0].type"):
                return "type"
            if t in (f"{var}.value", f"{buf}[0].value"):
                return "value"
            if t == buf:
                return "buf"
            if consts and t in consts:
                return "const:" + t
            return None
        env0 = {"type": ttype, "value": value, "buf": True}
        for k_, v_ in (consts or {}).items():
            env0["const:" + k_] = v_
        # state: node, popped, recorded, cleared, pushed, trail ; the buffer is non-empty until the token is popped
        stack = [(loop, False, False, False, False, ())]
        seen: Set[Tuple[int, bool, bool, bool, bool]] = set()
        first = True
        while stack:
            n, popped, rec, clr, psh, trail = stack.pop()
            if n is loop and not first:
                out.append(LeadWalk(cname, popped, "continue", rec, clr, psh, trail))
                continue
            if n is not loop and (n is cfg.exit or n.stmt is None or id(n.stmt) not in inside):
                out.append(LeadWalk(cname, popped, "leave", rec, clr, psh, trail))
                continue
            first = False
            k = (n.id, popped, rec, clr, psh)
            if k in seen:
                continue
            seen.add(k)
            if n is pop:
                popped = True
            st = n.stmt
            if n.kind == "stmt" and isinstance(st, ast.Expr) and isinstance(st.value, ast.Call):
                c = st.value
                f = norm(c.func)
                if f == "comments.append" and len(c.args) == 1 and norm(c.args[0]) == var:
                    rec = True
                elif f == "comments.clear":
                    clr = True
                elif f.endswith(".appendleft") and len(c.args) == 1 and norm(c.args[0]) == var:
                    psh = True
            if n.kind == "stmt" and isinstance(st, ast.Assign) and any(isinstance(t, ast.Name) and t.id == "comments" for t in st.targets):
                clr = True
            decided: Any = UNKNOWN
            if n.kind == "test" and n.cond is not None:
                env = dict(env0)
                if popped and not psh:
                    env.pop("buf", None)  # what is behind the popped token is not known
                    # and tokbuf[0] is no longer this token
                    def sym2(e, _s=sym):
                        t = norm(e)
                        if t in (f"{buf}[0].type", f"{buf}[0].value", buf):
                            return "unknown"
                        return _s(e)
                    decided = ev2(n.cond, env, sym2)
                else:
                    decided = ev2(n.cond, env, sym)
                trail = trail + (n.lineno,)
            for s_, lab in n.succ:
                if lab == "exc":
                    continue
                if decided is not UNKNOWN and lab in ("T", "F") and bool(decided) != (lab == "T"):
                    continue
                stack.append((s_, popped, rec, clr, psh, trail))
    return out


def kept_restored(fn: ast.FunctionDef) -> bool:
    """The tokens the trailing scan keeps (appended to an accumulator K) end up in front of the unscanned rest of the
    buffer, in their original order:  K.extend(buf); self.tokbuf = K   or   buf.extendleft(reversed(K))."""
    keeps = {norm(c.func.value) for c in ast.walk(fn) if isinstance(c, ast.Call) and isinstance(c.func, ast.Attribute) and c.func.attr == "append" and len(c.args) == 1
             and isinstance(c.args[0], ast.Name) and norm(c.func.value) != "comments"}
    txt = norm(fn)
    bufs = {"tokbuf", "self.tokbuf"}
    for k in keeps:
        if any(f"{k}.extend({b})" in txt for b in bufs) and f"self.tokbuf = {k}" in txt:
            return True
        if any(f"{b}.extendleft(reversed({k}))" in txt or f"{b}.extendleft({k}[::-1])" in txt for b in bufs):
            return True
    return False
