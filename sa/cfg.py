"""E2 -- statement-level control-flow graph with labelled branch edges,
dominators and a generic forward data-flow solver.

Node kinds
  entry / exit / raise     synthetic
  stmt                     a simple statement (Assign, Expr, Return, Raise ...)
  test                     the test of If / While / Assert, or the iterator of For
  handler                  entry of an ``except`` clause
  with                     the context expressions of a ``with``

Edge labels: 'T' / 'F' out of a test node, 'exc' into a handler or into the
exceptional copy of a ``finally`` block, None otherwise.

``finally`` blocks are duplicated per continuation kind (normal, exceptional,
return/break/continue) so that a path through the graph is a path of the
program.  Exceptions are modelled only inside ``try`` statements (every node in
the body has an 'exc' edge to every handler and to the exceptional finally
copy); an exception that is not caught inside the function ends the path at
the ``raise`` node only for explicit ``raise`` statements and failed asserts --
implicit propagation from calls simply ends the path, which is what the
must-analyses built on top want.
"""
from __future__ import annotations

import ast
from typing import Any, Callable, Dict, FrozenSet, Iterable, List, Optional, Set, Tuple

from .model import walk_local


class Node:
    __slots__ = ("id", "stmt", "kind", "succ", "pred", "cond", "loop")

    def __init__(self, nid: int, stmt: Optional[ast.AST], kind: str):
        self.id = nid
        self.stmt = stmt
        self.kind = kind
        self.succ: List[Tuple["Node", Optional[str]]] = []
        self.pred: List[Tuple["Node", Optional[str]]] = []
        self.cond: Optional[ast.AST] = None
        self.loop: Optional[ast.AST] = None

    @property
    def lineno(self) -> int:
        return getattr(self.stmt, "lineno", 0)

    def __repr__(self) -> str:
        return f"<{self.kind}#{self.id}@{self.lineno}>"

    def exprs(self) -> List[ast.AST]:
        """The AST evaluated *at* this node (not nested statements)."""
        st = self.stmt
        if st is None or self.kind not in ("stmt", "test", "handler", "with"):
            return []
        if self.kind == "test":
            if self.cond is not None:
                return [self.cond]
            if isinstance(st, (ast.For, ast.AsyncFor)):
                return [st.iter, st.target]
            return []
        if self.kind == "handler":
            return [st.type] if getattr(st, "type", None) is not None else []
        if self.kind == "with":
            out: List[ast.AST] = []
            for it in st.items:  # type: ignore[attr-defined]
                out.append(it.context_expr)
                if it.optional_vars is not None:
                    out.append(it.optional_vars)
            return out
        if isinstance(st, (ast.FunctionDef, ast.AsyncFunctionDef, ast.ClassDef)):
            return list(st.decorator_list)
        return [st]

    def walk(self) -> Iterable[ast.AST]:
        for e in self.exprs():
            yield from walk_local(e)

    def calls(self) -> Iterable[ast.Call]:
        for n in self.walk():
            if isinstance(n, ast.Call):
                yield n


class _Frame:
    """A finally block (or loop) that non-local exits must run through."""

    def __init__(self, final: Optional[List[ast.stmt]]):
        self.final = final


class CFG:
    def __init__(self, fn: ast.AST):
        self.fn = fn
        self.nodes: List[Node] = []
        if getattr(fn, "_unmodelled", None):
            from .model import AnalysisError
            raise AnalysisError(f"control flow of {getattr(fn, 'name', '?')} is not modelled: {fn._unmodelled}")
        self.entry = self._new(None, "entry")
        self.exit = self._new(None, "exit")
        self.raise_exit = self._new(None, "raise")
        body = fn.body if not isinstance(fn, ast.Lambda) else [ast.Return(value=fn.body)]
        ends = self._block(body, [(self.entry, None)], _Ctx())
        self._link(ends, self.exit)
        for n in self.nodes:
            for s, lab in n.succ:
                s.pred.append((n, lab))
        self._dom: Optional[Dict[int, Set[int]]] = None
        self._pdom: Optional[Dict[int, Set[int]]] = None

    # ---------------------------------------------------------------- build
    def _new(self, stmt: Optional[ast.AST], kind: str) -> Node:
        n = Node(len(self.nodes), stmt, kind)
        self.nodes.append(n)
        return n

    def _link(self, preds: List[Tuple[Node, Optional[str]]], n: Node) -> None:
        for p, lab in preds:
            p.succ.append((n, lab))

    def _block(self, stmts: List[ast.stmt], preds, ctx: "_Ctx"):
        for st in stmts:
            preds = self._stmt(st, preds, ctx)
        return preds

    def _exc_edges(self, n: Node, ctx: "_Ctx") -> None:
        for h in ctx.handlers:
            n.succ.append((h, "exc"))

    def _run_finals(self, preds, ctx: "_Ctx", upto: int):
        """Route preds through copies of the finally blocks ctx.finals[upto:],
        innermost first; returns the resulting preds."""
        for i in range(len(ctx.finals) - 1, upto - 1, -1):
            fin, outer = ctx.finals[i]
            preds = self._block(fin, preds, outer)
        return preds

    def _stmt(self, st: ast.stmt, preds, ctx: "_Ctx"):
        if isinstance(st, ast.If):
            t = self._new(st, "test")
            t.cond = st.test
            self._link(preds, t)
            self._exc_edges(t, ctx)
            a = self._block(st.body, [(t, "T")], ctx)
            b = self._block(st.orelse, [(t, "F")], ctx) if st.orelse else [(t, "F")]
            return a + b
        if isinstance(st, ast.Assert):
            t = self._new(st, "test")
            t.cond = st.test
            self._link(preds, t)
            if ctx.handlers:
                self._exc_edges(t, ctx)
            else:
                t.succ.append((self.raise_exit, "F"))
            return [(t, "T")]
        if isinstance(st, (ast.While, ast.For, ast.AsyncFor)):
            t = self._new(st, "test")
            t.loop = st
            self._link(preds, t)
            self._exc_edges(t, ctx)
            iswhile = isinstance(st, ast.While)
            if iswhile:
                t.cond = st.test
            brk: List[Tuple[Node, Optional[str]]] = []
            inner = ctx.loop(t, brk)
            body = self._block(st.body, [(t, "T" if iswhile else None)], inner)
            self._link(body, t)
            const_true = (
                iswhile and isinstance(st.test, ast.Constant) and bool(st.test.value) is True
            )
            out = list(brk)
            if not const_true:
                lab = "F" if iswhile else None
                out += self._block(st.orelse, [(t, lab)], ctx) if st.orelse else [(t, lab)]
            return out
        if isinstance(st, ast.Try):
            hnodes = [self._new(h, "handler") for h in st.handlers]
            body_ctx = ctx.try_(hnodes, st.finalbody, ctx)
            if st.finalbody:
                # exceptional copy of the finally block: entered from any node of
                # the body/handlers, leaves to the enclosing handlers or raise.
                fin_exc_entry = self._new(st, "finally-exc")
                outs_exc = self._block(st.finalbody, [(fin_exc_entry, None)], ctx)
                if ctx.handlers:
                    for p, lab in outs_exc:
                        for h in ctx.handlers:
                            p.succ.append((h, "exc"))
                else:
                    self._link(outs_exc, self.raise_exit)
                body_ctx.handlers = hnodes + [fin_exc_entry]
                hctx = ctx.try_([fin_exc_entry], st.finalbody, ctx)
            else:
                hctx = ctx
            body_preds = self._block(st.body, preds, body_ctx)
            els_ctx = hctx if st.finalbody else ctx
            els = self._block(st.orelse, body_preds, els_ctx) if st.orelse else body_preds
            outs = list(els)
            for h, hn in zip(st.handlers, hnodes):
                outs += self._block(h.body, [(hn, None)], hctx)
            if st.finalbody:
                outs = self._block(st.finalbody, outs, ctx)
            return outs
        if isinstance(st, (ast.With, ast.AsyncWith)):
            n = self._new(st, "with")
            self._link(preds, n)
            self._exc_edges(n, ctx)
            return self._block(st.body, [(n, None)], ctx)
        if isinstance(st, ast.Match):  # pragma: no cover - not used by the package
            n = self._new(st, "stmt")
            self._link(preds, n)
            outs = [(n, None)]
            for case in st.cases:
                outs += self._block(case.body, [(n, None)], ctx)
            return outs
        n = self._new(st, "stmt")
        self._link(preds, n)
        if isinstance(st, ast.Return):
            p = self._run_finals([(n, None)], ctx, 0)
            self._link(p, self.exit)
            self._exc_edges(n, ctx)
            return []
        if isinstance(st, ast.Raise):
            if ctx.handlers:
                self._exc_edges(n, ctx)
            else:
                n.succ.append((self.raise_exit, None))
            return []
        if isinstance(st, ast.Break):
            p = self._run_finals([(n, None)], ctx, ctx.loop_final_depth)
            ctx.brk.extend(p)
            return []
        if isinstance(st, ast.Continue):
            p = self._run_finals([(n, None)], ctx, ctx.loop_final_depth)
            self._link(p, ctx.cont)
            return []
        self._exc_edges(n, ctx)
        return [(n, None)]

    # ------------------------------------------------------------ analyses
    def reachable(self) -> Set[int]:
        seen = {self.entry.id}
        st = [self.entry]
        while st:
            n = st.pop()
            for s, _ in n.succ:
                if s.id not in seen:
                    seen.add(s.id)
                    st.append(s)
        return seen

    def dominators(self) -> Dict[int, Set[int]]:
        if self._dom is None:
            self._dom = _dominators(self.nodes, self.entry, lambda n: [p for p, _ in n.pred], self.reachable())
        return self._dom

    def dominates(self, a: Node, b: Node) -> bool:
        return a.id in self.dominators().get(b.id, set())

    def node_of(self, stmt: ast.AST) -> List[Node]:
        """CFG nodes whose evaluated expressions contain the given AST node."""
        out = []
        for n in self.nodes:
            for e in n.exprs():
                if e is stmt or any(x is stmt for x in walk_local(e)):
                    out.append(n)
                    break
        return out

    def paths_avoiding(self, src: Node, dst: Node, avoid: Callable[[Node], bool], skip_exc: bool = True) -> bool:
        """Is there a path src ->+ dst none of whose *intermediate* nodes
        satisfies avoid()?"""
        seen: Set[int] = set()
        st = [s for s, lab in src.succ if not (skip_exc and lab == "exc")]
        while st:
            n = st.pop()
            if n.id in seen:
                continue
            seen.add(n.id)
            if n is dst:
                return True
            if avoid(n):
                continue
            for s, lab in n.succ:
                if skip_exc and lab == "exc":
                    continue
                st.append(s)
        return False

    def control_deps(self, n: Node) -> List[Tuple[Node, str]]:
        """Dominating test nodes d with the label L such that every path d -> n
        leaves d through its L edge (n is confined to that side of the test)."""
        out: List[Tuple[Node, str]] = []
        for i in self.dominators().get(n.id, ()):
            d = self.nodes[i]
            if d is n or d.kind != "test" or d.cond is None:
                continue
            sides = {}
            for lab in ("T", "F"):
                ss = [s for s, l in d.succ if l == lab]
                sides[lab] = any(s is n or self.paths_avoiding(s, n, lambda y: y is d) for s in ss) if ss else False
                if any(s is n for s in ss):
                    sides[lab] = True
            if sides["T"] and not sides["F"]:
                out.append((d, "T"))
            elif sides["F"] and not sides["T"]:
                out.append((d, "F"))
        return out

    def in_loop(self, n: Node) -> bool:
        """n lies on a cycle of the graph."""
        seen: Set[int] = set()
        st = [s for s, _ in n.succ]
        while st:
            x = st.pop()
            if x is n:
                return True
            if x.id in seen:
                continue
            seen.add(x.id)
            st.extend(s for s, _ in x.succ)
        return False


class _Ctx:
    def __init__(self):
        self.handlers: List[Node] = []
        self.finals: List[Tuple[List[ast.stmt], "_Ctx"]] = []
        self.brk: List[Tuple[Node, Optional[str]]] = []
        self.cont: Optional[Node] = None
        self.loop_final_depth = 0

    def _copy(self) -> "_Ctx":
        c = _Ctx()
        c.handlers = list(self.handlers)
        c.finals = list(self.finals)
        c.brk = self.brk
        c.cont = self.cont
        c.loop_final_depth = self.loop_final_depth
        return c

    def loop(self, head: Node, brk) -> "_Ctx":
        c = self._copy()
        c.brk = brk
        c.cont = head
        c.loop_final_depth = len(self.finals)
        return c

    def try_(self, hnodes: List[Node], final: List[ast.stmt], outer: "_Ctx") -> "_Ctx":
        c = self._copy()
        c.handlers = list(hnodes)
        if final:
            c.finals = self.finals + [(final, outer)]
        return c


def _dominators(nodes, entry, preds_of, reachable) -> Dict[int, Set[int]]:
    ids = [n.id for n in nodes if n.id in reachable]
    full = set(ids)
    dom = {i: set(full) for i in ids}
    dom[entry.id] = {entry.id}
    changed = True
    byid = {n.id: n for n in nodes}
    while changed:
        changed = False
        for i in ids:
            if i == entry.id:
                continue
            ps = [p.id for p in preds_of(byid[i]) if p.id in full]
            new = set(full)
            for p in ps:
                new &= dom[p]
            if not ps:
                new = set()
            new = new | {i}
            if new != dom[i]:
                dom[i] = new
                changed = True
    return dom


# ---------------------------------------------------------------------------
# generic forward data-flow


def solve_forward(
    cfg: CFG,
    init: Any,
    transfer: Callable[[Node, Any], Any],
    join: Callable[[Any, Any], Any],
    edge: Optional[Callable[[Node, Optional[str], Node, Any], Any]] = None,
    skip_exc: bool = False,
    max_iter: int = 200000,
) -> Dict[int, Any]:
    """Worklist solver.  Returns IN facts per node id (nodes never reached are
    absent).  ``transfer(node, in) -> out``; ``edge(src, label, dst, out)``
    refines the fact along one edge (may return None to kill the edge)."""
    IN: Dict[int, Any] = {cfg.entry.id: init}
    work = [cfg.entry]
    it = 0
    while work:
        it += 1
        if it > max_iter:
            raise RuntimeError("dataflow did not converge")
        n = work.pop()
        out = transfer(n, IN[n.id])
        for s, lab in n.succ:
            if skip_exc and lab == "exc":
                continue
            f = out if edge is None else edge(n, lab, s, out)
            if f is None:
                continue
            if s.id in IN:
                new = join(IN[s.id], f)
                if new == IN[s.id]:
                    continue
                IN[s.id] = new
            else:
                IN[s.id] = f
            work.append(s)
    return IN


def must_forward(cfg: CFG, entry_fact: bool, gen: Callable[[Node], bool], kill: Optional[Callable[[Node], bool]] = None, skip_exc: bool = True) -> Dict[int, bool]:
    """Boolean must-fact: IN[n] is True iff the fact holds on every path to n."""

    def transfer(n: Node, f: bool) -> bool:
        if kill is not None and kill(n):
            f = False
        if gen(n):
            f = True
        return f

    return solve_forward(cfg, entry_fact, transfer, lambda a, b: a and b, skip_exc=skip_exc)


# ---------------------------------------------------------------------------
# reaching definitions


def node_defs(n: Node) -> Set[str]:
    """Local names (re)bound at node n."""
    out: Set[str] = set()
    st = n.stmt
    if st is None:
        return out
    if n.kind == "stmt":
        if isinstance(st, ast.Assign):
            for t in st.targets:
                for e in _flat_names(t):
                    out.add(e)
        elif isinstance(st, (ast.AnnAssign, ast.AugAssign)):
            if isinstance(st.target, ast.Name) and not (isinstance(st, ast.AnnAssign) and st.value is None):
                out.add(st.target.id)
        elif isinstance(st, (ast.FunctionDef, ast.AsyncFunctionDef, ast.ClassDef)):
            out.add(st.name)
        elif isinstance(st, (ast.Import, ast.ImportFrom)):
            for a in st.names:
                out.add((a.asname or a.name).split(".")[0])
        for x in walk_local(st):
            if isinstance(x, ast.NamedExpr) and isinstance(x.target, ast.Name):
                out.add(x.target.id)
    elif n.kind == "test":
        if isinstance(st, (ast.For, ast.AsyncFor)):
            for e in _flat_names(st.target):
                out.add(e)
        if n.cond is not None:
            for x in walk_local(n.cond):
                if isinstance(x, ast.NamedExpr) and isinstance(x.target, ast.Name):
                    out.add(x.target.id)
    elif n.kind == "with":
        for it in st.items:  # type: ignore[attr-defined]
            if it.optional_vars is not None:
                for e in _flat_names(it.optional_vars):
                    out.add(e)
    elif n.kind == "handler":
        if getattr(st, "name", None):
            out.add(st.name)  # type: ignore[attr-defined]
    return out


def _flat_names(t: ast.AST):
    if isinstance(t, ast.Name):
        yield t.id
    elif isinstance(t, (ast.Tuple, ast.List)):
        for e in t.elts:
            yield from _flat_names(e)
    elif isinstance(t, ast.Starred):
        yield from _flat_names(t.value)


def reaching_defs(cfg: CFG, skip_exc: bool = True) -> Dict[int, Dict[str, FrozenSet[int]]]:
    """IN[node id][var] = ids of the nodes whose definition of var may reach
    the node.  Parameters are defined at the entry node (id of cfg.entry)."""
    fn = cfg.fn
    params: List[str] = []
    if hasattr(fn, "args"):
        a = fn.args
        params = [x.arg for x in a.posonlyargs + a.args + a.kwonlyargs]
        if a.vararg:
            params.append(a.vararg.arg)
        if a.kwarg:
            params.append(a.kwarg.arg)
    init = tuple(sorted((p, frozenset({cfg.entry.id})) for p in params))

    def transfer(n: Node, f):
        ds = node_defs(n)
        if not ds:
            return f
        d = dict(f)
        for v in ds:
            d[v] = frozenset({n.id})
        return tuple(sorted(d.items()))

    def join(a, b):
        da, db = dict(a), dict(b)
        out = {}
        for k in set(da) | set(db):
            out[k] = da.get(k, frozenset()) | db.get(k, frozenset())
        return tuple(sorted(out.items()))

    IN = solve_forward(cfg, init, transfer, join, skip_exc=skip_exc)
    return {i: dict(f) for i, f in IN.items()}
