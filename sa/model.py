"""E1 -- source model of /repo/cxxheaderparser built from the AST only.

Nothing in here imports or executes the package under analysis.
"""
from __future__ import annotations

import ast
import os
import pathlib
from typing import Any, Dict, Iterator, List, Optional, Tuple


class AnalysisError(Exception):
    """A structural anchor vanished or an unsupported shape was met.

    The run exits 2 (ANALYSIS-ERROR): never a silent pass, never a violation.
    """


class Unfoldable(Exception):
    pass


def norm(node: Optional[ast.AST]) -> str:
    """Normalised text of a node (position independent)."""
    if node is None:
        return "<none>"
    try:
        return " ".join(ast.unparse(node).split())
    except Exception:  # pragma: no cover
        return type(node).__name__


def short(node: Optional[ast.AST], n: int = 80) -> str:
    s = norm(node)
    return s if len(s) <= n else s[: n - 3] + "..."


def walk_local(node: ast.AST, include_self: bool = True) -> Iterator[ast.AST]:
    """ast.walk that does not descend into nested function/class/lambda bodies."""
    stack = [node]
    first = True
    while stack:
        n = stack.pop()
        if not first and isinstance(
            n, (ast.FunctionDef, ast.AsyncFunctionDef, ast.Lambda, ast.ClassDef)
        ):
            continue
        if include_self or not first:
            yield n
        first = False
        stack.extend(reversed(list(ast.iter_child_nodes(n))))


class Module:
    def __init__(self, name: str, path: pathlib.Path, tree: Optional[ast.Module] = None):
        self.name = name
        self.path = path
        self.src = path.read_text(encoding="utf-8")
        self.tree = tree if tree is not None else ast.parse(self.src, filename=str(path))
        self.parent: Dict[ast.AST, ast.AST] = {}
        for n in ast.walk(self.tree):
            for c in ast.iter_child_nodes(n):
                self.parent[c] = n
        self._funcs: Dict[str, ast.FunctionDef] = {}
        self._classes: Dict[str, ast.ClassDef] = {}
        self._index(self.tree, "")

    def _index(self, node: ast.AST, prefix: str) -> None:
        for c in ast.iter_child_nodes(node):
            if isinstance(c, (ast.FunctionDef, ast.AsyncFunctionDef)):
                q = prefix + c.name
                self._funcs.setdefault(q, c)  # first definition wins
                self._index(c, q + ".")
            elif isinstance(c, ast.ClassDef):
                q = prefix + c.name
                self._classes.setdefault(q, c)
                self._index(c, q + ".")
            elif isinstance(c, (ast.If, ast.Try, ast.With, ast.For, ast.While)):
                self._index(c, prefix)

    # -- anchors
    def cls(self, name: str) -> ast.ClassDef:
        try:
            return self._classes[name]
        except KeyError:
            raise AnalysisError(f"anchor vanished: class {self.name}:{name}")

    def has_cls(self, name: str) -> bool:
        return name in self._classes

    def has_func(self, qual: str) -> bool:
        return qual in self._funcs

    def func(self, qual: str) -> ast.FunctionDef:
        try:
            return self._funcs[qual]
        except KeyError:
            raise AnalysisError(f"anchor vanished: function {self.name}:{qual}")

    def has_func(self, qual: str) -> bool:
        return qual in self._funcs

    def functions(self) -> Iterator[Tuple[str, ast.FunctionDef]]:
        return iter(sorted(self._funcs.items(), key=lambda kv: kv[1].lineno))

    def classes(self) -> Iterator[Tuple[str, ast.ClassDef]]:
        return iter(sorted(self._classes.items(), key=lambda kv: kv[1].lineno))

    def methods(self, cls: str) -> Dict[str, ast.FunctionDef]:
        c = self.cls(cls)
        return {
            f.name: f
            for f in c.body
            if isinstance(f, (ast.FunctionDef, ast.AsyncFunctionDef))
        }

    def qualname_of(self, node: ast.AST) -> str:
        """Qualified name of the innermost function/class enclosing node."""
        parts: List[str] = []
        n: Optional[ast.AST] = node
        while n is not None:
            if isinstance(n, (ast.FunctionDef, ast.AsyncFunctionDef, ast.ClassDef)):
                parts.append(n.name)
            n = self.parent.get(n)
        return ".".join(reversed(parts)) or "<module>"

    def enclosing_function(self, node: ast.AST) -> Optional[ast.FunctionDef]:
        n = self.parent.get(node)
        while n is not None:
            if isinstance(n, (ast.FunctionDef, ast.AsyncFunctionDef)):
                return n
            n = self.parent.get(n)
        return None

    def loc(self, node: Optional[ast.AST]) -> str:
        ln = getattr(node, "lineno", 0) if node is not None else 0
        return f"{self.path}:{ln}"


class Repo:
    """All modules of the package, parsed from the current working tree."""

    def __init__(self, root: Optional[str] = None):
        root = root or os.environ.get("VERIF_REPO") or "/repo"
        self.root = pathlib.Path(root)
        self.pkg = self.root / "cxxheaderparser"
        if not self.pkg.is_dir():
            raise AnalysisError(f"package directory not found: {self.pkg}")
        self.modules: Dict[str, Module] = {}
        trees: Dict[str, ast.Module] = {}
        paths: Dict[str, pathlib.Path] = {}
        for p in sorted(self.pkg.rglob("*.py")):
            rel = p.relative_to(self.pkg).with_suffix("")
            name = ".".join(rel.parts)
            try:
                trees[name] = ast.parse(p.read_text(encoding="utf-8"), filename=str(p))
            except SyntaxError as e:
                raise AnalysisError(f"cannot parse {p}: {e}")
            paths[name] = p
        # names and helper structure are brought back to the reference vocabulary (meaning-preserving rewrites only)
        self.normalisation: Dict[str, List[str]] = {}
        if os.environ.get("VERIF_NO_NORMALIZE") != "1":
            from .normalize import normalize_repo

            try:
                self.normalisation = normalize_repo(trees)
            except RecursionError as e:  # pragma: no cover
                raise AnalysisError(f"normalisation failed: {e}")
        for name, t in trees.items():
            self.modules[name] = Module(name, paths[name], t)
        self._folders: Dict[Tuple[str, Optional[str]], "Folder"] = {}

    def mod(self, name: str) -> Module:
        try:
            return self.modules[name]
        except KeyError:
            raise AnalysisError(f"anchor vanished: module cxxheaderparser.{name}")

    def folder(self, module: str, cls: Optional[str] = None) -> "Folder":
        k = (module, cls)
        if k not in self._folders:
            self._folders[k] = Folder(self, module, cls)
        return self._folders[k]

    def line_count(self) -> int:
        return sum(m.src.count("\n") for m in self.modules.values())


def _mutated_names(st: ast.AST) -> List[str]:
    out: List[str] = []
    for x in ast.walk(st):
        if isinstance(x, ast.Name) and isinstance(x.ctx, (ast.Store, ast.Del)):
            out.append(x.id)
        elif isinstance(x, (ast.Subscript, ast.Attribute)) and isinstance(x.ctx, (ast.Store, ast.Del)):
            b = x.value
            while isinstance(b, (ast.Subscript, ast.Attribute)):
                b = b.value
            if isinstance(b, ast.Name):
                out.append(b.id)
        elif isinstance(x, ast.Call) and isinstance(x.func, ast.Attribute) and isinstance(x.func.value, ast.Name):
            out.append(x.func.value.id)
    return out


class Folder:
    """Constant folder for module-level / class-level bindings.

    Supports exactly the expression forms the package uses at definition time;
    anything else raises Unfoldable (the rule that needed the value turns that
    into an AnalysisError unless it has a documented fallback).
    """

    def __init__(self, repo: Repo, module: str, cls: Optional[str] = None):
        self.repo = repo
        self.module = repo.mod(module)
        self.cls = cls
        self.env: Dict[str, Any] = {}
        self.defs: Dict[str, ast.AST] = {}
        self.failed: Dict[str, str] = {}
        self._locals: Dict[str, Any] = {}
        self._outer: Optional[Folder] = None
        if cls is not None:
            self._outer = repo.folder(module, None)
            body = self.module.cls(cls).body
        else:
            body = self.module.tree.body
        self._imports: Dict[str, Tuple[str, str]] = {}
        if cls is None:
            for st in self.module.tree.body:
                if isinstance(st, ast.ImportFrom) and st.level >= 1:
                    base = module.split(".")[:-1] if st.level == 1 else []
                    src = ".".join(base + ([st.module] if st.module else []))
                    for a in st.names:
                        self._imports[a.asname or a.name] = (src, a.name)
        for st in body:
            self._stmt(st)

    def _stmt(self, st: ast.stmt) -> None:
        try:
            if isinstance(st, ast.Assign) and len(st.targets) == 1 and isinstance(st.targets[0], ast.Name):
                t = st.targets[0]
                self.defs[t.id] = st
                self.env[t.id] = self.ev(st.value)
            elif isinstance(st, ast.AnnAssign) and isinstance(st.target, ast.Name):
                if st.value is not None:
                    self.defs[st.target.id] = st
                    self.env[st.target.id] = self.ev(st.value)
            elif isinstance(st, ast.AugAssign) and isinstance(st.target, ast.Name):
                cur = self.lookup(st.target.id)
                rhs = self.ev(st.value)
                if isinstance(st.op, ast.BitOr):
                    self.env[st.target.id] = cur | rhs
                elif isinstance(st.op, ast.Add):
                    self.env[st.target.id] = cur + rhs
                elif isinstance(st.op, ast.Sub):
                    self.env[st.target.id] = cur - rhs
                else:
                    raise Unfoldable(norm(st))
            elif isinstance(st, ast.Assign) and all(isinstance(t, ast.Subscript) and isinstance(t.value, ast.Name) for t in st.targets):
                # TABLE[key] = value (also chained: A[k1] = B[k2] = value) at definition time
                val = self.ev(st.value)
                for t in st.targets:
                    nm = t.value.id
                    cur = self.lookup(nm)
                    if not isinstance(cur, dict):
                        raise Unfoldable(norm(st))
                    new = dict(cur)
                    new[self.ev(t.slice)] = val
                    self.env[nm] = new
            elif isinstance(st, ast.Assign) and any(isinstance(t, (ast.Subscript, ast.Attribute)) for t in st.targets):
                # a store this folder does not interpret: what it may change is unknown from here on
                for nm in _mutated_names(st):
                    self.failed[nm] = f"changed by `{short(st, 40)}` at definition time"
                    self.env.pop(nm, None)
            elif isinstance(st, ast.For) and not st.orelse:
                # a definition-time loop over a foldable iterable
                try:
                    items = list(self.ev(st.iter))
                    names = [st.target.id] if isinstance(st.target, ast.Name) else [e.id for e in st.target.elts] if isinstance(st.target, ast.Tuple) and all(isinstance(e, ast.Name) for e in st.target.elts) else None
                    if names is None:
                        raise Unfoldable(norm(st.target))
                    for item in items:
                        if isinstance(st.target, ast.Name):
                            self.env[st.target.id] = item
                        else:
                            for k_, v_ in zip(names, item):
                                self.env[k_] = v_
                        for b in st.body:
                            before = dict(self.failed)
                            self._stmt(b)
                            if self.failed != before:
                                raise Unfoldable("loop body not foldable")
                except Unfoldable as e:
                    for nm in _mutated_names(st):
                        self.failed[nm] = f"changed in a definition-time loop that could not be folded: {e}"
                        self.env.pop(nm, None)
            elif isinstance(st, (ast.While, ast.If, ast.With, ast.Try, ast.Delete)) or (isinstance(st, ast.AugAssign) and not isinstance(st.target, ast.Name)):
                # not interpreted: whatever it may change is unknown from here on (never a silently stale table)
                for nm in _mutated_names(st):
                    self.failed[nm] = f"changed by `{short(st, 40)}` at definition time"
                    self.env.pop(nm, None)
            elif isinstance(st, ast.Expr) and isinstance(st.value, ast.Call):
                c = st.value
                f = c.func
                if (
                    isinstance(f, ast.Attribute)
                    and isinstance(f.value, ast.Name)
                    and f.value.id in self.env
                ):
                    recv = self.env[f.value.id]
                    args = [self.ev(a) for a in c.args]
                    if f.attr == "update" and isinstance(recv, (dict, set)):
                        recv = type(recv)(recv)
                        recv.update(*args)
                        self.env[f.value.id] = recv
                    elif f.attr in ("add", "append") and isinstance(recv, (set, list)):
                        recv = type(recv)(recv)
                        getattr(recv, f.attr)(*args)
                        self.env[f.value.id] = recv
                    elif f.attr == "extend" and isinstance(recv, list):
                        self.env[f.value.id] = recv + list(args[0])
        except Unfoldable as e:
            tgt = None
            if isinstance(st, ast.Expr) and isinstance(st.value, ast.Call):
                f = st.value.func
                if isinstance(f, ast.Attribute) and isinstance(f.value, ast.Name):
                    tgt = f.value.id  # a definition-time mutation we could not follow
            if isinstance(st, ast.Assign) and isinstance(st.targets[0], ast.Name):
                tgt = st.targets[0].id
            elif isinstance(st, (ast.AnnAssign, ast.AugAssign)) and isinstance(
                st.target, ast.Name
            ):
                tgt = st.target.id
            if tgt:
                self.failed[tgt] = str(e)
                self.env.pop(tgt, None)

    def lookup(self, name: str) -> Any:
        if name in self.env:
            return self.env[name]
        if name in self.failed:
            raise Unfoldable(f"{name}: {self.failed[name]}")
        if self._outer is not None:
            return self._outer.lookup(name)
        if self.cls is None and self.module.has_cls(name):
            return ClassRef(self.module.name, name)
        if name in self._imports:
            src, attr = self._imports[name]
            if src in self.repo.modules:
                m = self.repo.mod(src)
                if m.has_cls(attr):
                    return ClassRef(src, attr)
                return self.repo.folder(src).lookup(attr)
        raise Unfoldable(f"unbound name {name}")

    def get(self, name: str) -> Any:
        """lookup() that turns failure into an AnalysisError (rule anchor)."""
        try:
            return self.lookup(name)
        except Unfoldable as e:
            where = f"{self.module.name}:{self.cls or '<module>'}"
            raise AnalysisError(f"cannot fold constant {where}.{name}: {e}")

    def has(self, name: str) -> bool:
        try:
            self.lookup(name)
            return True
        except Unfoldable:
            return False

    def ev(self, node: ast.AST) -> Any:
        if isinstance(node, ast.Constant):
            return node.value
        if isinstance(node, ast.Name):
            if node.id in self._locals:
                return self._locals[node.id]
            return self.lookup(node.id)
        if isinstance(node, (ast.GeneratorExp, ast.ListComp, ast.SetComp, ast.DictComp)):
            out = []

            def loop(k: int) -> None:
                if k == len(node.generators):
                    if isinstance(node, ast.DictComp):
                        out.append((self.ev(node.key), self.ev(node.value)))
                    else:
                        out.append(self.ev(node.elt))
                    return
                g = node.generators[k]
                tgt = g.target
                names = [tgt.id] if isinstance(tgt, ast.Name) else ([e.id for e in tgt.elts] if isinstance(tgt, ast.Tuple) and all(isinstance(e, ast.Name) for e in tgt.elts) else None)
                if names is None or g.is_async:
                    raise Unfoldable(norm(node))
                saved = {v: self._locals.get(v, _MISSING) for v in names}
                try:
                    for item in self.ev(g.iter):
                        if isinstance(tgt, ast.Name):
                            self._locals[tgt.id] = item
                        else:
                            if len(item) != len(names):
                                raise Unfoldable(norm(node))
                            for v, x in zip(names, item):
                                self._locals[v] = x
                        if all(self.ev(c) for c in g.ifs):
                            loop(k + 1)
                finally:
                    for v, x in saved.items():
                        if x is _MISSING:
                            self._locals.pop(v, None)
                        else:
                            self._locals[v] = x
            loop(0)
            if isinstance(node, ast.SetComp):
                return set(out)
            if isinstance(node, ast.DictComp):
                return dict(out)
            return out
        if isinstance(node, ast.Subscript):
            base = self.ev(node.value)
            if isinstance(base, (str, tuple, list, dict)):
                try:
                    if isinstance(node.slice, ast.Slice):
                        if isinstance(base, dict):
                            raise Unfoldable(norm(node))
                        lo = self.ev(node.slice.lower) if node.slice.lower is not None else None
                        hi = self.ev(node.slice.upper) if node.slice.upper is not None else None
                        stp = self.ev(node.slice.step) if node.slice.step is not None else None
                        return base[lo:hi:stp]
                    return base[self.ev(node.slice)]
                except (IndexError, KeyError, TypeError):
                    raise Unfoldable(norm(node))
            raise Unfoldable(norm(node))
        if isinstance(node, ast.JoinedStr):
            parts = []
            for v in node.values:
                if isinstance(v, ast.Constant):
                    parts.append(str(v.value))
                elif isinstance(v, ast.FormattedValue) and v.format_spec is None:
                    parts.append(str(self.ev(v.value)))
                else:
                    raise Unfoldable(norm(node))
            return "".join(parts)
        if isinstance(node, ast.BinOp):
            l, r = self.ev(node.left), self.ev(node.right)
            if isinstance(node.op, ast.Add):
                return l + r
            if isinstance(node.op, ast.BitOr):
                return l | r
            if isinstance(node.op, ast.Sub):
                return l - r
            if isinstance(node.op, ast.BitAnd):
                return l & r
            if isinstance(node.op, ast.Mod) and isinstance(l, str):
                return l % r
            raise Unfoldable(norm(node))
        if isinstance(node, (ast.Set, ast.List, ast.Tuple)):
            items: List[Any] = []
            for e in node.elts:
                if isinstance(e, ast.Starred):
                    items.extend(list(self.ev(e.value)))
                else:
                    items.append(self.ev(e))
            return set(items) if isinstance(node, ast.Set) else (items if isinstance(node, ast.List) else tuple(items))
        if isinstance(node, ast.Dict):
            out = {}
            for k, v in zip(node.keys, node.values):
                if k is None:
                    out.update(self.ev(v))
                else:
                    out[self.ev(k)] = self.ev(v)
            return out
        if isinstance(node, ast.Compare) and len(node.ops) == 1:
            l, r = self.ev(node.left), self.ev(node.comparators[0])
            op = node.ops[0]
            if isinstance(op, ast.Eq):
                return l == r
            if isinstance(op, ast.NotEq):
                return l != r
            if isinstance(op, ast.In):
                return l in r
            if isinstance(op, ast.NotIn):
                return l not in r
            if isinstance(op, (ast.Lt, ast.LtE, ast.Gt, ast.GtE)) and type(l) is type(r) and isinstance(l, (int, str)):
                return {ast.Lt: l < r, ast.LtE: l <= r, ast.Gt: l > r, ast.GtE: l >= r}[type(op)]
            raise Unfoldable(norm(node))
        if isinstance(node, ast.BoolOp):
            # operands in order, stopping where Python stops (a later operand may only be evaluable after an earlier test)
            v_: Any = isinstance(node.op, ast.And)
            for sub in node.values:
                v_ = self.ev(sub)
                if bool(v_) != isinstance(node.op, ast.And):
                    return v_
            return v_
        if isinstance(node, ast.UnaryOp) and isinstance(node.op, ast.Not):
            return not self.ev(node.operand)
        if isinstance(node, ast.Attribute):
            base = self.ev(node.value)
            if isinstance(base, ClassRef):
                return self.repo.folder(base.module, base.name).lookup(node.attr)
            raise Unfoldable(norm(node))
        if isinstance(node, ast.Call):
            f = node.func
            if norm(f) == "re.sub" and len(node.args) == 3 and not node.keywords:
                a0, a1, a2 = (self.ev(a) for a in node.args)
                if isinstance(a0, str) and isinstance(a1, str) and isinstance(a2, str):
                    import re as _re
                    return _re.sub(a0, a1, a2)  # a pure function of three constant strings
            if isinstance(f, ast.Name) and f.id == "getattr" and len(node.args) == 2 and not node.keywords:
                base = self.ev(node.args[0])
                nm = self.ev(node.args[1])
                if isinstance(base, ClassRef) and isinstance(nm, str):
                    return self.repo.folder(base.module, base.name).lookup(nm)
            if isinstance(f, ast.Name) and f.id in ("any", "all", "len") and len(node.args) == 1 and not node.keywords and f.id not in self._locals:
                v = self.ev(node.args[0])
                return {"any": any, "all": all, "len": len}[f.id](v)
            if isinstance(f, ast.Attribute) and f.attr in ("startswith", "endswith") and len(node.args) == 1 and not node.keywords:
                base = self.ev(f.value)
                if isinstance(base, str):
                    return getattr(base, f.attr)(self.ev(node.args[0]))
            if isinstance(f, ast.Name) and self.cls is None and not node.keywords and not any(isinstance(a, ast.Starred) for a in node.args):
                # a function of the same module whose body is assignments to locals and one final `return <expr>`:
                # its value for constant arguments is a constant
                fdef = next((x for x in self.module.tree.body if isinstance(x, ast.FunctionDef) and x.name == f.id), None)
                if fdef is not None and not fdef.decorator_list and not fdef.args.vararg and not fdef.args.kwarg and len(fdef.args.args) == len(node.args):
                    body = [x for x in fdef.body if not (isinstance(x, ast.Expr) and isinstance(x.value, ast.Constant))]
                    if body and isinstance(body[-1], ast.Return) and body[-1].value is not None \
                            and all(isinstance(x, ast.Assign) and len(x.targets) == 1 and isinstance(x.targets[0], ast.Name) for x in body[:-1]):
                        argv = [self.ev(a) for a in node.args]
                        names_ = [a.arg for a in fdef.args.args] + [x.targets[0].id for x in body[:-1]]
                        saved_ = {v: self._locals.get(v, _MISSING) for v in names_}
                        try:
                            for a_, v_ in zip(fdef.args.args, argv):
                                self._locals[a_.arg] = v_
                            for x in body[:-1]:
                                self._locals[x.targets[0].id] = self.ev(x.value)
                            return self.ev(body[-1].value)
                        finally:
                            for v, x in saved_.items():
                                if x is _MISSING:
                                    self._locals.pop(v, None)
                                else:
                                    self._locals[v] = x
            if isinstance(f, ast.Name) and f.id in ("list", "set", "tuple", "frozenset", "sorted"):
                if len(node.args) == 1 and not node.keywords:
                    v = self.ev(node.args[0])
                    if f.id == "sorted":
                        return sorted(v)
                    return {"list": list, "set": set, "tuple": tuple, "frozenset": frozenset}[f.id](v)
                if not node.args:
                    return {"list": list, "set": set, "tuple": tuple, "frozenset": frozenset}[f.id]()
            if (
                isinstance(f, ast.Attribute)
                and isinstance(f.value, ast.Name)
                and f.value.id == "dict"
                and f.attr == "fromkeys"
                and len(node.args) == 2
            ):
                return dict.fromkeys(self.ev(node.args[0]), self.ev(node.args[1]))
            if isinstance(f, ast.Name) and f.id == "dict" and not node.args:
                return {k.arg: self.ev(k.value) for k in node.keywords}
            # a read-only view of a mapping holds what the mapping holds (types.MappingProxyType(d), dict(d))
            if norm(f) in ("types.MappingProxyType", "MappingProxyType", "dict") and len(node.args) == 1 and not node.keywords:
                v = self.ev(node.args[0])
                if isinstance(v, dict):
                    return dict(v)
            if isinstance(f, ast.Attribute) and f.attr in ("items", "keys", "values") and not node.args:
                recv = self.ev(f.value)
                if isinstance(recv, dict):
                    return list(getattr(recv, f.attr)())
            if isinstance(f, ast.Attribute) and f.attr in ("startswith", "endswith", "upper", "lower", "strip", "lstrip", "rstrip", "replace", "format", "join", "split"):
                recv = self.ev(f.value)
                if isinstance(recv, str):
                    return getattr(recv, f.attr)(*[self.ev(a) for a in node.args])
            if (
                isinstance(f, ast.Attribute)
                and f.attr == "compile"
                and isinstance(f.value, ast.Name)
                and f.value.id == "re"
                and node.args
            ):
                flags = 0
                if len(node.args) > 1:
                    flags = self._flags(node.args[1])
                return RegexConst(self.ev(node.args[0]), flags)
            raise Unfoldable(norm(node))
        raise Unfoldable(norm(node))

    def _flags(self, node: ast.AST) -> int:
        import re

        if isinstance(node, ast.Attribute) and isinstance(node.value, ast.Name) and node.value.id == "re":
            return int(getattr(re, node.attr))
        if isinstance(node, ast.BinOp) and isinstance(node.op, ast.BitOr):
            return self._flags(node.left) | self._flags(node.right)
        if isinstance(node, ast.Constant) and isinstance(node.value, int):
            return node.value
        raise Unfoldable(norm(node))


_MISSING = object()


class ClassRef:
    def __init__(self, module: str, name: str):
        self.module = module
        self.name = name

    def __repr__(self) -> str:
        return f"<class {self.module}:{self.name}>"


class RegexConst:
    def __init__(self, pattern: str, flags: int):
        self.pattern = pattern
        self.flags = flags

    def __repr__(self) -> str:
        return f"re.compile({self.pattern!r}, {self.flags})"


# ---------------------------------------------------------------------------
# small AST helpers used by many rules


def is_self_attr(node: ast.AST, attr: Optional[str] = None) -> bool:
    return (
        isinstance(node, ast.Attribute)
        and isinstance(node.value, ast.Name)
        and node.value.id == "self"
        and (attr is None or node.attr == attr)
    )


def attr_chain(node: ast.AST) -> Optional[Tuple[str, ...]]:
    """('self','lex','token') for self.lex.token ; None if not a pure chain."""
    parts: List[str] = []
    while isinstance(node, ast.Attribute):
        parts.append(node.attr)
        node = node.value
    if isinstance(node, ast.Name):
        parts.append(node.id)
        return tuple(reversed(parts))
    return None


def call_name(call: ast.Call) -> Optional[Tuple[str, ...]]:
    return attr_chain(call.func)


def calls_in(node: ast.AST, local: bool = True) -> Iterator[ast.Call]:
    it = walk_local(node) if local else ast.walk(node)
    for n in it:
        if isinstance(n, ast.Call):
            yield n


def stores_in(fn: ast.AST) -> Iterator[Tuple[ast.AST, ast.stmt]]:
    """(target expression, statement) for every store in fn (not nested defs)."""
    for st in walk_local(fn):
        if isinstance(st, ast.Assign):
            for t in st.targets:
                for e in _flatten_target(t):
                    yield e, st
        elif isinstance(st, (ast.AnnAssign, ast.AugAssign)):
            if not (isinstance(st, ast.AnnAssign) and st.value is None):
                yield st.target, st
        elif isinstance(st, (ast.For, ast.AsyncFor)):
            for e in _flatten_target(st.target):
                yield e, st
        elif isinstance(st, (ast.With, ast.AsyncWith)):
            for it in st.items:
                if it.optional_vars is not None:
                    for e in _flatten_target(it.optional_vars):
                        yield e, st
        elif isinstance(st, ast.NamedExpr):
            yield st.target, st  # type: ignore
        elif isinstance(st, ast.Delete):
            for t in st.targets:
                yield t, st


def _flatten_target(t: ast.AST) -> Iterator[ast.AST]:
    if isinstance(t, (ast.Tuple, ast.List)):
        for e in t.elts:
            yield from _flatten_target(e)
    elif isinstance(t, ast.Starred):
        yield from _flatten_target(t.value)
    else:
        yield t


def param_names(fn: ast.FunctionDef) -> List[str]:
    a = fn.args
    out = [x.arg for x in a.posonlyargs + a.args]
    if a.vararg:
        out.append(a.vararg.arg)
    out += [x.arg for x in a.kwonlyargs]
    if a.kwarg:
        out.append(a.kwarg.arg)
    return out


def annotation_names(node: Optional[ast.AST]) -> List[str]:
    """Leaf type names of an annotation: Optional["State"] -> ['State']; handles
    string annotations, typing.Union/Optional/List, bare names and attributes."""
    if node is None:
        return []
    if isinstance(node, ast.Constant):
        if node.value is None:
            return ["None"]
        if isinstance(node.value, str):
            try:
                return annotation_names(ast.parse(node.value, mode="eval").body)
            except SyntaxError:
                return [node.value]
        return []
    if isinstance(node, ast.Name):
        return [node.id]
    if isinstance(node, ast.Attribute):
        return [node.attr]
    if isinstance(node, ast.Subscript):
        head = annotation_names(node.value)
        h = head[0] if head else ""
        sl = node.slice
        elts = sl.elts if isinstance(sl, ast.Tuple) else [sl]
        if h in ("Union", "Optional"):
            out: List[str] = []
            for e in elts:
                out += annotation_names(e)
            if h == "Optional":
                out.append("None")
            return out
        if h in ("List", "Sequence", "Set", "Deque", "Dict", "Tuple", "Type", "Literal", "Callable"):
            return [h]
        # generic alias such as ClassBlockState[T, PT]
        return head
    if isinstance(node, ast.BinOp) and isinstance(node.op, ast.BitOr):
        return annotation_names(node.left) + annotation_names(node.right)
    return []
