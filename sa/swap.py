"""The token-source swap in _parse_template_specialization (R2.1 / R2.2) and
the confinement of the location-less PhonyEnding token (R6.2)."""
from __future__ import annotations

import ast
from typing import List, Optional, Set, Tuple

from .cfg import CFG, Node, reaching_defs
from .kinds import node_containing
from .model import attr_chain, is_self_attr, norm, short, stores_in, walk_local
from .pmodel import ParserModel
from .report import Ctx


def lex_stores(pm: ParserModel) -> List[Tuple[str, ast.stmt]]:
    out = []
    for fname, fn in pm.methods.items():
        for t, st in stores_in(fn):
            if is_self_attr(t, "lex"):
                out.append((fname, st))
    return out


def check_swap(ctx: Ctx, rid_pair: str, rid_region: str, pm: ParserModel) -> None:
    mod = pm.mod
    ctx.rule(rid_pair, "every rebinding of self.lex outside __init__ sits in a try whose finally restores the value read before the try", minimum=2)
    ctx.rule(rid_region, "trial parse region: failures are caught there, nothing is emitted, the Value is built before the placeholder is appended, the type is kept only if it spans the whole argument", minimum=5)
    stores = [(f, st) for f, st in lex_stores(pm) if f != "__init__"]
    by_fn = {}
    for f, st in stores:
        by_fn.setdefault(f, []).append(st)
    if not by_fn:
        ctx.ob(rid_pair, "parser:CxxParser|token source swap", False, msg="no rebinding of self.lex found: the trial-parse anchor vanished", node=pm.cls, mod=mod)
        return
    # the token source is re-bound for the trial parse: whatever was taken from it and kept on the parser (a bound accessor
    # cached in __init__, say) still belongs to the old source while the new one is installed
    cached = []
    for fname_, fn_ in pm.methods.items():
        for t_, st_ in stores_in(fn_):
            ch_ = attr_chain(t_)
            if ch_ and ch_[0] == "self" and len(ch_) == 2 and ch_[1] != "lex":
                v_ = getattr(st_, "value", None)
                called_ = {id(c_.func) for c_ in ast.walk(v_) if isinstance(c_, ast.Call)} if v_ is not None else set()
                if v_ is not None and any(isinstance(x_, ast.Attribute) and id(x_) not in called_ and attr_chain(x_) is not None and attr_chain(x_)[:2] == ("self", "lex") and len(attr_chain(x_)) == 3 for x_ in ast.walk(v_)):
                    cached.append((fname_, st_))
    ctx.ob(rid_pair, "parser:CxxParser|nothing taken from the token source is kept on the parser", not cached,
           msg=(f"`{short(cached[0][1])}` (in {cached[0][0]}) keeps a bound accessor of the token source on the parser: while the trial parse has another source installed, calls through it still read the old one "
                "(a template argument like 'int&(int)' is peeked at in the wrong stream and comes back as a raw value)" if cached else ""),
           node=cached[0][1] if cached else pm.cls, mod=mod, nontrivial=False)
    emit = pm.may_emit()
    for fname, sts in sorted(by_fn.items()):
        fn = pm.fn(fname)
        cfg = pm.cfg(fname)
        rd = reaching_defs(cfg, skip_exc=False)
        # the try/finally statements of the function
        tries = [t for t in walk_local(fn) if isinstance(t, ast.Try) and t.finalbody]
        for st in sts:
            n = node_containing(cfg, st)
            enclosing = [t for t in tries if any(x is st for b in t.body for x in ast.walk(b))]
            restoring = [t for t in tries if any(x is st for b in t.finalbody for x in ast.walk(b))]
            if restoring:
                # the restore itself: value must be a local read from self.lex before the try, not rebound since
                t = restoring[0]
                v = st.value if isinstance(st, ast.Assign) else None
                ok = isinstance(v, ast.Name) and n is not None
                why = ""
                if ok:
                    # the finally block exists in several copies (normal / exceptional / return): all of them count
                    copies = [m for m in cfg.nodes if m.stmt is st and m.id in rd]
                    defs = [cfg.nodes[i] for m in copies for i in rd.get(m.id, {}).get(v.id, ())]
                    ok = bool(defs) and all(is_self_attr(getattr(d.stmt, "value", None), "lex") for d in defs)
                    # the read happens before the try (not inside its body)
                    ok = ok and all(not any(x is d.stmt for b in t.body for x in ast.walk(b)) for d in defs)
                    # nothing between the read and the try can leave the function abnormally with the swap pending: the swap is inside the try
                if not ok:
                    why = "the finally block does not store back the value read from self.lex before the try"
                ctx.ob(rid_pair, f"parser:CxxParser.{fname}|restore `{short(st)}`", ok, msg=why, node=st, mod=mod)
            else:
                restores = lambda t: any(isinstance(s, ast.Assign) and any(is_self_attr(tg, "lex") for tg in s.targets) for b in t.finalbody for s in ast.walk(b))
                ok = bool(enclosing) and any(restores(t) for t in enclosing)
                if not ok:
                    # the swap as the last thing before the try: nothing that can fail lies between the two
                    blk = _block_of(fn, st)
                    if blk is not None:
                        rest = blk[blk.index(st) + 1:]
                        k = 0
                        while k < len(rest) and isinstance(rest[k], ast.Assign) and isinstance(rest[k].value, (ast.Name, ast.Constant)) and all(isinstance(tg, ast.Name) for tg in rest[k].targets):
                            k += 1
                        ok = k < len(rest) and isinstance(rest[k], ast.Try) and bool(rest[k].finalbody) and restores(rest[k])
                ctx.ob(rid_pair, f"parser:CxxParser.{fname}|swap `{short(st)}`", ok,
                       msg="self.lex is rebound outside a try/finally that restores it: an exception or early return leaves the parser reading from the temporary stream",
                       node=st, mod=mod)
        # ---- region rule
        for t in tries:
            if not any(isinstance(s, ast.Assign) and any(is_self_attr(tg, "lex") for tg in s.targets) for b in t.finalbody for s in ast.walk(b)):
                continue
            swap_sts = [s for b in t.body for s in ast.walk(b) if isinstance(s, ast.Assign) and any(is_self_attr(tg, "lex") for tg in s.targets)]
            inner = [x for b in t.body for x in ast.walk(b) if isinstance(x, ast.Try) and x.handlers] + ([t] if t.handlers else [])
            # every self-call while swapped is inside an inner try with an `except CxxParseError` that does not re-raise
            calls = []
            after_swap = False
            for b in t.body:
                for x in ast.walk(b):
                    if isinstance(x, ast.Call):
                        r = pm.resolve(fname, x)
                        if r and r[0] in ("self", "lex", "visitor", "finish"):
                            calls.append((x, r))
            unprotected = []
            for x, r in calls:
                prot = [it for it in inner if any(y is x for bb in it.body for y in ast.walk(bb))]
                good = False
                for it in prot:
                    for h in it.handlers:
                        ty = norm(h.type) if h.type is not None else ""
                        swallow = not any(isinstance(z, ast.Raise) for hb in h.body for z in ast.walk(hb))
                        if ty in ("CxxParseError", "Exception") and swallow:
                            good = True
                if not good and not (r[0] == "lex" and r[1] in ("has_tokens",)):
                    in_else = any(any(y is x for eb in it.orelse for y in ast.walk(eb)) for it in inner)
                    if not in_else:
                        unprotected.append(short(x))
            ctx.ob(rid_region, f"parser:CxxParser.{fname}|calls while swapped are inside `except CxxParseError`", not unprotected,
                   msg=f"calls made while the token source is swapped are not covered by a swallowing `except CxxParseError`: {unprotected}: a type that fails to parse aborts the declaration instead of falling back to a raw value",
                   node=t, mod=mod)
            emitting = [short(x) for x, r in calls if r[0] in ("visitor", "finish") or (r[0] == "self" and r[1] in emit)]
            ctx.ob(rid_region, f"parser:CxxParser.{fname}|nothing is emitted during the trial", not emitting,
                   msg=f"the trial parse can deliver callbacks: {emitting}", node=t, mod=mod)
            # handlers of the inner try make no visitor call and reset the result
            for it in inner:
                for h in it.handlers:
                    hc = [short(x) for hb in h.body for x in ast.walk(hb) if isinstance(x, ast.Call) and (pm.resolve(fname, x) or ("",))[0] in ("visitor", "finish")]
                    ctx.ob(rid_region, f"parser:CxxParser.{fname}|trial handler is silent", not hc, msg=f"handler emits {hc}", node=h, mod=mod, nontrivial=False)
        # ---- placeholder taint
        phony_appends = []
        for x in walk_local(fn):
            if isinstance(x, ast.Call) and isinstance(x.func, ast.Attribute) and x.func.attr in ("append", "insert", "extend") and any(isinstance(a, ast.Name) and a.id == "PhonyEnding" for a in ast.walk(x)):
                phony_appends.append(x)
        for x in phony_appends:
            lst = x.func.value  # type: ignore[attr-defined]
            n = node_containing(cfg, x)
            why = []
            ok = isinstance(lst, ast.Name) and n is not None
            if ok:
                # uses of the list reachable after the append: only the BoundedTokenStream constructor
                bad = []
                for m in cfg.nodes:
                    if m is n:
                        continue
                    for c in m.calls():
                        if any(isinstance(a, ast.Name) and a.id == lst.id for a in c.args):
                            nm = (attr_chain(c.func) or ("",))[-1]
                            if nm != "BoundedTokenStream" and cfg.paths_avoiding(n, m, lambda z: _rebinds(z, lst.id)):
                                bad.append(short(c))
                if bad:
                    ok = False
                    why.append(f"the list that received the placeholder token reaches {bad}: the placeholder would appear in a value or be pushed back")
                # _create_value(list) for the fallback value happens before the append
                vals = [m for m in cfg.nodes for c in m.calls() if pm.resolve(fname, c) == ("self", "_create_value") and any(isinstance(a, ast.Name) and a.id == lst.id for a in c.args)]
                # only the ones that see the same list as the append does (the name may be re-bound to another group later)
                same = set(rd.get(n.id, {}).get(lst.id, ()))
                vals = [m for m in vals if set(rd.get(m.id, {}).get(lst.id, ())) & same]
                if not vals or not all(cfg.dominates(v, n) for v in vals):
                    ok = False
                    why.append("the raw Value of the argument is not created before the placeholder is appended")
            ctx.ob(rid_region, f"parser:CxxParser.{fname}|placeholder token stays inside the bounded stream", ok, msg="; ".join(why), node=x, mod=mod)
        # ---- which arguments get a trial at all: every one that starts like a type-id (a name, a fundamental type, a
        # cv-qualifier).  The guard on the way to the swap is evaluated for each such first token: it must hold, and it
        # must not depend on anything but the first token and the list being non-empty - any further condition means
        # some type-ids are never tried and are reported as raw values.
        from .booleval import UNKNOWN as _UNK, ev as _bev
        folder = ctx.repo.folder("parser", "CxxParser")
        type_start = set(folder.get("_pqname_start_tokens")) | {"const", "volatile"}
        for t in tries:
            if not any(isinstance(s_, ast.Assign) and any(is_self_attr(tg, "lex") for tg in s_.targets) for b_ in t.finalbody for s_ in ast.walk(b_)):
                continue
            tn = next((m for m in cfg.nodes if m.stmt is not None and any(x is m.stmt for x in t.body)), None)
            if tn is None:
                continue
            conds = []
            for d, lab in cfg.control_deps(tn):
                if d.loop is not None or d.cond is None or lab not in ("T", "F"):
                    continue
                conds.append((ast.parse(_expand_single_defs(cfg, rd, d, d.cond), mode="eval").body, lab == "T"))
            consts = {}

            def sym(e: ast.AST):
                tx = norm(e)
                if tx == "raw_toks[0].type":
                    return "@type"
                if tx in ("raw_toks", "bool(raw_toks)"):
                    return "@nonempty"
                if tx in ("len(raw_toks)",):
                    return "@len"
                if isinstance(e, ast.Attribute) and isinstance(e.value, ast.Name) and e.value.id == "self":
                    if tx not in consts:
                        try:
                            v = folder.lookup(e.attr)
                            consts[tx] = tuple(sorted(v)) if isinstance(v, (set, frozenset, list, tuple)) else v
                        except Exception:
                            return None
                    return "@c:" + tx
                return None

            untried = []
            undecided = []
            for T_ in sorted(type_start):
                for cond, want in conds:
                    env = {"@type": T_, "@nonempty": True, "@len": 1}
                    sym(cond)  # (fills nothing; constants are registered while evaluating)
                    for x in ast.walk(cond):
                        sym(x)
                    env.update({"@c:" + k: v for k, v in consts.items()})
                    v = _bev(cond, env, sym)
                    if v is _UNK:
                        if norm(cond) not in undecided:
                            undecided.append(norm(cond))
                    elif bool(v) != want:
                        untried.append(T_)
                        break
            ok22 = bool(conds) and not untried and not undecided
            ctx.ob(rid_region, f"parser:CxxParser.{fname}|every argument that starts like a type gets a trial parse", ok22,
                   msg=(f"a template argument whose first token is one of {untried[:6]} is never tried as a type and is reported as a raw value (e.g. 'Foo<const int>')" if untried else
                        f"the trial parse also depends on {undecided}: a template argument that starts like a type but fails that test is never parsed as a type and is reported as a raw value (e.g. 'std::array<std::array<int, 3>, 4>')"
                        if undecided else "the trial parse is not tied to the argument starting like a type name"), node=t, mod=mod, detail={"first tokens": len(type_start)})
        # ---- whole-argument condition: the success path passes `_next_token_must_be(PhonyEnding.type)` and has_tokens()
        for t in tries:
            if not any(isinstance(s, ast.Assign) and any(is_self_attr(tg, "lex") for tg in s.targets) for b in t.finalbody for s in ast.walk(b)):
                continue
            inner = [x for b in t.body for x in ast.walk(b) if isinstance(x, ast.Try) and x.handlers] + ([t] if t.handlers else [])
            for it in inner:
                must = [x for b in it.body for x in ast.walk(b) if isinstance(x, ast.Call) and pm.resolve(fname, x) == ("self", "_next_token_must_be") and x.args and norm(x.args[0]) == "PhonyEnding.type"]
                # the placeholder is required last: nothing after it in the trial body calls anything (plain copies are fine)
                last_ok = False
                if must:
                    idx = [i for i, b in enumerate(it.body) if any(x is must[-1] for x in ast.walk(b))]
                    last_ok = bool(idx) and isinstance(it.body[idx[0]], ast.Expr) and it.body[idx[0]].value is must[-1] and not any(isinstance(x, ast.Call) for b in it.body[idx[0] + 1:] for x in ast.walk(b))
                has = [x for b in it.orelse for x in ast.walk(b) if isinstance(x, ast.Call) and (attr_chain(x.func) or ("",))[-1] == "has_tokens"]
                ctx.ob(rid_region, f"parser:CxxParser.{fname}|type kept only if it spans the whole argument", last_ok and bool(has),
                       msg="the trial no longer ends by requiring the placeholder token and an empty bounded stream: a type that covers only a prefix of the argument would be reported",
                       node=it, mod=mod)


def _block_of(fn: ast.AST, st: ast.stmt):
    for holder in ast.walk(fn):
        for fld in ("body", "orelse", "finalbody"):
            blk = getattr(holder, fld, None)
            if isinstance(blk, list) and any(x is st for x in blk):
                return blk
    return None


def _rebinds(n: Node, var: str) -> bool:
    st = n.stmt
    return n.kind == "stmt" and isinstance(st, ast.Assign) and any(isinstance(t, ast.Name) and t.id == var for t in st.targets)


def phony_confined(ctx: Ctx, rid: str, pm: ParserModel) -> None:
    """PhonyEnding (the only token without a location) is referenced only where
    the swap rule confines it."""
    mod = pm.mod
    uses = []
    for fname, fn in pm.methods.items():
        for x in walk_local(fn):
            if isinstance(x, ast.Name) and x.id == "PhonyEnding":
                uses.append((fname, x))
    fns = sorted({f for f, _ in uses})
    swapfns = sorted({f for f, _ in lex_stores(pm) if f != "__init__"})
    ctx.ob(rid, "parser:CxxParser|PhonyEnding used only in the swap function", bool(uses) and set(fns) <= set(swapfns),
           msg=f"the location-less placeholder token is referenced in {fns}; the error handler dereferences tok.location", node=uses[0][1] if uses else pm.cls, mod=mod, nontrivial=False)


def _expand_single_defs(cfg, rd, at, e: ast.AST, depth: int = 0) -> str:
    """text of e with locals that have one reaching definition written out (named booleans)"""
    import copy as _copy

    class T(ast.NodeTransformer):
        def visit_Name(self, n: ast.Name):
            if not isinstance(n.ctx, ast.Load) or depth > 3 or n.id in ("raw_toks", "self"):
                return n
            ds = list(rd.get(at.id, {}).get(n.id, ()))
            if len(ds) != 1:
                return n
            dn = cfg.nodes[ds[0]]
            st = dn.stmt
            if dn.kind == "stmt" and isinstance(st, ast.Assign) and len(st.targets) == 1 and isinstance(st.targets[0], ast.Name):
                return ast.parse(_expand_single_defs(cfg, rd, dn, _copy.deepcopy(st.value), depth + 1), mode="eval").body
            return n
    return norm(T().visit(_copy.deepcopy(e)))
