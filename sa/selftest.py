"""Control run: positive controls (an edit that breaks a rule must make exactly
that rule fire) and negative controls (behaviour-preserving rewrites must leave
every rule silent).  Edits are applied to scratch copies of the package under
$TMPDIR (outside /repo and /verif) which are removed immediately; the copies
are only parsed, never executed.

usage: python -m sa.selftest [--jobs N] [--only substring]
"""
from __future__ import annotations

import argparse
import importlib
import io
import json
import os
import pathlib
import shutil
import sys
import tempfile
import contextlib
from concurrent.futures import ProcessPoolExecutor
from typing import Dict, List, Optional, Tuple

ROOT = pathlib.Path(__file__).resolve().parent.parent
sys.path.insert(0, str(ROOT))

from sa.model import AnalysisError, Repo  # noqa: E402
from sa.report import Ctx, load_known  # noqa: E402


def all_props() -> List[str]:
    return sorted(p.stem.upper() for p in (ROOT / "sa" / "props").glob("c[0-9][0-9].py"))


def run_prop(prop: str, repo_root: str, tier: str = "quick") -> Tuple[str, List[Tuple[str, str, str]]]:
    """('ok'|'error:<msg>', [(rule, key, msg) for findings not in known_findings])"""
    mod = importlib.import_module(f"sa.props.{prop.lower()}")
    try:
        repo = Repo(repo_root)
        ctx = Ctx(prop, tier, repo, 0)
        err = None
        try:
            with contextlib.redirect_stdout(io.StringIO()):
                mod.run(ctx)
        except AnalysisError as e:
            err = str(e)  # what was established before the analysis stopped stands (as in main)
        known = {k["key"] for k in load_known().get("known", []) if k.get("property") == prop}
        seen = set()
        out = []
        for o in ctx.obs:
            if not o.ok and o.fkey not in known and o.fkey not in seen:
                seen.add(o.fkey)
                out.append((o.rule, o.key, o.msg))
        if out:
            return ("ok", out)
        if err is not None:
            return (f"error: {err}", [])
        if getattr(ctx, "shared_errors", None):
            return (f"error: shared rules not evaluated: {ctx.shared_errors[0]}", [])
        for rid, mn in ctx.minimum.items():
            if ctx.count(rid) < mn:
                return (f"error: rule {rid} found {ctx.count(rid)} < {mn} instances", [])
        return ("ok", out)
    except AnalysisError as e:
        return (f"error: {e}", [])


def apply_edit(src_root: str, edits) -> str:
    d = tempfile.mkdtemp(prefix="cxxhp-sa-")
    shutil.copytree(os.path.join(src_root, "cxxheaderparser"), os.path.join(d, "cxxheaderparser"),
                    ignore=shutil.ignore_patterns("__pycache__"))
    if isinstance(edits, str):
        # a stored unified diff (behaviour-preserving refactoring or seeded defect), applied with patch(1)
        import subprocess

        r = subprocess.run(["patch", "-p1", "-s", "--no-backup-if-mismatch", "-i", edits], cwd=d, capture_output=True, text=True)
        if r.returncode != 0:
            shutil.rmtree(d)
            raise ValueError(f"patch does not apply: {edits}")
        import ast as _ast

        for pth in pathlib.Path(d).rglob("*.py"):
            _ast.parse(pth.read_text())
        return d
    for rel, old, new in edits:
        p = pathlib.Path(d) / "cxxheaderparser" / rel
        s = p.read_text()
        if s.count(old) != 1:
            shutil.rmtree(d)
            raise ValueError(f"control edit does not apply exactly once in {rel}: {old[:60]!r} (count {s.count(old)})")
        p.write_text(s.replace(old, new))
    # must still be valid Python
    import ast

    for rel, _, _ in edits:
        ast.parse((pathlib.Path(d) / "cxxheaderparser" / rel).read_text())
    return d


def _one(args):
    name, kind, edits, props, expect, src_root = args[:6]
    try:
        d = apply_edit(src_root, edits)
    except Exception as e:
        return (name, kind, "skipped", f"edit not applicable: {e}", [])
    try:
        fired = []
        errors = []
        for p in props:
            st, fs = run_prop(p, d)
            if st != "ok":
                errors.append(f"{p}: {st}")
            for r, k, m in fs:
                fired.append((p, r, k))
        if kind == "positive":
            hit = [f for f in fired if any(f[1].startswith(e) for e in expect)]
            verdict = "pass" if hit else "FAIL"
            note = "" if hit else f"expected one of {expect}; fired {sorted({f[1] for f in fired})}; errors {errors}"
        else:
            verdict = "pass" if not fired and not errors else "FAIL"
            note = "" if verdict == "pass" else f"false alarm: {fired[:4]} errors {errors}"
        return (name, kind, verdict, note, fired)
    finally:
        shutil.rmtree(d, ignore_errors=True)


def run_controls(src_root: str = "/repo", jobs: int = 8, only: Optional[str] = None, props: Optional[List[str]] = None):
    from sa.controls import CONTROLS

    allp = all_props()
    tasks = []
    for c in CONTROLS:
        if only and only not in c["name"]:
            continue
        ps = c.get("props") or (allp if c["kind"] == "negative" else c.get("props", allp))
        if props:
            ps = [p for p in ps if p in props]
            if not ps:
                continue
        ps = [p for p in ps if p in allp]
        if not ps:
            continue
        tasks.append((c["name"], c["kind"], c["edits"], ps, c.get("expect", []), src_root))
    if jobs > 1:
        with ProcessPoolExecutor(max_workers=jobs) as ex:
            res = list(ex.map(_one, tasks))
    else:
        res = [_one(t) for t in tasks]
    return res


def controls_for_property(prop: str, src_root: str, base_keys: set, jobs: int = 8):
    """Control run restricted to one property, relative to the findings the base
    tree already has (so it stays meaningful on a tree that already violates a rule).
    Returns a list of (name, kind, verdict, note)."""
    from sa.controls import CONTROLS

    tasks = []
    for c in CONTROLS:
        if c["kind"] == "positive" and prop not in c.get("props", []):
            continue
        expect = c.get("expect", [])
        if c["kind"] == "positive":
            # only the expectations that belong to this property
            num = str(int(prop[1:]))
            expect = [e for e in expect if e.startswith("R" + num + ".") or e == "R" + num or (e.startswith("R" + num) and not e[len("R" + num):][:1].isdigit())]
            if not expect:
                continue
        tasks.append((c["name"], c["kind"], c["edits"], [prop], expect, src_root, len(c.get("props", [])) if c["kind"] == "positive" else 0))
    # stored behaviour-preserving refactorings written against this property (sub-agents, see DESIGN 9.8): no new finding
    def replayed(d) -> bool:
        # a stored change whose recorded outcome is "not decided here" (with the reason) is not replayed as a control
        try:
            return "replay_expect" not in json.loads((d / "meta.json").read_text())
        except Exception:
            return True

    for nd in sorted((ROOT / "neutral").glob(f"{prop}-*")):
        pf = nd / "patch.diff"
        if pf.exists() and replayed(nd):
            tasks.append((f"refactoring {nd.name}", "negative", str(pf), [prop], [], src_root, 0))
    # stored seeded defects written against this property: a new finding of this property's rules
    num = str(int(prop[1:]))
    for sd in sorted((ROOT / "seeded").glob(f"{prop}-*")):
        pf = sd / "patch.diff"
        if pf.exists() and replayed(sd):
            tasks.append((f"seeded {sd.name}", "positive", str(pf), [prop], ["R" + num + "."], src_root, 1))
    if jobs > 1 and len(tasks) > 1:
        with ProcessPoolExecutor(max_workers=jobs) as ex:
            res = list(ex.map(_one, tasks))
    else:
        res = [_one(t) for t in tasks]
    out = []
    for (name, kind, verdict, note, fired), t in zip(res, tasks):
        if verdict == "skipped":
            out.append((name, kind, "skipped", note))
            continue
        new = [f for f in fired if f"{f[1]}|{f[2]}" not in base_keys]
        if kind == "positive":
            hit = [f for f in new if any(f[1].startswith(e) for e in t[4])]
            if not hit and t[6] > 1:
                # the control is shared by several properties; another property's rule is the one that sees it
                out.append((name, kind, "skipped", "decided by another property's rule"))
                continue
            out.append((name, kind, "pass" if hit else "FAIL", "" if hit else f"expected a new finding of {t[4]}, got {sorted({f[1] for f in new})} {note}"))
        else:
            errs = "errors" in note and "errors []" not in note
            out.append((name, kind, "pass" if not new and not errs else "FAIL", "" if not new and not errs else f"new findings on a behaviour-preserving edit: {new[:3]} {note}"))
    return out


def main() -> int:
    ap = argparse.ArgumentParser()
    ap.add_argument("--jobs", type=int, default=min(16, os.cpu_count() or 4))
    ap.add_argument("--only", default=None)
    ap.add_argument("--repo", default=os.environ.get("VERIF_REPO") or "/repo")
    a = ap.parse_args()
    res = run_controls(a.repo, a.jobs, a.only)
    bad = 0
    for name, kind, verdict, note, fired in res:
        print(f"{verdict:7} {kind:8} {name}  {note}")
        if verdict == "FAIL":
            bad += 1
    print(f"{len(res)} controls, {bad} failed, {sum(1 for r in res if r[2] == 'skipped')} skipped")
    return 1 if bad else 0


if __name__ == "__main__":
    sys.exit(main())
