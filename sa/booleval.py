"""Finite-domain path evaluation: enumerate the paths of a CFG from the entry to
a target node under every assignment of a small set of symbolic inputs, with
constant propagation of the locals assigned on the way.  Conditions that the
environment decides prune the path; undecided conditions fork it."""
from __future__ import annotations

import ast
from typing import Any, Callable, Dict, Iterable, List, Optional, Set, Tuple

from .cfg import CFG, Node
from .model import norm

UNKNOWN = object()


def ev(e: ast.AST, env: Dict[str, Any], sym: Callable[[ast.AST], Optional[str]]) -> Any:
    """Evaluate e to a Python constant or UNKNOWN.  `sym(e)` may name a
    symbolic input (looked up in env under that key)."""
    k = sym(e)
    if k is not None:
        return env.get(k, UNKNOWN)
    if isinstance(e, ast.Constant):
        return e.value
    if isinstance(e, ast.Name):
        return env.get(e.id, UNKNOWN)
    if isinstance(e, ast.UnaryOp) and isinstance(e.op, ast.Not):
        v = ev(e.operand, env, sym)
        return UNKNOWN if v is UNKNOWN else (not v)
    if isinstance(e, ast.BoolOp):
        vals = [ev(v, env, sym) for v in e.values]
        is_and = isinstance(e.op, ast.And)
        # Python's value semantics while every earlier operand is decided
        for v in vals:
            if v is UNKNOWN:
                break
            if bool(v) != is_and:
                return v
        else:
            return vals[-1]
        # an undecided operand: only the truth value may still be known
        if is_and and any(v is not UNKNOWN and not v for v in vals):
            return False
        if not is_and and any(v is not UNKNOWN and v for v in vals):
            return True
        return UNKNOWN
    if isinstance(e, ast.IfExp):
        t = ev(e.test, env, sym)
        if t is UNKNOWN:
            a, b = ev(e.body, env, sym), ev(e.orelse, env, sym)
            return a if (a is not UNKNOWN and a == b) else UNKNOWN
        return ev(e.body if t else e.orelse, env, sym)
    if isinstance(e, ast.Compare) and len(e.ops) == 1:
        l, r = ev(e.left, env, sym), ev(e.comparators[0], env, sym)
        if l is UNKNOWN or r is UNKNOWN:
            return UNKNOWN
        op = e.ops[0]
        try:
            if isinstance(op, ast.Eq):
                return l == r
            if isinstance(op, ast.NotEq):
                return l != r
            if isinstance(op, ast.Is):
                return l is r
            if isinstance(op, ast.IsNot):
                return l is not r
            if isinstance(op, ast.In):
                return l in r
            if isinstance(op, ast.NotIn):
                return l not in r
        except TypeError:
            return UNKNOWN
    if isinstance(e, ast.Call) and isinstance(e.func, ast.Name) and e.func.id in ("frozenset", "set", "tuple", "list") and len(e.args) == 1 and not e.keywords:
        v = ev(e.args[0], env, sym)
        return v if isinstance(v, tuple) else UNKNOWN
    if isinstance(e, (ast.Tuple, ast.List, ast.Set)):
        vals = [ev(x, env, sym) for x in e.elts]
        if any(v is UNKNOWN for v in vals):
            return UNKNOWN
        return tuple(vals)
    return UNKNOWN


def paths_to(cfg: CFG, target: Node, inputs: Dict[str, Any], sym: Callable[[ast.AST], Optional[str]], limit: int = 20000) -> List[Dict[str, Any]]:
    """Environments with which `target` can be reached from the entry, given
    the symbolic inputs (each path keeps its own constant environment)."""
    out: List[Dict[str, Any]] = []
    seen: Set[Tuple[int, Tuple]] = set()
    stack: List[Tuple[Node, Dict[str, Any]]] = [(cfg.entry, dict(inputs))]
    steps = 0
    while stack:
        n, env = stack.pop()
        steps += 1
        if steps > limit:
            raise RuntimeError("path enumeration exceeded its budget")
        key = (n.id, tuple(sorted((k, repr(v)) for k, v in env.items())))
        if key in seen:
            continue
        seen.add(key)
        if n is target:
            out.append(env)
            continue
        st = n.stmt
        if n.kind == "stmt" and isinstance(st, (ast.Assign, ast.AnnAssign)) and getattr(st, "value", None) is not None:
            tgts = st.targets if isinstance(st, ast.Assign) else [st.target]
            v = ev(st.value, env, sym)
            env = dict(env)
            for t in tgts:
                if isinstance(t, ast.Name):
                    if v is UNKNOWN:
                        env.pop(t.id, None)
                    else:
                        env[t.id] = v
                elif isinstance(t, (ast.Tuple, ast.List)):
                    # a, b = (x, y): element-wise when the shapes agree
                    vals = v if (isinstance(v, tuple) and len(v) == len(t.elts)) else None
                    if vals is None and isinstance(st.value, (ast.Tuple, ast.List)) and len(st.value.elts) == len(t.elts):
                        vals = tuple(ev(e, env, sym) for e in st.value.elts)
                    for i, x in enumerate(t.elts):
                        if isinstance(x, ast.Name):
                            if vals is None or vals[i] is UNKNOWN:
                                env.pop(x.id, None)
                            else:
                                env[x.id] = vals[i]
        elif n.kind == "stmt" and isinstance(st, ast.AugAssign) and isinstance(st.target, ast.Name):
            env = dict(env)
            env.pop(st.target.id, None)
        elif n.kind == "test" and isinstance(st, (ast.For, ast.AsyncFor)):
            env = dict(env)
            for x in ast.walk(st.target):
                if isinstance(x, ast.Name):
                    env.pop(x.id, None)
        decided = UNKNOWN
        if n.kind == "test" and n.cond is not None:
            decided = ev(n.cond, env, sym)
        for s, lab in n.succ:
            if lab == "exc":
                continue
            if decided is not UNKNOWN and lab in ("T", "F"):
                if bool(decided) != (lab == "T"):
                    continue
            stack.append((s, env))
    return out
