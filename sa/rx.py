"""E4 -- regular-expression constants -> Glushkov position automata with
single-character look-ahead filters, plus the language-level analyses the
rules need (ambiguity, first/last sets, containment, product reachability).

The automaton is built from the AST that CPython's own ``re._parser`` produces
for the pattern under the flags the code uses, so what is analysed is what the
interpreter compiles.  Patterns are *interpreted*, never executed against
input by the regex engine.

Alphabet: all 128 ASCII characters plus one representative for every class of
non-ASCII character that ``\\d \\s \\w .`` and negated sets can tell apart.
"""
from __future__ import annotations

import re
from typing import Dict, FrozenSet, Iterable, List, Optional, Set, Tuple

try:  # 3.11+
    import re._parser as sre_parse
    import re._constants as sre_c
except ImportError:  # pragma: no cover
    import sre_parse  # type: ignore
    import sre_constants as sre_c  # type: ignore

from .model import AnalysisError

# representatives: non-ASCII letter, non-ASCII decimal digit, NBSP (space, not
# word), a symbol (neither), U+2028 (line separator: \s but not "\n")
ALPHA: List[str] = [chr(i) for i in range(128)] + ["é", "٣", " ", "€", " "]
FULL: FrozenSet[str] = frozenset(ALPHA)
END = "\x00END"  # pseudo symbol: end of input (only ever appears in filters)
FE: FrozenSet[str] = FULL | {END}


def _cat(c: str, which) -> bool:
    if which == sre_c.CATEGORY_DIGIT:
        return c.isdecimal()
    if which == sre_c.CATEGORY_NOT_DIGIT:
        return not c.isdecimal()
    if which == sre_c.CATEGORY_SPACE:
        return c.isspace()
    if which == sre_c.CATEGORY_NOT_SPACE:
        return not c.isspace()
    if which == sre_c.CATEGORY_WORD:
        return c.isalnum() or c == "_"
    if which == sre_c.CATEGORY_NOT_WORD:
        return not (c.isalnum() or c == "_")
    raise AnalysisError(f"regex category not modelled: {which}")


def charset(op, av) -> FrozenSet[str]:
    if op == sre_c.LITERAL:
        return frozenset(c for c in ALPHA if ord(c) == av)
    if op == sre_c.NOT_LITERAL:
        return frozenset(c for c in ALPHA if ord(c) != av)
    if op == sre_c.ANY:
        return frozenset(c for c in ALPHA if c != "\n")
    if op == sre_c.IN:
        neg = False
        s: Set[str] = set()
        for o, a in av:
            if o == sre_c.NEGATE:
                neg = True
            elif o == sre_c.LITERAL:
                s |= {c for c in ALPHA if ord(c) == a}
            elif o == sre_c.RANGE:
                s |= {c for c in ALPHA if a[0] <= ord(c) <= a[1]}
            elif o == sre_c.CATEGORY:
                s |= {c for c in ALPHA if _cat(c, a)}
            else:
                raise AnalysisError(f"regex set item not modelled: {o}")
        return frozenset(set(ALPHA) - s) if neg else frozenset(s)
    raise AnalysisError(f"regex atom not modelled: {op}")


_ATOMS = (sre_c.LITERAL, sre_c.NOT_LITERAL, sre_c.ANY, sre_c.IN)


class Auto:
    """Position automaton.

    pos[i]        character set of position i
    first[p]      filter: characters with which a match may *start* at p
    follow[p][q]  label: characters c such that position q may consume c directly
                  after p (already intersected with pos[q] and the look-ahead
                  filters in between)
    mult[(p,q)]   number of distinct syntactic routes that created the link
    last[p]       out-filter: the match may end after p if the next input
                  symbol (or END) is in this set
    nullable      the empty string matches; null_filter is the condition on
                  the next symbol for that
    """

    def __init__(self, pattern: str, flags: int = 0, name: Optional[str] = None):
        self.name = name or pattern
        self.pattern = pattern
        self.flags = flags
        self.pos: List[FrozenSet[str]] = []
        self.follow: Dict[int, Dict[int, FrozenSet[str]]] = {}
        self.mult: Dict[Tuple[int, int], int] = {}
        self.approx: List[str] = []
        self.loops: List[Tuple[Set[int], bool]] = []  # (positions of a starred body, body nullable)
        self._groups: Dict[int, list] = {}
        try:
            tree = sre_parse.parse(pattern, flags)
        except re.error as e:
            raise AnalysisError(f"regex does not compile: {pattern!r}: {e}")
        n, f, l, nf = self._seq(list(tree))
        self.nullable = n
        self.null_filter = nf
        self.first: Dict[int, FrozenSet[str]] = f
        self.last: Dict[int, FrozenSet[str]] = l
        self._useful: Optional[Set[int]] = None

    # ------------------------------------------------------------ building
    def _new(self, S: FrozenSet[str]) -> int:
        self.pos.append(S)
        i = len(self.pos) - 1
        self.follow[i] = {}
        return i

    def _link(self, al: Dict[int, FrozenSet[str]], bf: Dict[int, FrozenSet[str]]) -> None:
        for p, outf in al.items():
            for q, inf in bf.items():
                lab = self.pos[q] & outf & inf
                if lab:
                    self.follow[p][q] = self.follow[p].get(q, frozenset()) | lab
                    self.mult[(p, q)] = self.mult.get((p, q), 0) + 1

    def _seq(self, items):
        res = (True, {}, {}, FE)
        for it in items:
            res = self._concat(res, self._build(it))
        return res

    def _concat(self, a, b):
        an, af, al, anf = a
        bn, bf, bl, bnf = b
        self._link(al, bf)
        first = dict(af)
        if an:
            for q, inf in bf.items():
                f = inf & anf
                if f:
                    first[q] = first.get(q, frozenset()) | f
        last = dict(bl)
        if bn:
            for p, outf in al.items():
                f = outf & bnf
                if f:
                    last[p] = last.get(p, frozenset()) | f
        return (an and bn, first, last, (anf & bnf) if (an and bn) else FE)

    def _build(self, node):
        op, av = node
        if op in _ATOMS:
            p = self._new(charset(op, av))
            return (False, {p: FE}, {p: FE}, FE)
        if op == sre_c.SUBPATTERN:
            if av[0] is not None:
                self._groups[av[0]] = list(av[3])
            return self._seq(list(av[3]))
        if op == sre_c.GROUPREF and av in self._groups:
            # a back-reference matches what the group matched: over-approximated by anything the group can match
            # (the language is widened, never narrowed; noted in `approx`)
            self.approx.append(f"back-reference to group {av} widened to the group's language")
            return self._seq(self._groups[av])
        if op == sre_c.BRANCH:
            rs = [self._seq(list(alt)) for alt in av[1]]
            first: Dict[int, FrozenSet[str]] = {}
            last: Dict[int, FrozenSet[str]] = {}
            n = False
            nf: FrozenSet[str] = frozenset()
            for rn, rf, rl, rnf in rs:
                for k, v in rf.items():
                    first[k] = first.get(k, frozenset()) | v
                for k, v in rl.items():
                    last[k] = last.get(k, frozenset()) | v
                if rn:
                    n = True
                    nf |= rnf
            return (n, first, last, nf if n else FE)
        if op in (sre_c.MAX_REPEAT, sre_c.MIN_REPEAT) or getattr(sre_c, "POSSESSIVE_REPEAT", None) == op:
            lo, hi, sub = av
            sub = list(sub)
            if hi == sre_c.MAXREPEAT:
                # X{lo,}  ==  X^lo X*   (lo mandatory copies are unrolled)
                res = (True, {}, {}, FE)
                for _ in range(max(lo - 1, 0)):
                    res = self._concat(res, self._seq(sub))
                before = len(self.pos)
                r = self._seq(sub)
                rn, rf, rl, rnf = r
                self._link(rl, rf)
                self.loops.append((set(range(before, len(self.pos))), rn))
                if lo == 0:
                    r = (True, rf, rl, FE)
                return self._concat(res, r)
            res = (True, {}, {}, FE)
            for i in range(hi):
                r = self._seq(sub)
                if i >= lo:
                    r = (True, r[1], r[2], FE)
                res = self._concat(res, r)
            return res
        if op == sre_c.ASSERT_NOT:
            d, sub = av
            sub = list(sub)
            if d == 1 and len(sub) == 1 and sub[0][0] in _ATOMS:
                return (True, {}, {}, FE - charset(*sub[0]))
            self.approx.append("negative look-around wider than one character")
            return (True, {}, {}, FE)
        if op == sre_c.ASSERT:
            d, sub = av
            sub = list(sub)
            if d == 1 and len(sub) == 1 and sub[0][0] in _ATOMS:
                return (True, {}, {}, frozenset(charset(*sub[0])))
            self.approx.append("positive look-around wider than one character")
            return (True, {}, {}, FE)
        if op == sre_c.AT:
            if av in (sre_c.AT_END, sre_c.AT_END_STRING):
                return (True, {}, {}, frozenset({END, "\n"}))
            if av in (sre_c.AT_BEGINNING, sre_c.AT_BEGINNING_STRING):
                return (True, {}, {}, FE)
            self.approx.append(f"anchor {av}")
            return (True, {}, {}, FE)
        raise AnalysisError(f"regex construct not modelled: {op} in {self.pattern!r}")

    # ------------------------------------------------------------- stepping
    def step(self, state: Optional[int], c: str) -> Set[int]:
        if state is None:
            return {q for q, f in self.first.items() if c in self.pos[q] and c in f}
        return {q for q, lab in self.follow[state].items() if c in lab}

    def out_chars(self, state: Optional[int]) -> FrozenSet[str]:
        s: Set[str] = set()
        if state is None:
            for q, f in self.first.items():
                s |= self.pos[q] & f
        else:
            for lab in self.follow[state].values():
                s |= lab
        return frozenset(s - {END})

    def accepts_at(self, p: Optional[int], nxt: str) -> bool:
        if p is None:
            return self.nullable and nxt in self.null_filter
        return p in self.last and nxt in self.last[p]

    def matches(self, s: str) -> bool:
        cur: Set[Optional[int]] = {None}
        for ch in s:
            cur = {q for st in cur for q in self.step(st, ch)}
            if not cur:
                return False
        return any(self.accepts_at(st, END) for st in cur)

    def prefix_lengths(self, s: str) -> List[int]:
        """Lengths k such that s[:k] is a match when followed by s[k:]."""
        out = []
        cur: Set[Optional[int]] = {None}
        if self.accepts_at(None, s[0] if s else END):
            out.append(0)
        for i, ch in enumerate(s):
            cur = {q for st in cur for q in self.step(st, ch)}
            if not cur:
                break
            nxt = s[i + 1] if i + 1 < len(s) else END
            if any(self.accepts_at(st, nxt) for st in cur):
                out.append(i + 1)
        return out

    # ------------------------------------------------------------- analyses
    def useful(self) -> Set[int]:
        """Positions on some accepting run."""
        if self._useful is None:
            fwd: Set[int] = set()
            st = [q for q, f in self.first.items() if self.pos[q] & f]
            while st:
                p = st.pop()
                if p in fwd:
                    continue
                fwd.add(p)
                st.extend(self.follow[p].keys())
            rev: Dict[int, Set[int]] = {p: set() for p in range(len(self.pos))}
            for p, d in self.follow.items():
                for q in d:
                    rev[q].add(p)
            bwd: Set[int] = set()
            st = [p for p, f in self.last.items() if f]
            while st:
                p = st.pop()
                if p in bwd:
                    continue
                bwd.add(p)
                st.extend(rev[p])
            self._useful = fwd & bwd
        return self._useful

    def _in_labels(self, q: int) -> FrozenSet[str]:
        s: Set[str] = set()
        if q in self.first:
            s |= self.pos[q] & self.first[q]
        for p, d in self.follow.items():
            if q in d and p in self.useful():
                s |= d[q]
        return frozenset(s)

    def can_contain(self, c: str) -> bool:
        return any(c in self._in_labels(q) for q in self.useful())

    def can_end_with(self, c: str) -> bool:
        return any(c in self._in_labels(q) for q in self.useful() if q in self.last and self.last[q])

    def can_start_with(self) -> FrozenSet[str]:
        s: Set[str] = set()
        for q, f in self.first.items():
            if q in self.useful():
                s |= self.pos[q] & f
        return frozenset(s)

    def alphabet_used(self) -> FrozenSet[str]:
        s: Set[str] = set()
        for q in self.useful():
            s |= self._in_labels(q)
        return frozenset(s)

    def fixed_string(self) -> Optional[str]:
        """The single string of the language, or None."""
        if self.nullable:
            return None
        out: List[str] = []
        st = [(q, self.pos[q] & f) for q, f in self.first.items() if q in self.useful()]
        seen: Set[int] = set()
        while True:
            if len(st) != 1:
                return None
            q, lab = st[0]
            if len(lab) != 1 or q in seen:
                return None
            seen.add(q)
            out.append(next(iter(lab)))
            nxt = [(r, l) for r, l in self.follow[q].items() if r in self.useful()]
            if q in self.last and self.last[q]:
                if nxt:
                    return None
                return "".join(out)
            st = nxt

    def mandatory_prefix(self) -> str:
        """Longest string every match starts with."""
        if self.nullable:
            return ""
        out: List[str] = []
        st = [(q, self.pos[q] & f) for q, f in self.first.items() if q in self.useful()]
        seen: Set[int] = set()
        while len(st) == 1:
            q, lab = st[0]
            if len(lab) != 1 or q in seen:
                break
            seen.add(q)
            out.append(next(iter(lab)))
            if q in self.last and self.last[q]:
                break
            st = [(r, l) for r, l in self.follow[q].items() if r in self.useful()]
        return "".join(out)

    # -------------------------------------------------- exponential ambiguity
    def eda(self) -> Optional[Dict[str, object]]:
        """Exponential degree of ambiguity.  Returns a witness dict or None.

        (1) a starred body that is itself nullable ((a*)*), (2) a follow link
        inside a cycle created by two or more syntactic routes ((x+)* , (a|a)*),
        (3) two distinct p->p paths spelling the same word (self-product).
        A loop is reported only when failing after it is possible (some
        position of the ambiguous cycle is not unconditionally accepting);
        otherwise the greedy first attempt succeeds and nothing backtracks.
        """
        use = self.useful()

        def can_fail(ps: Iterable[int]) -> bool:
            for p in ps:
                if p not in self.last or self.last[p] != FE:
                    return True
            return False

        # cycles: strongly connected components of the follow graph
        comp = self._scc()
        for body, nullable in self.loops:
            if nullable and body & use and can_fail(body & use):
                return {"kind": "nullable loop body", "positions": sorted(body & use)[:6], "pump": ""}
        for (p, q), m in self.mult.items():
            if m >= 2 and p in use and q in use and comp.get(p) is not None and comp.get(p) == comp.get(q):
                cyc = {x for x, c in comp.items() if c == comp[p]}
                if can_fail(cyc):
                    return {
                        "kind": "follow link created by %d routes inside a cycle" % m,
                        "positions": [p, q],
                        "pump": self._word_through(p, q),
                        "chars": sorted(self.follow[p][q])[:4],
                    }
        # self-product search
        for p in sorted(use):
            if comp.get(p) is None:
                continue
            seen: Dict[Tuple[int, int], Optional[Tuple[Tuple[int, int], str]]] = {(p, p): None}
            st = [(p, p)]
            while st:
                x = st.pop()
                for y, c in self._succ2(x, use):
                    if y not in seen:
                        seen[y] = (x, c)
                        st.append(y)
            diffs = [x for x in seen if x[0] != x[1]]
            for d in diffs:
                # can d reach (p,p) again?
                s2 = {d}
                st2 = [d]
                ok = False
                while st2 and not ok:
                    x = st2.pop()
                    for y, c in self._succ2(x, use):
                        if y == (p, p):
                            ok = True
                            break
                        if y not in s2:
                            s2.add(y)
                            st2.append(y)
                if ok:
                    cyc = {x for x, c in comp.items() if c == comp[p]}
                    if not can_fail(cyc):
                        continue
                    path = []
                    x = d
                    while seen[x] is not None:
                        x, c = seen[x]  # type: ignore[misc]
                        path.append(c)
                    return {
                        "kind": "two distinct runs over the same word inside a loop",
                        "positions": [p, d[0], d[1]],
                        "pump": "".join(reversed(path)),
                    }
        return None

    def _succ2(self, pq: Tuple[int, int], use: Set[int]):
        p, q = pq
        for p2, l1 in self.follow[p].items():
            if p2 not in use:
                continue
            for q2, l2 in self.follow[q].items():
                if q2 not in use:
                    continue
                both = l1 & l2
                if both:
                    yield (p2, q2), min(both)

    def _scc(self) -> Dict[int, Optional[int]]:
        """component id per position; None for positions on no cycle."""
        n = len(self.pos)
        index: Dict[int, int] = {}
        low: Dict[int, int] = {}
        onst: Set[int] = set()
        stack: List[int] = []
        comp: Dict[int, Optional[int]] = {}
        counter = [0]
        cid = [0]

        def strong(v: int) -> None:
            # iterative Tarjan
            work = [(v, iter(self.follow[v].keys()))]
            index[v] = low[v] = counter[0]
            counter[0] += 1
            stack.append(v)
            onst.add(v)
            while work:
                node, it = work[-1]
                adv = False
                for w in it:
                    if w not in index:
                        index[w] = low[w] = counter[0]
                        counter[0] += 1
                        stack.append(w)
                        onst.add(w)
                        work.append((w, iter(self.follow[w].keys())))
                        adv = True
                        break
                    elif w in onst:
                        low[node] = min(low[node], index[w])
                if adv:
                    continue
                work.pop()
                if work:
                    parent = work[-1][0]
                    low[parent] = min(low[parent], low[node])
                if low[node] == index[node]:
                    members = []
                    while True:
                        w = stack.pop()
                        onst.discard(w)
                        members.append(w)
                        if w == node:
                            break
                    if len(members) > 1 or node in self.follow[node]:
                        for w in members:
                            comp[w] = cid[0]
                        cid[0] += 1
                    else:
                        comp[node] = None

        for v in range(n):
            if v not in index:
                strong(v)
        return comp

    def _word_through(self, p: int, q: int) -> str:
        return min(self.follow[p][q]) if self.follow[p].get(q) else ""

    # ------------------------------------------------------- witness strings
    def shortest_accepted(self, limit: int = 64) -> Optional[str]:
        """A shortest string of the language (BFS over positions)."""
        if self.nullable and END in self.null_filter:
            return ""
        from collections import deque

        dq = deque()
        seen: Set[int] = set()
        for q, f in sorted(self.first.items()):
            lab = self.pos[q] & f
            if lab and q in self.useful():
                dq.append((q, _pick(lab)))
        while dq:
            q, w = dq.popleft()
            if q in seen or len(w) > limit:
                continue
            seen.add(q)
            if q in self.last and END in self.last[q]:
                return w
            for r, lab in sorted(self.follow[q].items()):
                if r in self.useful() and r not in seen:
                    dq.append((r, w + _pick(lab)))
        return None


def _pick(lab: FrozenSet[str]) -> str:
    """Prefer a printable representative."""
    for pref in "a1_ ":
        if pref in lab:
            return pref
    pr = sorted(c for c in lab if c.isprintable() and c != END)
    if pr:
        return pr[0]
    return sorted(c for c in lab if c != END)[0]


# ---------------------------------------------------------------------------
# product queries


def prefix_preempts(E: Auto, L: Auto) -> Optional[str]:
    """Is there a word w in L(L) with a prefix u (possibly u == w) in L(E),
    E's look-ahead being checked against the character of w that follows u (or
    END)?  Returns a witness w-prefix or None.  Used for rule-order shadowing:
    if E has priority over L, L can never deliver w."""
    useL = L.useful()
    start = (None, None)
    seen: Dict[Tuple[Optional[int], Optional[int]], str] = {start: ""}
    st = [start]
    while st:
        e, l = st.pop()
        w = seen[(e, l)]
        for c in sorted(E.out_chars(e) & L.out_chars(l)):
            for l2 in L.step(l, c):
                if l2 not in useL:
                    continue
                for e2 in E.step(e, c):
                    if (e2, l2) in seen:
                        continue
                    seen[(e2, l2)] = w + c
                    st.append((e2, l2))
                    if e2 in E.last:
                        # E may stop here if the next character is allowed
                        if l2 in L.last and END in L.last[l2] and END in E.last[e2]:
                            return w + c
                        if L.out_chars(l2) & E.last[e2]:
                            return w + c
    return None


def languages_intersect(A: Auto, B: Auto) -> Optional[str]:
    """A common full match of A and B (END-accepting in both), or None."""
    start = (None, None)
    seen: Dict[Tuple[Optional[int], Optional[int]], str] = {start: ""}
    st = [start]
    if A.accepts_at(None, END) and B.accepts_at(None, END):
        return ""
    while st:
        a, b = st.pop()
        w = seen[(a, b)]
        for c in sorted(A.out_chars(a) & B.out_chars(b)):
            for a2 in A.step(a, c):
                for b2 in B.step(b, c):
                    if (a2, b2) in seen:
                        continue
                    seen[(a2, b2)] = w + c
                    if A.accepts_at(a2, END) and B.accepts_at(b2, END):
                        return w + c
                    st.append((a2, b2))
    return None


def not_included(R: Auto, A: Auto, limit: int = 200000) -> Optional[str]:
    """A word of L(R) that is not in L(A) (full matches, END-accepting), or
    None when L(R) is a subset of L(A).  R must be filter-free apart from END
    acceptance (it is a reference grammar written without look-arounds); A is
    determinised on the fly."""
    from collections import deque

    useR = R.useful()
    start = (None, frozenset([None]))
    seen = {start: ""}
    dq = deque([start])
    if R.accepts_at(None, END) and not A.accepts_at(None, END):
        return ""
    n = 0
    while dq:
        r, S = dq.popleft()
        w = seen[(r, S)]
        n += 1
        if n > limit:
            raise AnalysisError("inclusion check exceeded its state budget")
        for c in sorted(R.out_chars(r)):
            S2 = frozenset(q for s in S for q in A.step(s, c))
            for r2 in R.step(r, c):
                if r2 not in useR:
                    continue
                k = (r2, S2)
                if k in seen:
                    continue
                seen[k] = w + c
                if R.accepts_at(r2, END) and not any(A.accepts_at(s, END) for s in S2):
                    return w + c
                dq.append(k)
    return None
