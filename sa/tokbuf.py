"""Analysis of LexerTokenStream._fill_tokbuf (shared by C06, C08, C09, C10):
token linearity, location stamping, newline / user-defined-literal tests on
every buffered token, the line-splice guard."""
from __future__ import annotations

import ast
from typing import Dict, List, Optional, Set, Tuple

from .cfg import CFG, Node
from .model import AnalysisError, Module, Repo, attr_chain, norm, short, walk_local


class FillModel:
    def __init__(self, repo: Repo):
        self.repo = repo
        self.mod: Module = repo.mod("lexer")
        self.fn = self.mod.func("LexerTokenStream._fill_tokbuf")
        self.cfg = CFG(self.fn)
        # aliases of the raw token getter and of the buffer
        self.getters: Set[str] = set()
        self.bufs: Set[str] = {a.arg for a in self.fn.args.args[1:]}
        self.udl_names: Set[str] = set()
        self.loc_getters: Set[str] = set()
        for st in walk_local(self.fn):
            if isinstance(st, ast.Assign) and len(st.targets) == 1 and isinstance(st.targets[0], ast.Name):
                ch = attr_chain(st.value)
                if ch is not None and ch[-1] == "current_location" and not isinstance(st.value, ast.Call):
                    self.loc_getters.add(st.targets[0].id)
        for st in walk_local(self.fn):
            if isinstance(st, ast.Assign) and len(st.targets) == 1 and isinstance(st.targets[0], ast.Name):
                ch = attr_chain(st.value)
                if ch == ("self", "_lex", "token"):
                    self.getters.add(st.targets[0].id)
                if ch == ("self", "tokbuf"):
                    self.bufs.add(st.targets[0].id)
                if ch == ("self", "_user_defined_literal_start"):
                    self.udl_names.add(st.targets[0].id)
        self.acq: List[Tuple[Node, str]] = []
        self.appends: List[Tuple[Node, str]] = []
        self.pops: List[Node] = []
        for n in self.cfg.nodes:
            st = n.stmt
            if n.kind == "stmt" and isinstance(st, ast.Assign) and len(st.targets) == 1 and isinstance(st.targets[0], ast.Name):
                if self._is_get(st.value):
                    self.acq.append((n, st.targets[0].id))
            if n.kind == "stmt" and isinstance(st, ast.Expr) and isinstance(st.value, ast.Call):
                c = st.value
                ch = attr_chain(c.func)
                if ch and len(ch) >= 2 and ch[-1] in ("append", "appendleft", "extend", "extendleft", "insert") and self._is_buf(ch[:-1]):
                    if ch[-1] == "append" and len(c.args) == 1 and isinstance(c.args[0], ast.Name):
                        self.appends.append((n, c.args[0].id))
                    else:
                        raise AnalysisError(f"_fill_tokbuf adds to the buffer in an unmodelled way: {norm(c)}")
                if ch and ch[-1] in ("pop", "popleft") and self._is_buf(ch[:-1]):
                    self.pops.append(n)
        if not self.acq or not self.appends:
            raise AnalysisError("anchor vanished: token acquisition / buffer append in _fill_tokbuf")

    def _is_get(self, v: ast.AST) -> bool:
        if not isinstance(v, ast.Call):
            return False
        ch = attr_chain(v.func)
        return ch == ("self", "_lex", "token") or (ch is not None and len(ch) == 1 and ch[0] in self.getters)

    def _is_buf(self, ch: Tuple[str, ...]) -> bool:
        return ch == ("self", "tokbuf") or (len(ch) == 1 and ch[0] in self.bufs)

    # ------------------------------------------------------------------
    def _is_loc_call(self, v: ast.AST) -> bool:
        if not isinstance(v, ast.Call):
            return False
        ch = attr_chain(v.func)
        if ch is None:
            return False
        if ch[-1] == "current_location":
            return True
        return len(ch) == 1 and ch[0] in self.loc_getters

    def _is_stamp(self, n: Node, var: str, fresh=frozenset()) -> bool:
        st = n.stmt
        if n.kind == "stmt" and isinstance(st, ast.Assign):
            for t in st.targets:
                if attr_chain(t) == (var, "location"):
                    v = st.value
                    if self._is_loc_call(v) or self._is_inlined_location(v):
                        return True
                    # a local that received current_location() after this token was fetched
                    if isinstance(v, ast.Name) and v.id in fresh:
                        return True
        return False

    def _is_inlined_location(self, v: ast.AST) -> bool:
        """Location(<lexer>.filename, <lexer>.lex.lineno - <lexer>.line_offset): PlyLexer.current_location() written out
        (the lexer may be reached through locals that alias self._lex and its .lex)"""
        if not (isinstance(v, ast.Call) and norm(v.func) == "Location"):
            return False
        byname = {k.arg: k.value for k in v.keywords}
        a0 = v.args[0] if len(v.args) > 0 else byname.get("filename")
        a1 = v.args[1] if len(v.args) > 1 else byname.get("lineno")
        if a0 is None or a1 is None:
            return False
        alias = {}
        for st in walk_local(self.fn):
            if isinstance(st, ast.Assign) and len(st.targets) == 1 and isinstance(st.targets[0], ast.Name) and attr_chain(st.value) is not None:
                alias[st.targets[0].id] = attr_chain(st.value)

        def full(e):
            ch = attr_chain(e)
            while ch and ch[0] in alias:
                ch = tuple(alias[ch[0]]) + tuple(ch[1:])
            return ch
        if full(a0) != ("self", "_lex", "filename"):
            return False
        if not (isinstance(a1, ast.BinOp) and isinstance(a1.op, ast.Sub)):
            return False
        return full(a1.left) == ("self", "_lex", "lex", "lineno") and full(a1.right) == ("self", "_lex", "line_offset")

    def _fresh_loc_def(self, n: Node) -> Optional[str]:
        st = n.stmt
        if n.kind == "stmt" and isinstance(st, ast.Assign) and len(st.targets) == 1 and isinstance(st.targets[0], ast.Name) and self._is_loc_call(st.value):
            return st.targets[0].id
        return None

    def _none_test(self, n: Node, var: str) -> Optional[str]:
        """Label of the edge on which var is None, if n tests that."""
        c = n.cond
        if n.kind != "test" or c is None:
            return None
        if isinstance(c, ast.Compare) and isinstance(c.left, ast.Name) and c.left.id == var and len(c.ops) == 1 and isinstance(c.comparators[0], ast.Constant) and c.comparators[0].value is None:
            if isinstance(c.ops[0], ast.Is):
                return "T"
            if isinstance(c.ops[0], ast.IsNot):
                return "F"
        if isinstance(c, ast.UnaryOp) and isinstance(c.op, ast.Not) and isinstance(c.operand, ast.Name) and c.operand.id == var:
            return "T"
        if isinstance(c, ast.Name) and c.id == var:
            return "F"
        return None

    def _fuses(self, n: Node, var: str) -> bool:
        st = n.stmt
        if n.kind != "stmt" or not isinstance(st, (ast.Assign, ast.AugAssign)):
            return False
        tgts = st.targets if isinstance(st, ast.Assign) else [st.target]
        if not any((attr_chain(t) or ("",))[-1] == "value" for t in tgts):
            return False
        return any(attr_chain(x) == (var, "value") for x in walk_local(st.value))

    def linear(self) -> List[Tuple[str, ast.AST, str]]:
        """Findings (kind, node, text) of the no-drop / stamp rule."""
        out: List[Tuple[str, ast.AST, str]] = []
        self.paths_checked = 0
        for a, v in self.acq:
            seen: Set[Tuple[int, str, bool, frozenset]] = set()
            stack = [(s, v, False, frozenset()) for s, lab in a.succ if lab != "exc"]
            while stack:
                n, var, stamped, fresh = stack.pop()
                k = (n.id, var, stamped, fresh)
                if k in seen:
                    continue
                seen.add(k)
                self.paths_checked += 1
                if n is self.cfg.exit or n is self.cfg.raise_exit:
                    if n is self.cfg.exit:
                        out.append(("drop", a.stmt, f"token obtained by `{short(a.stmt)}` can reach the end of _fill_tokbuf without being buffered or fused"))
                    continue
                st = n.stmt
                nl = self._none_test(n, var)
                if nl is not None:
                    for s, lab in n.succ:
                        if lab == "exc" or lab == nl:
                            continue
                        stack.append((s, var, stamped, fresh))
                    continue
                if any(nn is n and vv == var for nn, vv in self.appends):
                    if not stamped:
                        out.append(("stamp", st, f"`{short(st)}` buffers a token whose .location was not set from current_location() since it was obtained by `{short(a.stmt)}`"))
                    continue
                if self._fuses(n, var):
                    continue
                if self._is_stamp(n, var, fresh):
                    stamped = True
                fl = self._fresh_loc_def(n)
                if fl is not None:
                    fresh = fresh | {fl}
                if n.kind == "stmt" and isinstance(st, ast.Assign) and len(st.targets) == 1 and isinstance(st.targets[0], ast.Name):
                    tgt = st.targets[0].id
                    if isinstance(st.value, ast.Name) and st.value.id == var and tgt != var:
                        var = tgt  # ownership moves to the alias
                        stamped = False if not stamped else stamped
                    elif tgt == var:
                        out.append(("drop", st, f"`{short(st)}` overwrites a token obtained by `{short(a.stmt)}` that was neither buffered nor fused"))
                        continue
                for s, lab in n.succ:
                    if lab != "exc":
                        stack.append((s, var, stamped, fresh))
        # de-duplicate
        uniq = []
        seenk = set()
        for kind, node, text in out:
            k = (kind, norm(node))
            if k not in seenk:
                seenk.add(k)
                uniq.append((kind, node, text))
        return uniq

    # ------------------------------------------------------------------
    def _mentions(self, n: Node, var: str, what: str) -> bool:
        c = n.cond
        if n.kind != "test" or c is None:
            return False
        for x in walk_local(c):
            if isinstance(x, ast.Compare) and attr_chain(x.left) == (var, "type") and len(x.ops) == 1:
                comp = x.comparators[0]
                if what == "NEWLINE" and isinstance(x.ops[0], (ast.Eq, ast.NotEq)) and isinstance(comp, ast.Constant) and comp.value == "NEWLINE":
                    return True
                if what == "UDL" and isinstance(x.ops[0], (ast.In, ast.NotIn)):
                    ch = attr_chain(comp)
                    if ch == ("self", "_user_defined_literal_start") or (ch is not None and len(ch) == 1 and ch[0] in self.udl_names):
                        return True
        return False

    def untested_appends(self, what: str) -> List[Tuple[Node, str]]:
        """append(v) sites from which the next raw-token fetch is reachable
        without v.type having been tested for `what` ('NEWLINE' | 'UDL')."""
        bad = []
        for n, v in self.appends:
            for a, _ in self.acq:
                if self.cfg.paths_avoiding(n, a, lambda x, v=v: self._mentions(x, v, what)):
                    bad.append((n, v))
                    break
        return bad

    # ------------------------------------------------------------------
    def splice_guards(self) -> List[Tuple[ast.AST, int, Optional[int], str]]:
        """(node, k, minimum length admitted, text) for each negative buffer
        index tokbuf[-k] in a condition, with the length guard that precedes it
        in the same conjunction."""
        out = []
        for n in self.cfg.nodes:
            c = n.cond
            if n.kind != "test" or c is None:
                continue
            for x in walk_local(c):
                if isinstance(x, ast.Subscript) and isinstance(x.value, (ast.Name, ast.Attribute)):
                    ch = attr_chain(x.value)
                    if ch is None or not self._is_buf(ch):
                        continue
                    sl = x.slice
                    if isinstance(sl, ast.UnaryOp) and isinstance(sl.op, ast.USub) and isinstance(sl.operand, ast.Constant):
                        k = int(sl.operand.value)
                        mn = self._min_len(c, x)
                        out.append((n.stmt, k, mn, norm(c)))
        return out

    def _min_len(self, cond: ast.AST, sub: ast.AST) -> Optional[int]:
        """Smallest buffer length for which evaluation reaches `sub` inside a
        left-to-right conjunction; None if no length guard precedes it."""
        while isinstance(cond, ast.UnaryOp) and isinstance(cond.op, ast.Not):
            cond = cond.operand
        if not isinstance(cond, ast.BoolOp):
            return None
        conj = isinstance(cond.op, ast.And)
        mn = None
        for v in cond.values:
            if any(y is sub for y in walk_local(v)):
                return mn
            # `a and X`: X is evaluated when a holds; `a or X`: when a does not hold
            g = _len_guard(v, self) if conj else _len_guard(ast.UnaryOp(op=ast.Not(), operand=v), self)
            if g is not None:
                mn = g if mn is None else max(mn, g)
        return mn


def _len_guard(e: ast.AST, fm: FillModel) -> Optional[int]:
    """len(buf) > c  ->  c+1 ; len(buf) >= c -> c ; c < len(buf) ..."""
    neg = False
    while isinstance(e, ast.UnaryOp) and isinstance(e.op, ast.Not):
        e = e.operand
        neg = not neg
    if not (isinstance(e, ast.Compare) and len(e.ops) == 1):
        return None
    l, op, r = e.left, e.ops[0], e.comparators[0]
    if neg:
        inv = {ast.Lt: ast.GtE, ast.LtE: ast.Gt, ast.Gt: ast.LtE, ast.GtE: ast.Lt, ast.Eq: ast.NotEq, ast.NotEq: ast.Eq}
        if type(op) not in inv:
            return None
        op = inv[type(op)]()

    def is_len(x):
        return isinstance(x, ast.Call) and isinstance(x.func, ast.Name) and x.func.id == "len" and x.args and (attr_chain(x.args[0]) is not None) and fm._is_buf(attr_chain(x.args[0]))

    def const(x):
        return x.value if isinstance(x, ast.Constant) and isinstance(x.value, int) else None

    if is_len(l) and const(r) is not None:
        c = const(r)
        if isinstance(op, ast.Gt):
            return c + 1
        if isinstance(op, ast.GtE):
            return c
        if isinstance(op, ast.Eq):
            return c
    if is_len(r) and const(l) is not None:
        c = const(l)
        if isinstance(op, ast.Lt):
            return c + 1
        if isinstance(op, ast.LtE):
            return c
    return None
