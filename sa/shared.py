"""Shared-mutable-state audit (C12 / C15): module-level and class-level bindings
to mutable objects may only be *read* from function bodies."""
from __future__ import annotations

import ast
from typing import Dict, List, Optional, Set, Tuple

from .model import Module, Repo, attr_chain, norm, short, walk_local

MUTATORS = {
    "append", "appendleft", "extend", "extendleft", "insert", "add", "update", "pop", "popleft", "popitem", "remove", "discard",
    "clear", "setdefault", "sort", "reverse", "__setitem__", "__delitem__", "push_state", "pop_state", "input", "begin", "skip",
}
READERS = {"get", "keys", "values", "items", "copy", "count", "index", "startswith", "endswith", "format", "join", "match", "sub", "split",
           "search", "fullmatch", "findall", "issubset", "issuperset", "union", "intersection", "difference", "clone"}
PURE_FUNCS = {"len", "sorted", "list", "set", "tuple", "frozenset", "dict", "iter", "enumerate", "reversed", "any", "all", "min", "max", "sum", "isinstance", "repr", "str", "bool", "print"}
IMMUTABLE_CTORS = {"str", "int", "float", "bool", "tuple", "frozenset", "bytes", "compile", "TypeVar", "NamedTuple", "namedtuple", "Union", "Optional"}


class Shared:
    def __init__(self, module: str, owner: Optional[str], name: str, node: ast.AST, kind: str):
        self.module = module
        self.owner = owner  # class name or None
        self.name = name
        self.node = node
        self.kind = kind  # 'literal' | 'instance' | 'derived'

    @property
    def key(self) -> str:
        return f"{self.module}:{self.owner + '.' if self.owner else ''}{self.name}"


def _is_mutable_value(v: ast.AST) -> Optional[str]:
    if isinstance(v, (ast.Set, ast.Dict, ast.List, ast.ListComp, ast.SetComp, ast.DictComp)):
        return "literal"
    if isinstance(v, ast.BinOp) and isinstance(v.op, (ast.BitOr, ast.Add, ast.Sub, ast.BitAnd)):
        l, r = _is_mutable_value(v.left), _is_mutable_value(v.right)
        if l or r or isinstance(v.left, ast.Name) or isinstance(v.right, ast.Name):
            return "derived" if not (isinstance(v.left, ast.Constant) and isinstance(v.right, ast.Constant)) else None
    if isinstance(v, ast.Call):
        nm = (attr_chain(v.func) or ("?",))[-1]
        if nm in IMMUTABLE_CTORS:
            return None
        if nm in ("list", "set", "dict", "deque", "defaultdict", "OrderedDict"):
            return "literal"
        if nm and nm.lstrip("_")[:1].isupper():
            return "instance"
        if nm in ("fromkeys", "lex"):
            return "literal"
        return None
    return None


def collect(repo: Repo, modules: Optional[List[str]] = None) -> List[Shared]:
    out: List[Shared] = []
    for mname, mod in repo.modules.items():
        if modules is not None and mname not in modules:
            continue

        def scan(body, owner):
            for st in body:
                tgts = []
                val = None
                if isinstance(st, ast.Assign):
                    tgts, val = st.targets, st.value
                elif isinstance(st, ast.AnnAssign) and st.value is not None:
                    tgts, val = [st.target], st.value
                elif isinstance(st, ast.If) and owner is None:
                    scan(st.body, owner)
                    scan(st.orelse, owner)
                    continue
                elif isinstance(st, ast.Try) and owner is None:
                    scan(st.body, owner)
                    continue
                for t in tgts:
                    if isinstance(t, ast.Name) and val is not None:
                        k = _is_mutable_value(val)
                        # generic aliases / typing constructs are not objects of interest
                        if k and not (isinstance(val, ast.Subscript)):
                            if isinstance(val, ast.Call) and (attr_chain(val.func) or ("",))[0] == "typing":
                                continue
                            out.append(Shared(mname, owner, t.id, st, k))
                if isinstance(st, ast.ClassDef) and owner is None:
                    scan(st.body, st.name)

        scan(mod.tree.body, None)
    return out


def _index(repo: Repo):
    idx = getattr(repo, "_shared_index", None)
    if idx is None:
        idx = {}
        for mname, mod in repo.modules.items():
            for qual, fn in mod.functions():
                for x in walk_local(fn):
                    if isinstance(x, ast.Name):
                        idx.setdefault(x.id, []).append((mod, qual, fn, x))
                    elif isinstance(x, ast.Attribute):
                        idx.setdefault(x.attr, []).append((mod, qual, fn, x))
        repo._shared_index = idx  # type: ignore[attr-defined]
    return idx


def uses(repo: Repo, sh: Shared) -> List[Tuple[Module, str, ast.AST, str, bool]]:
    """(module, function qualname, node, description, ok) for every use of the
    shared object inside a function body anywhere in the package."""
    res = []
    idx = _index(repo)
    cands = idx.get(sh.name, [])
    by_fn: Dict[Tuple[str, str], List] = {}
    for mod, qual, fn, x in cands:
        by_fn.setdefault((mod.name, qual), []).append((mod, qual, fn, x))
    for (mname, qual), items in by_fn.items():
        mod, _, fn, _ = items[0]
        cls_of_fn = qual.split(".")[0] if "." in qual else None
        aliases: Set[str] = set()
        refs = []
        for _, _, _, x in items:
            if _refers(mod, x, sh, mname, cls_of_fn):
                refs.append(x)
                par = mod.parent.get(x)
                if isinstance(par, ast.Assign) and par.value is x and all(isinstance(t, ast.Name) for t in par.targets):
                    for t in par.targets:
                        aliases.add(t.id)
        nodes = list(refs)
        if aliases:
            for a in aliases:
                for m2, q2, f2, y in idx.get(a, []):
                    if f2 is fn and isinstance(y, ast.Name) and isinstance(y.ctx, ast.Load):
                        nodes.append(y)
        for x in nodes:
            par = mod.parent.get(x)
            desc, ok = _classify(mod, x, par, aliases)
            res.append((mod, qual, x, desc, ok))
    return res


def _refers(mod: Module, x: ast.AST, sh: Shared, mname: str, cls_of_fn: Optional[str]) -> bool:
    if sh.owner is None:
        if isinstance(x, ast.Name) and x.id == sh.name and mname == sh.module:
            # a local of the same name shadows it only if assigned in the function: treated by caller as alias-less
            return not _is_local(mod, x)
        if isinstance(x, ast.Attribute) and x.attr == sh.name and isinstance(x.value, ast.Name) and x.value.id in ("lexer", sh.module.split(".")[-1]):
            return True
        if isinstance(x, ast.Name) and x.id == sh.name and mname != sh.module:
            # imported by name?
            for st in mod.tree.body:
                if isinstance(st, ast.ImportFrom) and any((a.asname or a.name) == sh.name for a in st.names) and (st.module or "").split(".")[-1] == sh.module.split(".")[-1]:
                    return not _is_local(mod, x)
        return False
    if isinstance(x, ast.Attribute) and x.attr == sh.name and isinstance(x.value, ast.Name):
        b = x.value.id
        if b in ("self", "cls") and _class_has(mod, cls_of_fn, sh):
            return True
        if b == sh.owner:
            return True
    return False


def _class_has(mod: Module, cls_of_fn: Optional[str], sh: Shared) -> bool:
    """The function's class is (a subclass of) the owner, in the owner's module."""
    if cls_of_fn is None or mod.name != sh.module:
        return False
    seen = set()
    cur = [cls_of_fn]
    while cur:
        c = cur.pop()
        if c in seen or not mod.has_cls(c):
            continue
        seen.add(c)
        if c == sh.owner:
            return True
        cur += [b.id for b in mod.cls(c).bases if isinstance(b, ast.Name)]
    return False


def _is_local(mod: Module, x: ast.Name) -> bool:
    fn = mod.enclosing_function(x)
    if fn is None:
        return False
    if any(a.arg == x.id for a in fn.args.args + fn.args.kwonlyargs):
        return True
    for st in walk_local(fn):
        if isinstance(st, ast.Assign) and any(isinstance(t, ast.Name) and t.id == x.id for t in st.targets):
            return True
        if isinstance(st, (ast.Global,)) and x.id in st.names:
            return False
    return False


def _classify(mod: Module, x: ast.AST, par: Optional[ast.AST], aliases: Set[str]) -> Tuple[str, bool]:
    if isinstance(x, (ast.Name, ast.Attribute)) and isinstance(getattr(x, "ctx", None), (ast.Store, ast.Del)):
        return ("rebound", False) if isinstance(x, ast.Name) else ("attribute rebound", False)
    if par is None:
        return ("?", True)
    if isinstance(par, ast.Assign) and par.value is x and all(isinstance(t, ast.Name) for t in par.targets):
        return ("aliased by a local", True)  # the alias itself is audited
    if isinstance(par, ast.Assign) and par.value is x:
        return (f"stored into `{short(par.targets[0], 30)}`", False)
    if isinstance(par, (ast.Compare,)):
        return ("compared / membership", True)
    if isinstance(par, ast.Attribute) and par.value is x:
        gp = mod.parent.get(par)
        if isinstance(getattr(par, "ctx", None), (ast.Store, ast.Del)):
            return (f"attribute store `.{par.attr}`", False)
        if isinstance(gp, ast.Call) and gp.func is par:
            if par.attr in MUTATORS:
                return (f"mutating call .{par.attr}()", False)
            return (f"call .{par.attr}()", True)
        if isinstance(gp, ast.Attribute) and isinstance(getattr(gp, "ctx", None), ast.Store):
            return ("nested attribute store", False)
        if isinstance(gp, (ast.AugAssign,)) and gp.target is par:
            return (f"augmented assignment to .{par.attr}", False)
        return (f"attribute read .{par.attr}", True)
    if isinstance(par, ast.Subscript) and par.value is x:
        if isinstance(par.ctx, (ast.Store, ast.Del)):
            return ("item store", False)
        return ("item read", True)
    if isinstance(par, ast.AugAssign) and par.target is x:
        return ("augmented assignment", False)
    if isinstance(par, ast.Call):
        fn = par.func
        nm = (attr_chain(fn) or ("?",))[-1]
        if x in par.args or any(k.value is x for k in par.keywords):
            if isinstance(fn, ast.Name) and nm in PURE_FUNCS:
                return (f"argument of {nm}()", True)
            if nm in ("token_if_in_set", "fromkeys", "join", "isinstance", "get", "update", "issubset", "match", "sub", "split", "_consume_balanced_tokens"):
                return (f"argument of {nm}()", True)
            if nm and nm[0].isupper():
                return (f"handed to the constructor {nm}(...)", False)
            return (f"argument of {nm}()", False)
    if isinstance(par, ast.Starred):
        return ("unpacked as arguments", True)
    if isinstance(par, (ast.For, ast.comprehension)) and getattr(par, "iter", None) is x:
        return ("iterated", True)
    if isinstance(par, ast.Return):
        return ("returned", False)
    if isinstance(par, (ast.BoolOp, ast.UnaryOp, ast.If, ast.While, ast.IfExp)):
        return ("truth-tested", True)
    if isinstance(par, ast.BinOp):
        return ("operand of a pure operator", True)
    if isinstance(par, (ast.Tuple, ast.List, ast.Set, ast.Dict)):
        return ("placed in a container", False)
    if isinstance(par, ast.keyword):
        gp = mod.parent.get(par)
        nm = (attr_chain(gp.func) or ("?",))[-1] if isinstance(gp, ast.Call) else "?"
        if nm and nm[0].isupper():
            return (f"handed to the constructor {nm}(...)", False)
        return (f"keyword argument of {nm}()", nm in ("_consume_balanced_tokens",))
    if isinstance(par, ast.Expr):
        return ("bare expression", True)
    return (f"used in {type(par).__name__}", False)
