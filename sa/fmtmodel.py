"""Partial evaluation of the format()/format_decl() methods of types.py over a
finite shape domain.

Every dataclass field is abstracted by its annotation: bools are enumerated,
optional fields are None or a placeholder, lists have 0/1/2 placeholder
elements, a child node is one placeholder object per class of its Union.  The
method body (assignments, if/else, f-strings, conditional expressions,
", ".join(...) over a list field, isinstance on a child) is interpreted on
those values and yields a *template*: the output text with placeholders such as
<Array.decl((* N))> for "the child's format_decl called with '(* N)'".
Nothing from the package is imported or run; what is evaluated is the AST."""
from __future__ import annotations

import ast
import itertools
from typing import Any, Dict, Iterable, List, Optional, Tuple

from .model import AnalysisError, Module, annotation_names, attr_chain, norm


class Sym:
    """An opaque string-valued placeholder."""

    def __init__(self, text: str):
        self.text = text

    def __repr__(self) -> str:
        return self.text


class Obj:
    """A placeholder object of a known class (a child node, a list element).  Its own
    fields are decided lazily, only when the evaluated method looks at them."""

    def __init__(self, cls: str, tag: Optional[str] = None, preset: Optional[Dict[str, Any]] = None, chain: Tuple[str, ...] = ()):
        self.cls = cls
        self.base_tag = tag or cls
        self.preset = preset or {}
        self.chain = chain + (cls,)          # classes from the outermost placeholder down to this one
        self.sub: Dict[str, Any] = {k: _fresh(v) for k, v in self.preset.items()}

    @property
    def tag(self) -> str:
        if not self.sub:
            return self.base_tag
        inner = ",".join(f"{k}={_short(v)}" for k, v in sorted(self.sub.items()))
        return f"{self.base_tag}{{{inner}}}"

    def fresh(self) -> "Obj":
        return Obj(self.cls, self.base_tag, self.preset, self.chain[:-1])

    def __repr__(self) -> str:
        return f"<{self.tag}>"


def _short(v: Any) -> str:
    if isinstance(v, Obj):
        return v.cls + (("{" + ",".join(f"{k}={_short(x)}" for k, x in sorted(v.sub.items())) + "}") if v.sub else "")
    if isinstance(v, list):
        return f"[{len(v)}]"
    return repr(v)


def _fresh(v: Any) -> Any:
    if isinstance(v, Obj):
        return v.fresh()
    if isinstance(v, list):
        return [_fresh(x) for x in v]
    return v


MAX_SAME = 2


class SelfObj:
    def __init__(self, cls: str, fields: Dict[str, Any]):
        self.cls = cls
        self.fields = fields


class _Return(Exception):
    def __init__(self, v):
        self.v = v


def _parse_ann(a: ast.AST) -> ast.AST:
    if isinstance(a, ast.Constant) and isinstance(a.value, str):
        try:
            return ast.parse(a.value, mode="eval").body
        except SyntaxError:
            return a
    return a


class _Sentinel:
    """a module-level `object()`: equal and identical only to itself"""

    def __init__(self, name: str):
        self.name = name

    def __repr__(self) -> str:
        return f"<sentinel {self.name}>"


_SENTINELS: Dict[str, "_Sentinel"] = {}


class FmtModel:
    def __init__(self, types: Module):
        self.m = types
        self.classes = {c: n for c, n in types.classes()}
        self.aliases: Dict[str, List[str]] = {}
        for st in types.tree.body:
            if isinstance(st, ast.Assign) and len(st.targets) == 1 and isinstance(st.targets[0], ast.Name) and isinstance(st.value, ast.Subscript):
                self.aliases[st.targets[0].id] = [n for n in annotation_names(st.value) if n in self.classes or n == "None"]

    # ------------------------------------------------------------- fields
    def fields(self, cls: str) -> List[Tuple[str, ast.AST, bool]]:
        """(name, annotation, compare) in declaration order, bases first."""
        out: List[Tuple[str, ast.AST, bool]] = []
        node = self.classes[cls]
        for b in node.bases:
            if isinstance(b, ast.Name) and b.id in self.classes:
                out += self.fields(b.id)
        for st in node.body:
            if isinstance(st, ast.AnnAssign) and isinstance(st.target, ast.Name):
                compare = True
                if isinstance(st.value, ast.Call) and norm(st.value.func).endswith("field"):
                    for k in st.value.keywords:
                        if k.arg == "compare" and isinstance(k.value, ast.Constant) and k.value.value is False:
                            compare = False
                out.append((st.target.id, st.annotation, compare))
        return out

    def expand(self, names: List[str]) -> List[str]:
        out: List[str] = []
        for n in names:
            if n in self.aliases:
                out += self.expand(self.aliases[n])
            else:
                out.append(n)
        return out

    def domain(self, fname: str, ann: ast.AST) -> List[Any]:
        a = _parse_ann(ann)
        if isinstance(a, ast.Subscript):
            head = annotation_names(a.value)
            h = head[0] if head else ""
            if h in ("List", "Sequence"):
                el = self.expand(annotation_names(a.slice))
                ecls = el[0] if el and el[0] in self.classes else None

                def mk(i):
                    return Obj(ecls, f"{fname}#{i}") if ecls else Sym(f"<{fname}#{i}>")
                return [[], [mk(1)], [mk(1), mk(2)]]
        names = self.expand(annotation_names(a))
        vals: List[Any] = []
        for n in names:
            if n == "None":
                vals.append(None)
            elif n == "bool":
                vals += [False, True]
            elif n in ("str", "int"):
                vals.append(Sym(f"<{fname}>"))
            elif n in self.classes:
                vals.append(Obj(n, f"{fname}:{n}"))
            else:
                vals.append(Sym(f"<{fname}>"))
        # de-duplicate, keep order
        seen = []
        for v in vals:
            if not any(v is s or (type(v) in (bool, type(None)) and v == s and type(s) is type(v)) for s in seen):
                seen.append(v)
        return seen

    def assignments(self, cls: str) -> Tuple[List[str], List[Tuple[Any, ...]]]:
        fs = self.fields(cls)
        names = [f for f, _, _ in fs]
        doms = [self.domain(f, a) for f, a, _ in fs]
        return names, list(itertools.product(*doms))

    def _find_method(self, cls: str, meth: str) -> Optional[ast.FunctionDef]:
        node = self.classes.get(cls)
        if node is None:
            return None
        for f in node.body:
            if isinstance(f, ast.FunctionDef) and f.name == meth:
                return f
        for b in node.bases:
            if isinstance(b, ast.Name):
                r = self._find_method(b.id, meth)
                if r is not None:
                    return r
        return None

    def has_method(self, cls: str, meth: str) -> bool:
        return self._find_method(cls, meth) is not None

    # ------------------------------------------------------------- evaluation
    def call_all(self, cls: str, meth: str, fields: Dict[str, Any], args: List[Any]) -> List[Tuple[Dict[str, Any], str]]:
        """Evaluate under every combination of lazily decided sub-fields of the child
        placeholders the method looks at.  Returns [(fields as seen, output)]."""
        results = []
        pending: List[List[int]] = [[]]
        seen = set()
        while pending:
            choices = pending.pop()
            self._choices = list(choices)
            self._trace: List[int] = []
            fresh = {k: _fresh(v) for k, v in fields.items()}
            out = self.call(cls, meth, fresh, [_fresh(a) for a in args])
            key = tuple(self._trace)
            taken = tuple((self._choices + [0] * len(self._trace))[: len(self._trace)])
            if taken in seen:
                continue
            seen.add(taken)
            results.append((fresh, out))
            # schedule the alternatives of every choice point met on this run
            for i, size in enumerate(self._trace):
                for alt in range(1, size):
                    if i >= len(choices):
                        nxt = list(taken[:i]) + [alt]
                        if tuple(nxt) not in seen:
                            pending.append(nxt)
            if len(results) > 5000:
                raise AnalysisError("shape enumeration exceeded its budget")
        self._choices = []
        return results

    def _decide(self, obj: "Obj", attr: str) -> Any:
        if attr in obj.sub:
            return obj.sub[attr]
        ann = None
        for f, a, _ in self.fields(obj.cls):
            if f == attr:
                ann = a
        if ann is None:
            return Sym(f"<{obj.tag}.{attr}>")
        dom = self.domain(f"{obj.base_tag}.{attr}", ann)
        # bound the nesting: a class that already occurs MAX_SAME times on the way down is not offered again
        bounded = [d for d in dom if not (isinstance(d, Obj) and obj.chain.count(d.cls) >= MAX_SAME)]
        if bounded:
            dom = bounded
        for d in dom:
            if isinstance(d, Obj):
                d.chain = obj.chain + (d.cls,)
        i = len(getattr(self, "_trace", []))
        pick = self._choices[i] if i < len(getattr(self, "_choices", [])) else 0
        if not hasattr(self, "_trace"):
            self._trace = []
        self._trace.append(len(dom))
        v = _fresh(dom[min(pick, len(dom) - 1)])
        obj.sub[attr] = v
        return v

    def call(self, cls: str, meth: str, fields: Dict[str, Any], args: List[Any]) -> str:
        fn = self._find_method(cls, meth)
        if fn is None:
            raise AnalysisError(f"no method {cls}.{meth}")
        env: Dict[str, Any] = {"self": SelfObj(cls, fields)}
        for a, v in zip(fn.args.args[1:], args):
            env[a.arg] = v
        try:
            self._block(fn.body, env)
        except _Return as r:
            return r.v if isinstance(r.v, (bool, list)) else self._str(r.v)
        raise AnalysisError(f"{cls}.{meth} can finish without returning")

    def _str(self, v: Any) -> str:
        if isinstance(v, str):
            return v
        if isinstance(v, Sym):
            return v.text
        if v is None:
            return "None"
        raise AnalysisError(f"format method returns a non-string: {v!r}")

    def _block(self, body: List[ast.stmt], env: Dict[str, Any]) -> None:
        for st in body:
            if isinstance(st, ast.Expr) and isinstance(st.value, ast.Constant):
                continue
            if isinstance(st, ast.Return):
                raise _Return(self._ev(st.value, env))
            if isinstance(st, ast.Assign) and len(st.targets) == 1 and isinstance(st.targets[0], ast.Name):
                env[st.targets[0].id] = self._ev(st.value, env)
                continue
            if isinstance(st, ast.Assign) and len(st.targets) == 1 and isinstance(st.targets[0], (ast.Tuple, ast.List)) and all(isinstance(t_, ast.Name) for t_ in st.targets[0].elts):
                v_ = self._ev(st.value, env)
                if isinstance(v_, (tuple, list)) and len(v_) == len(st.targets[0].elts):
                    for t_, x_ in zip(st.targets[0].elts, v_):
                        env[t_.id] = x_
                    continue
            if isinstance(st, ast.If):
                self._block(st.body if self._truth(self._ev(st.test, env)) else st.orelse, env)
                continue
            if isinstance(st, ast.AnnAssign) and isinstance(st.target, ast.Name):
                if st.value is not None:
                    env[st.target.id] = self._ev(st.value, env)
                continue
            if isinstance(st, ast.AugAssign) and isinstance(st.target, ast.Name) and isinstance(st.op, ast.Add):
                cur = env.get(st.target.id)
                add = self._ev(st.value, env)
                env[st.target.id] = (cur + add) if isinstance(cur, list) and isinstance(add, list) else self._str(cur) + self._str(add)
                continue
            if isinstance(st, ast.For) and not st.orelse and isinstance(st.target, ast.Name):
                seq = self._ev(st.iter, env)
                if not isinstance(seq, list):
                    raise AnalysisError(f"loop over a non-list in a format method: {norm(st.iter)[:50]}")
                for item in seq:
                    env[st.target.id] = item
                    self._block(st.body, env)
                continue
            if isinstance(st, ast.Expr) and isinstance(st.value, ast.Call) and isinstance(st.value.func, ast.Attribute) and st.value.func.attr in ("append", "extend") \
                    and isinstance(st.value.func.value, ast.Name) and isinstance(env.get(st.value.func.value.id), list) and len(st.value.args) == 1:
                v = self._ev(st.value.args[0], env)
                lst = env[st.value.func.value.id]
                if st.value.func.attr == "append":
                    lst.append(v if isinstance(v, (list, bool)) or v is None else self._str(v))
                else:
                    lst.extend(v)
                continue
            if isinstance(st, ast.Pass):
                continue
            if isinstance(st, ast.While) and not st.orelse:
                n = 0
                while self._truth(self._ev(st.test, env)):
                    self._block(st.body, env)
                    n += 1
                    if n > 16:
                        raise AnalysisError(f"loop in a format helper does not finish on the bounded shape domain: {norm(st.test)[:60]}")
                continue
            raise AnalysisError(f"statement shape not modelled in a format method: {norm(st)[:60]}")

    def _truth(self, v: Any) -> bool:
        if isinstance(v, (Sym, Obj, SelfObj)):
            return True
        return bool(v)

    def _ev(self, e: ast.AST, env: Dict[str, Any]) -> Any:
        if isinstance(e, ast.Constant):
            return e.value
        if isinstance(e, ast.Name):
            if e.id in env:
                return env[e.id]
            # a module-level name bound once to a constant or to a fresh `object()` (a sentinel compared with `is`)
            binds = [st for st in self.m.tree.body if isinstance(st, (ast.Assign, ast.AnnAssign)) and getattr(st, "value", None) is not None
                     and any(isinstance(t, ast.Name) and t.id == e.id for t in (st.targets if isinstance(st, ast.Assign) else [st.target]))]
            if len(binds) == 1:
                v = binds[0].value
                if isinstance(v, ast.Constant):
                    return v.value
                if isinstance(v, ast.Call) and isinstance(v.func, ast.Name) and v.func.id == "object" and not v.args and not v.keywords:
                    return _SENTINELS.setdefault(e.id, _Sentinel(e.id))
            raise AnalysisError(f"unbound name {e.id} in a format method")
        if isinstance(e, ast.Attribute):
            base = self._ev(e.value, env)
            if isinstance(base, SelfObj):
                if e.attr in base.fields:
                    return base.fields[e.attr]
                # property (ClassDecl.classkey) - not used by format methods
                raise AnalysisError(f"{base.cls}.{e.attr} is not a field")
            if isinstance(base, Obj):
                if base.cls in self.classes:
                    return self._decide(base, e.attr)
                return Sym(f"<{base.tag}.{e.attr}>")
            raise AnalysisError(f"attribute access not modelled: {norm(e)}")
        if isinstance(e, ast.List):
            return [self._ev(x, env) for x in e.elts]
        if isinstance(e, ast.JoinedStr):
            parts = []
            for v in e.values:
                if isinstance(v, ast.Constant):
                    parts.append(str(v.value))
                elif isinstance(v, ast.FormattedValue):
                    parts.append(self._str(self._ev(v.value, env)))
            return "".join(parts)
        if isinstance(e, ast.IfExp):
            return self._ev(e.body if self._truth(self._ev(e.test, env)) else e.orelse, env)
        if isinstance(e, ast.BoolOp):
            # short-circuit, as Python does (a later operand may only be meaningful
            # once an earlier isinstance has narrowed the object)
            v = None
            for sub in e.values:
                v = self._ev(sub, env)
                if isinstance(e.op, ast.And) and not self._truth(v):
                    return v
                if isinstance(e.op, ast.Or) and self._truth(v):
                    return v
            return v
        if isinstance(e, ast.UnaryOp) and isinstance(e.op, ast.Not):
            return not self._truth(self._ev(e.operand, env))
        if isinstance(e, ast.BinOp) and isinstance(e.op, ast.Add):
            l_, r_ = self._ev(e.left, env), self._ev(e.right, env)
            if isinstance(l_, list) and isinstance(r_, list):
                return l_ + r_
            return self._str(l_) + self._str(r_)
        if isinstance(e, ast.BinOp) and isinstance(e.op, ast.Mod):
            # "<%s>" % x  /  "%s %s" % (a, b): only the %s conversion (and %%) on a constant-shaped format string
            fmt = self._ev(e.left, env)
            if isinstance(fmt, str):
                vals = [self._ev(x, env) for x in e.right.elts] if isinstance(e.right, ast.Tuple) else [self._ev(e.right, env)]
                pieces = fmt.replace("%%", "\x00").split("%s")
                if len(pieces) == len(vals) + 1 and not any("%" in p_ for p_ in pieces):
                    out_ = pieces[0]
                    for v_, p_ in zip(vals, pieces[1:]):
                        out_ += self._str(v_) + p_
                    return out_.replace("\x00", "%")
            raise AnalysisError(f"expression shape not modelled in a format method: {norm(e)[:70]}")
        if isinstance(e, ast.Tuple):
            return tuple(self._ev(x, env) for x in e.elts)
        if isinstance(e, ast.Subscript) and not isinstance(e.slice, ast.Slice):
            base_ = self._ev(e.value, env)
            k_ = self._ev(e.slice, env)
            if isinstance(base_, (list, tuple)) and isinstance(k_, int) and -len(base_) <= k_ < len(base_):
                return base_[k_]
        if isinstance(e, ast.Compare) and len(e.ops) == 1:
            l, r = self._ev(e.left, env), self._ev(e.comparators[0], env)
            if isinstance(e.ops[0], ast.Is):
                return l is r
            if isinstance(e.ops[0], ast.IsNot):
                return l is not r
            raise AnalysisError(f"comparison not modelled: {norm(e)}")
        if isinstance(e, ast.Call):
            f = e.func
            if isinstance(f, ast.Name) and f.id == "isinstance":
                v = self._ev(e.args[0], env)
                names = annotation_names(e.args[1]) if not isinstance(e.args[1], ast.Tuple) else [x for el in e.args[1].elts for x in annotation_names(el)]
                names = self.expand(names)
                if isinstance(v, (Obj, SelfObj)):
                    return v.cls in names
                if v is None:
                    return False
                raise AnalysisError(f"isinstance on a non-object in a format method: {norm(e)}")
            if isinstance(f, ast.Name) and self.m.has_func(f.id) and f.id != "tokfmt":
                fn = self.m.func(f.id)
                env2: Dict[str, Any] = {}
                for a, x in zip(fn.args.args, e.args):
                    env2[a.arg] = self._ev(x, env)
                try:
                    self._block(fn.body, env2)
                except _Return as r:
                    return r.v
                return None
            if isinstance(f, ast.Name) and f.id == "tokfmt":
                v = self._ev(e.args[0], env)
                if isinstance(v, list):
                    return Sym("<tokfmt(" + " ".join(repr(x) for x in v) + ")>")
                return Sym("<tokfmt>")
            if isinstance(f, ast.Attribute):
                if f.attr == "join" and isinstance(f.value, ast.Constant) and not isinstance(e.args[0], (ast.GeneratorExp, ast.ListComp)):
                    seq = self._ev(e.args[0], env)
                    if not isinstance(seq, list):
                        raise AnalysisError(f"join over a non-list: {norm(e)}")
                    return str(f.value.value).join(self._str(x) for x in seq)
                if f.attr == "join" and isinstance(f.value, ast.Constant):
                    it = e.args[0]
                    if isinstance(it, (ast.GeneratorExp, ast.ListComp)) and len(it.generators) == 1 and isinstance(it.generators[0].target, ast.Name):
                        g = it.generators[0]
                        seq = self._ev(g.iter, env)
                        if not isinstance(seq, list):
                            raise AnalysisError(f"join over a non-list: {norm(e)}")
                        out = []
                        for x in seq:
                            env2 = dict(env)
                            env2[g.target.id] = x
                            out.append(self._str(self._ev(it.elt, env2)))
                        return str(f.value.value).join(out)
                recv = self._ev(f.value, env)
                if isinstance(recv, Obj) and f.attr == "format" and not e.args:
                    return Sym(f"<{recv.tag}.format>")
                if isinstance(recv, Obj) and f.attr == "format_decl" and len(e.args) == 1:
                    return Sym(f"<{recv.tag}.decl({self._str(self._ev(e.args[0], env))})>")
                if isinstance(recv, SelfObj) and self._find_method(recv.cls, f.attr) is not None:
                    return self.call(recv.cls, f.attr, recv.fields, [self._ev(a, env) for a in e.args])
        raise AnalysisError(f"expression shape not modelled in a format method: {norm(e)[:70]}")
