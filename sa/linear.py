"""LINEAR -- every token a collector obtains is placed exactly once (into the
accumulator, back into the stream, or returned to the caller) before its
variable is overwritten or the function ends."""
from __future__ import annotations

import ast
from typing import Dict, FrozenSet, List, Optional, Set, Tuple

from .cfg import CFG, Node
from .model import AnalysisError, attr_chain, norm, short, walk_local
from .pmodel import LEX_CONSUME, ParserModel

COLLECTORS = [
    "_consume_until",
    "_consume_value_until",
    "_consume_balanced_tokens",
    "_parse_requires",
    "_parse_requires_segment",
    "_parse_pqname_name_operator",
    "_process_pragma_directive",
]

# callees that take ownership of a token passed to them (they place it themselves)
OWNING_CALLEES = {"_consume_balanced_tokens", "_parse_requires_segment"}
# callees that return a token the caller then owns
RETURNING_CALLEES = {"_next_token_must_be", "_parse_requires_segment"}


class Finding:
    def __init__(self, kind: str, fname: str, var: str, origin: ast.AST, at: ast.AST, text: str):
        self.kind = kind
        self.fname = fname
        self.var = var
        self.origin = origin
        self.at = at
        self.text = text


def _is_acq(pm: ParserModel, fname: str, v: ast.AST) -> bool:
    if not isinstance(v, ast.Call):
        return False
    r = pm.resolve(fname, v)
    if r is None:
        return False
    if r[0] == "lex" and r[1] in LEX_CONSUME:
        return True
    if r[0] == "self" and r[1] in RETURNING_CALLEES:
        return True
    return False


def _placements(pm: ParserModel, fname: str, n: Node, var: str) -> List[str]:
    """How node n places the token held in `var` (possibly several times)."""
    out = []
    st = n.stmt
    for e in n.exprs():
        for c in walk_local(e):
            if isinstance(c, ast.Call):
                f = c.func
                nm = f.attr if isinstance(f, ast.Attribute) else (f.id if isinstance(f, ast.Name) else "")
                r = pm.resolve(fname, c)
                direct = [a for a in c.args if isinstance(a, ast.Name) and a.id == var]
                starred = [a for a in c.args if isinstance(a, ast.Starred) and isinstance(a.value, ast.Name) and a.value.id == var]
                if not direct and not starred:
                    continue
                if nm in ("append", "appendleft") and isinstance(f, ast.Attribute):
                    out.append("append")
                elif r == ("lex", "return_token"):
                    out.append("return_token")
                elif r and r[0] == "self" and r[1] in OWNING_CALLEES:
                    out.append(r[1])
                elif nm in ("list", "deque") and not isinstance(f, ast.Attribute):
                    out.append("list")
            elif isinstance(c, ast.List) and any(isinstance(a, ast.Name) and a.id == var for a in c.elts):
                out.append("list-literal")
    if n.kind == "stmt" and isinstance(st, ast.Return) and isinstance(st.value, ast.Name) and st.value.id == var:
        out.append("return")
    return out


def _none_edge(n: Node, var: str) -> Optional[str]:
    """Edge label on which `var` is known to be None / falsy."""
    c = n.cond
    if n.kind != "test" or c is None:
        return None
    if isinstance(c, ast.Compare) and isinstance(c.left, ast.Name) and c.left.id == var and len(c.ops) == 1 and isinstance(c.comparators[0], ast.Constant) and c.comparators[0].value is None:
        return "T" if isinstance(c.ops[0], ast.Is) else ("F" if isinstance(c.ops[0], ast.IsNot) else None)
    if isinstance(c, ast.UnaryOp) and isinstance(c.op, ast.Not) and isinstance(c.operand, ast.Name) and c.operand.id == var:
        return "T"
    if isinstance(c, ast.Name) and c.id == var:
        return "F"
    # `not tok or tok.type == "NEWLINE"`: T edge covers None; handled by layout test below
    return None


def _layout_edge(n: Node, var: str, layout: Set[str]) -> Optional[str]:
    """Edge on which the token is None or a layout (discardable) token:
    `not tok or tok.type == "NEWLINE"` -> 'T'."""
    c = n.cond
    if n.kind != "test" or c is None:
        return None

    def is_layout_eq(x):
        return (isinstance(x, ast.Compare) and attr_chain(x.left) == (var, "type") and len(x.ops) == 1 and isinstance(x.ops[0], ast.Eq)
                and isinstance(x.comparators[0], ast.Constant) and x.comparators[0].value in layout)

    def is_nl_end(x):
        # `tok.value.endswith("\n")`: only layout tokens can end with a newline (checked by the caller against the lexer model)
        return ("<ends-with-newline>" in layout and isinstance(x, ast.Call) and attr_chain(x.func) == (var, "value", "endswith")
                and len(x.args) == 1 and isinstance(x.args[0], ast.Constant) and x.args[0].value == "\n")

    def is_none(x):
        return (isinstance(x, ast.UnaryOp) and isinstance(x.op, ast.Not) and isinstance(x.operand, ast.Name) and x.operand.id == var) or (
            isinstance(x, ast.Compare) and isinstance(x.left, ast.Name) and x.left.id == var and isinstance(x.ops[0], ast.Is) and isinstance(x.comparators[0], ast.Constant) and x.comparators[0].value is None)

    def covers(x: ast.AST, truth: bool) -> bool:
        """when x evaluates to `truth`, the token is None or a layout token (whatever else holds)"""
        if isinstance(x, ast.UnaryOp) and isinstance(x.op, ast.Not):
            return covers(x.operand, not truth)
        if isinstance(x, ast.BoolOp):
            conj = isinstance(x.op, ast.And)
            if conj == truth:
                return any(covers(v, truth) for v in x.values)   # all operands have this truth value: one of them suffices
            return all(covers(v, truth) for v in x.values)       # some operand has it: every one must imply it
        if isinstance(x, ast.Name) and x.id == var:
            return not truth                                       # falsy token variable = no token
        if isinstance(x, ast.Compare) and isinstance(x.left, ast.Name) and x.left.id == var and len(x.ops) == 1 and isinstance(x.comparators[0], ast.Constant) and x.comparators[0].value is None:
            return (isinstance(x.ops[0], ast.Is) and truth) or (isinstance(x.ops[0], ast.IsNot) and not truth)
        if is_layout_eq(x) or is_nl_end(x):
            return truth
        if isinstance(x, ast.Compare) and attr_chain(x.left) == (var, "type") and len(x.ops) == 1 and isinstance(x.ops[0], ast.NotEq) and isinstance(x.comparators[0], ast.Constant) and x.comparators[0].value in layout:
            return not truth
        return False

    if covers(c, True):
        return "T"
    if covers(c, False):
        return "F"
    return None


def analyse(pm: ParserModel, fname: str, layout: Set[str]) -> Tuple[List[Finding], int]:
    fn = pm.fn(fname)
    cfg = pm.cfg(fname)
    findings: List[Finding] = []
    origins: List[Tuple[Node, str]] = []
    for n in cfg.nodes:
        st = n.stmt
        if n.kind == "stmt" and isinstance(st, ast.Assign) and len(st.targets) == 1 and isinstance(st.targets[0], ast.Name) and _is_acq(pm, fname, st.value):
            origins.append((n, st.targets[0].id))
    params = [a.arg for a in fn.args.args[1:]]
    # a `tok` parameter next to an accumulator parameter is an owned token
    if "tok" in params and any(("toks" in p) or p.startswith("r") for p in params if p != "tok") and fname in ("_parse_requires_segment",):
        origins.append((cfg.entry, "tok"))
    steps = 0
    for a, v in origins:
        seen: Set[Tuple[int, str, str]] = set()
        stack: List[Tuple[Node, str, str]] = [(s, v, "H") for s, lab in a.succ if lab != "exc"]
        while stack:
            n, var, state = stack.pop()
            k = (n.id, var, state)
            if k in seen:
                continue
            seen.add(k)
            steps += 1
            if n is cfg.exit:
                if state == "H":
                    findings.append(Finding("drop", fname, var, a.stmt or fn, fn, f"token obtained by `{short(a.stmt) if a.stmt else 'parameter ' + var}` is still held when {fname} returns: it is in neither the value nor the stream"))
                continue
            if n is cfg.raise_exit:
                continue
            st = n.stmt
            le = _layout_edge(n, var, layout)
            ne = _none_edge(n, var)
            # placements (evaluated before any rebinding at the same node)
            pl = _placements(pm, fname, n, var)
            redefined = False
            new_state = state
            for how in pl:
                if new_state == "P":
                    findings.append(Finding("dup", fname, var, a.stmt or fn, st, f"token obtained by `{short(a.stmt) if a.stmt else 'parameter ' + var}` is placed a second time by `{short(st)}` ({how}) without having been re-acquired: it appears twice"))
                new_state = "P"
            if n.kind == "stmt" and isinstance(st, ast.Assign) and any(isinstance(t, ast.Name) and t.id == var for t in st.targets):
                if new_state == "H":
                    findings.append(Finding("drop", fname, var, a.stmt or fn, st, f"`{short(st)}` overwrites the token obtained by `{short(a.stmt) if a.stmt else 'parameter ' + var}` before it was appended, returned to the stream or returned to the caller: the token is dropped from the value"))
                continue  # the new binding is a different origin (analysed on its own)
            for s, lab in n.succ:
                if lab == "exc":
                    continue
                if le is not None and lab == le:
                    continue  # None or layout token: nothing to place
                if ne is not None and lab == ne:
                    continue
                stack.append((s, var, new_state))
    # de-duplicate by (kind, var, site text)
    uniq: Dict[Tuple[str, str, str], Finding] = {}
    for f in findings:
        uniq.setdefault((f.kind, f.var, norm(f.at) if f.at is not None else ""), f)
    return list(uniq.values()), steps
