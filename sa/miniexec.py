"""A very small interpreter for counting / scanning loops, run over an
enumerated abstract input (a script of token classes).

This is abstract interpretation of the *source* of one small function over a
finite domain, in the same spirit as sa/fmtmodel.py: the CFG of the function is
walked with a concrete environment of ints / strings / placeholder tokens;
calls that fetch a token take the next element of the script; anything outside
the tiny supported language raises Unsupported (the rule then reports an
analysis error rather than guessing).  Nothing of the package is imported."""
from __future__ import annotations

import ast
import copy
from typing import Any, Callable, Dict, List, Optional, Tuple

from .cfg import CFG, Node
from .model import AnalysisError, norm


class Unsupported(Exception):
    pass


class OutOfTokens(Exception):
    pass


class Opaque:
    """an object of which nothing is known (self, the lexer): attribute reads give another opaque object"""

    def __repr__(self) -> str:
        return "<opaque>"

    def attr(self, name: str) -> Any:
        return Opaque()


class OpaqueWithConstants(Opaque):
    """`self` of a method: nothing is known of it except the class-level constants that can be folded from the source"""

    def __init__(self, lookup: Callable[[str], Any]):
        self._lookup = lookup

    def attr(self, name: str) -> Any:
        try:
            v = self._lookup(name)
        except Exception:
            return Opaque()
        return v if isinstance(v, (dict, set, frozenset, tuple, list, str, int)) else Opaque()


class Tok:
    __slots__ = ("type", "value", "location", "lineno")

    def __init__(self, type_: str, value: Optional[str] = None):
        self.type = type_
        self.value = value if value is not None else type_
        self.location = None
        self.lineno = 0

    def __repr__(self) -> str:
        return f"Tok({self.type})"


class Obj:
    """a model object: a class name and a dictionary of fields (attribute loads of unknown fields are not guessed)"""

    def __init__(self, cls: str, **fields: Any):
        self.cls = cls
        self.fields: Dict[str, Any] = dict(fields)

    def __repr__(self) -> str:
        return f"<{self.cls} {self.fields.get('name', '')!r}>"


class PyExc(Exception):
    """an exception the interpreted code raises by itself (KeyError of a subscript, ...)"""

    def __init__(self, name: str):
        super().__init__(name)
        self.name = name


_EXC_PARENTS = {"KeyError": ("KeyError", "LookupError", "Exception", "BaseException"),
                "IndexError": ("IndexError", "LookupError", "Exception", "BaseException"),
                "AttributeError": ("AttributeError", "Exception", "BaseException"),
                "ValueError": ("ValueError", "Exception", "BaseException"),
                "StopIteration": ("StopIteration", "Exception", "BaseException")}


_STR_METHODS = ("join", "startswith", "endswith", "strip", "lstrip", "rstrip", "lower", "upper", "split", "find", "replace")


class LocalFunction:
    def __init__(self, node: ast.FunctionDef, closure: Dict[str, Any]):
        self.node = node
        self.closure = closure


class _Raised(Exception):
    pass


class Run:
    def __init__(self, cfg: CFG, env: Dict[str, Any], script: List[Tok], is_fetch: Callable[[ast.Call], bool], extern: Optional[Callable[[ast.Call, "Run"], Any]] = None, max_steps: int = 2000):
        self.cfg = cfg
        self.env = dict(env)
        self.script = list(script)
        self.pos = 0
        self.is_fetch = is_fetch
        self.extern = extern
        self.max_steps = max_steps
        self.returned: Any = None
        self.raised: Optional[str] = None
        self.trace: List[int] = []
        self.depth = 0
        self.iters: Dict[int, Any] = {}
        self.real_strings = False
        self.fetch_none_at_end = False

    # ---- expressions
    def ev(self, e: ast.AST) -> Any:
        if isinstance(e, ast.Constant):
            return e.value
        if isinstance(e, ast.Name):
            if e.id in self.env:
                return self.env[e.id]
            raise Unsupported(f"unbound name {e.id}")
        if isinstance(e, ast.Attribute):
            base = self.ev(e.value)
            if isinstance(base, Tok) and e.attr in ("type", "value", "location", "lineno"):
                return getattr(base, e.attr)
            if isinstance(base, Obj):
                if e.attr in base.fields:
                    return base.fields[e.attr]
                raise Unsupported(f"field {e.attr} of a {base.cls} model object")
            if isinstance(base, dict) and e.attr in base:
                return base[e.attr]
            if isinstance(base, Opaque):
                return base.attr(e.attr)
            raise Unsupported(f"attribute {norm(e)}")
        if isinstance(e, ast.Compare) and len(e.ops) == 1:
            l, r = self.ev(e.left), self.ev(e.comparators[0])
            op = e.ops[0]
            if isinstance(op, ast.Eq):
                return l == r
            if isinstance(op, ast.NotEq):
                return l != r
            if isinstance(op, ast.In):
                return l in r
            if isinstance(op, ast.NotIn):
                return l not in r
            if isinstance(op, ast.Gt):
                return l > r
            if isinstance(op, ast.GtE):
                return l >= r
            if isinstance(op, ast.Lt):
                return l < r
            if isinstance(op, ast.LtE):
                return l <= r
            if isinstance(op, ast.Is):
                return l is r
            if isinstance(op, ast.IsNot):
                return l is not r
            raise Unsupported(norm(e))
        if isinstance(e, ast.BoolOp):
            v = None
            for x in e.values:
                v = self.ev(x)
                if isinstance(e.op, ast.And) and not v:
                    return v
                if isinstance(e.op, ast.Or) and v:
                    return v
            return v
        if isinstance(e, ast.UnaryOp):
            v = self.ev(e.operand)
            if isinstance(e.op, ast.Not):
                return not v
            if isinstance(e.op, ast.USub):
                return -v
            raise Unsupported(norm(e))
        if isinstance(e, ast.BinOp):
            l, r = self.ev(e.left), self.ev(e.right)
            if isinstance(e.op, ast.Add):
                return l + r
            if isinstance(e.op, ast.Sub):
                return l - r
            raise Unsupported(norm(e))
        if isinstance(e, ast.Subscript):
            base = self.ev(e.value)
            if isinstance(base, dict) and not isinstance(e.slice, ast.Slice):
                k = self.ev(e.slice)
                if k not in base:
                    raise PyExc("KeyError")
                return base[k]
            if isinstance(base, (list, tuple, str)) and not isinstance(e.slice, ast.Slice):
                k = self.ev(e.slice)
                if not isinstance(k, int):
                    raise Unsupported("index")
                if not -len(base) <= k < len(base):
                    raise PyExc("IndexError")
                return base[k]
            if isinstance(base, (list, tuple, str)) and isinstance(e.slice, ast.Slice) and e.slice.step is None:
                lo = self.ev(e.slice.lower) if e.slice.lower is not None else None
                hi = self.ev(e.slice.upper) if e.slice.upper is not None else None
                if (lo is None or isinstance(lo, int)) and (hi is None or isinstance(hi, int)):
                    return base[lo:hi]
            raise Unsupported(f"subscript {norm(e)[:40]}")
        if isinstance(e, ast.List):
            return [self.ev(x) for x in e.elts]
        if isinstance(e, (ast.Tuple, ast.Set)):
            return tuple(self.ev(x) for x in e.elts)
        if isinstance(e, ast.Dict):
            return {self.ev(k): self.ev(v) for k, v in zip(e.keys, e.values)}
        if isinstance(e, ast.JoinedStr):
            if not self.real_strings:
                return "<text>"
            parts = []
            for v in e.values:
                if isinstance(v, ast.Constant):
                    parts.append(str(v.value))
                elif isinstance(v, ast.FormattedValue) and v.format_spec is None and v.conversion == -1:
                    x = self.ev(v.value)
                    if not isinstance(x, (str, int)):
                        raise Unsupported("formatted value")
                    parts.append(str(x))
                else:
                    raise Unsupported("format spec")
            return "".join(parts)
        if isinstance(e, ast.Call):
            if self.is_fetch(e):
                if self.pos >= len(self.script):
                    if self.fetch_none_at_end:
                        self.pos += 1
                        return None
                    raise OutOfTokens()
                t = self.script[self.pos]
                self.pos += 1
                return t
            if isinstance(e.func, ast.Name) and e.func.id == "len" and len(e.args) == 1:
                return len(self.ev(e.args[0]))
            if isinstance(e.func, ast.Name) and e.func.id in ("bool", "list", "tuple") and len(e.args) == 1:
                v = self.ev(e.args[0])
                return bool(v) if e.func.id == "bool" else (list(v) if e.func.id == "list" else tuple(v))
            if isinstance(e.func, ast.Name) and e.func.id in ("enumerate", "reversed", "range", "sorted") and not e.keywords and e.func.id not in self.env:
                args = [self.ev(a) for a in e.args]
                if e.func.id == "range" and all(isinstance(a, int) for a in args) and 1 <= len(args) <= 3:
                    return list(range(*args))
                if len(args) == 1 and isinstance(args[0], (list, tuple)):
                    return {"enumerate": lambda x: [(i, y) for i, y in enumerate(x)], "reversed": lambda x: list(reversed(x)), "sorted": sorted}[e.func.id](args[0]) if e.func.id != "range" else None
                if e.func.id == "enumerate" and len(args) == 2 and isinstance(args[0], (list, tuple)) and isinstance(args[1], int):
                    return [(i, y) for i, y in enumerate(args[0], args[1])]
                raise Unsupported(f"call {norm(e)[:50]}")
            if isinstance(e.func, ast.Name) and e.func.id == "next" and 1 <= len(e.args) <= 2 and not e.keywords and "next" not in self.env:
                seq = self.ev(e.args[0])
                if isinstance(seq, (list, tuple)):
                    # (a generator expression is evaluated eagerly here: its elements have no effects in this language)
                    if seq:
                        return seq[0]
                    if len(e.args) == 2:
                        return self.ev(e.args[1])
                    raise PyExc("StopIteration")
                raise Unsupported(f"call {norm(e)[:50]}")
            if isinstance(e.func, ast.Name) and e.func.id in ("any", "all", "min", "max", "sum") and len(e.args) == 1 and not e.keywords and e.func.id not in self.env:
                seq = self.ev(e.args[0])
                if isinstance(seq, (list, tuple)):
                    return {"any": any, "all": all, "min": min, "max": max, "sum": sum}[e.func.id](seq)
                raise Unsupported(f"call {norm(e)[:50]}")
            if isinstance(e.func, ast.Attribute) and e.func.attr in ("pop", "popleft") and len(e.args) <= 1 and not e.keywords and not any(isinstance(x, ast.Call) for x in ast.walk(e.func.value)):
                try:
                    base = self.ev(e.func.value)
                except Unsupported:
                    base = None
                if isinstance(base, list):
                    if not base:
                        raise PyExc("IndexError")
                    if e.func.attr == "popleft":
                        return base.pop(0)
                    if e.args:
                        i = self.ev(e.args[0])
                        if not isinstance(i, int) or not -len(base) <= i < len(base):
                            raise PyExc("IndexError")
                        return base.pop(i)
                    return base.pop()
            if isinstance(e.func, ast.Attribute) and e.func.attr in ("values", "keys", "items") and not e.args:
                base = self.ev(e.func.value)
                if isinstance(base, dict):
                    return list(getattr(base, e.func.attr)())
            if isinstance(e.func, ast.Attribute) and e.func.attr in ("get", "setdefault", "pop") and 1 <= len(e.args) <= 2 and not e.keywords:
                base = self.ev(e.func.value)
                if isinstance(base, dict):
                    k = self.ev(e.args[0])
                    dflt = self.ev(e.args[1]) if len(e.args) == 2 else None
                    if e.func.attr == "get":
                        return base.get(k, dflt)
                    if e.func.attr == "setdefault":
                        return base.setdefault(k, dflt)
                    if k in base:
                        return base.pop(k)
                    if len(e.args) == 2:
                        return dflt
                    raise PyExc("KeyError")
            if isinstance(e.func, ast.Attribute) and e.func.attr in ("index", "count", "remove", "insert", "clear", "copy", "reverse") and not e.keywords \
                    and not any(isinstance(x, ast.Call) for x in ast.walk(e.func.value)):
                try:
                    base = self.ev(e.func.value)
                except Unsupported:
                    base = None
                if isinstance(base, (list, tuple)):
                    args = [self.ev(a) for a in e.args]
                    m = e.func.attr
                    try:
                        if m in ("index", "count") and 1 <= len(args) <= 3:
                            return getattr(base, m)(*args)
                        if isinstance(base, list) and m == "remove" and len(args) == 1:
                            return base.remove(args[0])
                        if isinstance(base, list) and m == "insert" and len(args) == 2:
                            return base.insert(args[0], args[1])
                        if isinstance(base, list) and m in ("clear", "reverse") and not args:
                            return getattr(base, m)()
                        if m == "copy" and not args:
                            return list(base)
                    except ValueError:
                        raise PyExc("ValueError")
            if isinstance(e.func, ast.Attribute) and e.func.attr in ("append", "extend") and len(e.args) == 1:
                base = self.ev(e.func.value)
                if isinstance(base, list):
                    v = self.ev(e.args[0])
                    base.append(v) if e.func.attr == "append" else base.extend(v)
                    return None
            if isinstance(e.func, ast.Attribute) and e.func.attr in _STR_METHODS and not e.keywords and not any(isinstance(x, ast.Call) for x in ast.walk(e.func.value)):
                try:
                    base = self.ev(e.func.value)
                except Unsupported:
                    base = None
                if isinstance(base, str):
                    args = [self.ev(a) for a in e.args]
                    if all(isinstance(a, (str, int, tuple)) or (isinstance(a, list) and all(isinstance(x, str) for x in a)) for a in args):
                        return getattr(base, e.func.attr)(*args)
            if isinstance(e.func, ast.Name) and isinstance(self.env.get(e.func.id), LocalFunction):
                lf: LocalFunction = self.env[e.func.id]
                if self.depth > 4:
                    raise Unsupported("call depth")
                env2 = dict(lf.closure)
                for a_, x in zip(lf.node.args.args, e.args):
                    env2[a_.arg] = self.ev(x)
                if len(lf.node.args.args) != len(e.args) or e.keywords:
                    raise Unsupported("call shape of a local function")
                sub = Run(CFG(lf.node), env2, self.script, self.is_fetch, self.extern, self.max_steps)
                sub.pos = self.pos
                sub.depth = self.depth + 1
                sub.run()
                self.pos = sub.pos
                if sub.raised:
                    self.raised = sub.raised
                    raise _Raised()
                return sub.returned
            if self.extern is not None:
                return self.extern(e, self)
            raise Unsupported(f"call {norm(e)[:50]}")
        if isinstance(e, ast.IfExp):
            return self.ev(e.body) if self.ev(e.test) else self.ev(e.orelse)
        if isinstance(e, (ast.GeneratorExp, ast.ListComp)) and len(e.generators) == 1 and not e.generators[0].is_async:
            g = e.generators[0]
            out_ = []
            saved = dict(self.env)
            for item in list(self.ev(g.iter)):
                self.assign(g.target, item)
                if all(self.ev(c) for c in g.ifs):
                    out_.append(self.ev(e.elt))
            # comprehension variables do not leak
            for k in [t.id for t in ast.walk(g.target) if isinstance(t, ast.Name)]:
                if k in saved:
                    self.env[k] = saved[k]
                else:
                    self.env.pop(k, None)
            return out_
        raise Unsupported(f"expression {norm(e)[:50]}")

    def call_def(self, fn: ast.FunctionDef, args: List[Any], kwargs: Optional[Dict[str, Any]] = None, closure: Optional[Dict[str, Any]] = None) -> Any:
        """interpret a call of a function given by its source (positional / keyword arguments, constant defaults)"""
        if self.depth > 6:
            raise Unsupported("call depth")
        a = fn.args
        if a.vararg or a.kwarg or a.posonlyargs:
            raise Unsupported(f"signature of {fn.name}")
        names = [x.arg for x in a.args]
        env2: Dict[str, Any] = dict(closure or {})
        env2.update({"None": None, "True": True, "False": False})
        defaults = dict(zip(names[len(names) - len(a.defaults):], a.defaults))
        for kw, d in zip(a.kwonlyargs, a.kw_defaults):
            if d is not None:
                defaults[kw.arg] = d
        if len(args) > len(names):
            raise Unsupported(f"too many arguments for {fn.name}")
        for n_, v in zip(names, args):
            env2[n_] = v
        for k, v in (kwargs or {}).items():
            env2[k] = v
        for n_ in names[len(args):] + [x.arg for x in a.kwonlyargs]:
            if n_ not in env2:
                if n_ not in defaults:
                    raise Unsupported(f"missing argument {n_} for {fn.name}")
                d = defaults[n_]
                if not isinstance(d, ast.Constant):
                    raise Unsupported(f"default of {n_}")
                env2[n_] = d.value
        sub = Run(CFG(fn), env2, self.script, self.is_fetch, self.extern, self.max_steps)
        sub.pos = self.pos
        sub.depth = self.depth + 1
        sub.run()
        self.pos = sub.pos
        if sub.raised:
            self.raised = sub.raised
            raise _Raised()
        return sub.returned

    def assign(self, t: ast.AST, v: Any) -> None:
        if isinstance(t, ast.Name):
            self.env[t.id] = v
        elif isinstance(t, (ast.Tuple, ast.List)):
            vs = list(v)
            if len(vs) != len(t.elts):
                raise Unsupported("unpack")
            for x, y in zip(t.elts, vs):
                self.assign(x, y)
        elif isinstance(t, ast.Attribute):
            base = self.ev(t.value)
            if isinstance(base, Tok) and t.attr in ("type", "value", "location", "lineno"):
                setattr(base, t.attr, v)
                return
            if not isinstance(base, Obj):
                raise Unsupported(f"store {norm(t)[:40]}")
            base.fields[t.attr] = v
        elif isinstance(t, ast.Subscript) and not isinstance(t.slice, ast.Slice):
            base = self.ev(t.value)
            if not isinstance(base, (dict, list)):
                raise Unsupported(f"store {norm(t)[:40]}")
            k = self.ev(t.slice)
            if isinstance(base, list) and not (isinstance(k, int) and -len(base) <= k < len(base)):
                raise PyExc("IndexError")
            base[k] = v
        else:
            raise Unsupported(f"store {norm(t)[:40]}")

    # ---- statements over the CFG
    def run(self, start: Optional[Node] = None) -> "Run":
        try:
            return self._run(start)
        except _Raised:
            return self

    def _run(self, start: Optional[Node] = None) -> "Run":
        n = start or self.cfg.entry
        steps = 0
        prev: Optional[Node] = None
        while n is not self.cfg.exit:
            steps += 1
            if steps > self.max_steps:
                raise Unsupported("step budget exceeded (does the loop terminate on this input?)")
            self.trace.append(n.id)
            if n is self.cfg.raise_exit:
                self.raised = self.raised or "raise"
                return self
            st = n.stmt
            label: Optional[str] = None
            try:
                if n.kind == "test":
                    if n.cond is not None:
                        label = "T" if self.ev(n.cond) else "F"
                    elif isinstance(st, ast.For):
                        inside = getattr(self, "_inside", {}).get(n.id)
                        if inside is None:
                            inside = {id(x) for b in st.body for x in ast.walk(b)}
                            self.__dict__.setdefault("_inside", {})[n.id] = inside
                        came_from_body = prev is not None and prev.stmt is not None and id(prev.stmt) in inside
                        if n.id not in self.iters or not came_from_body:
                            self.iters[n.id] = iter(list(self.ev(st.iter)))
                        try:
                            item = next(self.iters[n.id])
                            self.assign(st.target, item)
                            label = "T"
                        except StopIteration:
                            self.iters.pop(n.id, None)
                            label = "F"
                    else:
                        raise Unsupported("loop form not interpreted")
                elif n.kind == "stmt" and st is not None:
                    if isinstance(st, ast.Assign):
                        v = self.ev(st.value)
                        for t in st.targets:
                            self.assign(t, v)
                    elif isinstance(st, ast.AnnAssign):
                        if st.value is not None:
                            self.assign(st.target, self.ev(st.value))
                    elif isinstance(st, ast.AugAssign):
                        load = copy.deepcopy(st.target)
                        for x_ in ast.walk(load):
                            if hasattr(x_, "ctx"):
                                x_.ctx = ast.Load()
                        cur = self.ev(load)
                        d = self.ev(st.value)
                        if isinstance(st.op, ast.Add):
                            self.assign(st.target, cur + d)
                        elif isinstance(st.op, ast.Sub):
                            self.assign(st.target, cur - d)
                        else:
                            raise Unsupported("augmented operator")
                    elif isinstance(st, ast.Expr):
                        if not (isinstance(st.value, ast.Constant)):
                            self.ev(st.value)
                    elif isinstance(st, ast.Return):
                        self.returned = self.ev(st.value) if st.value is not None else None
                        return self
                    elif isinstance(st, ast.Raise):
                        self.raised = norm(st)[:60]
                        return self
                    elif isinstance(st, (ast.Pass, ast.Break, ast.Continue)):
                        pass
                    elif isinstance(st, ast.FunctionDef):
                        self.env[st.name] = LocalFunction(st, self.env)
                    elif isinstance(st, ast.Delete):
                        for t in st.targets:
                            if isinstance(t, ast.Subscript):
                                base = self.ev(t.value)
                                if not isinstance(base, (list, dict)):
                                    raise Unsupported("del on something that is not a list or dict")
                                if isinstance(t.slice, ast.Slice):
                                    if not isinstance(base, list) or t.slice.step is not None:
                                        raise Unsupported("del slice")
                                    lo = self.ev(t.slice.lower) if t.slice.lower is not None else None
                                    hi = self.ev(t.slice.upper) if t.slice.upper is not None else None
                                    del base[lo:hi]
                                else:
                                    k = self.ev(t.slice)
                                    try:
                                        del base[k]
                                    except (IndexError, KeyError) as ex_:
                                        raise PyExc(type(ex_).__name__)
                            elif isinstance(t, ast.Name):
                                self.env.pop(t.id, None)
                            else:
                                raise Unsupported("del target")
                    elif isinstance(st, ast.Assert):
                        if not self.ev(st.test):
                            self.raised = "AssertionError"
                            return self
                    else:
                        raise Unsupported(f"statement {type(st).__name__}")
                elif n.kind == "with":
                    raise Unsupported("with statement")
            except PyExc as ex:
                # the first enclosing handler that catches it
                target = None
                for s, lab in n.succ:
                    if lab != "exc" or s.kind != "handler":
                        continue
                    ht = s.stmt.type  # type: ignore[union-attr]
                    names = [norm(x) for x in ht.elts] if isinstance(ht, ast.Tuple) else ([norm(ht)] if ht is not None else [None])
                    if any(nm is None or nm in _EXC_PARENTS.get(ex.name, (ex.name,)) for nm in names):
                        target = s
                        break
                if target is None:
                    if any(lab == "exc" and s.kind != "handler" for s, lab in n.succ):
                        raise Unsupported("exception through a finally block")
                    self.raised = ex.name
                    return self
                hname = target.stmt.name  # type: ignore[union-attr]
                if hname:
                    self.env[hname] = Opaque()
                prev = n
                n = target
                continue
            succ = [(s, lab) for s, lab in n.succ if lab != "exc"]
            if label is not None and any(lab in ("T", "F") for _, lab in succ):
                nxt = [s for s, lab in succ if lab == label]
            elif label is not None and len(succ) == 2:
                # a `for` head: first successor is the body, second the exit
                nxt = [succ[0][0]] if label == "T" else [succ[1][0]]
            else:
                nxt = [s for s, lab in succ]
            if len(nxt) != 1:
                # entry / join nodes have a single successor; anything else is outside the language
                if not nxt:
                    return self
                raise Unsupported("ambiguous control flow")
            prev = n
            n = nxt[0]
        return self
