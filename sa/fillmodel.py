"""LexerTokenStream._fill_tokbuf decided by interpreting its source
(sa/miniexec.py) over every short script of raw lexer tokens.

One call buffers one physical line: raw tokens are appended until a NEWLINE
that is not preceded by a backslash token (that pair is removed: line splice);
a literal token (a type in _user_defined_literal_start) directly followed by a
NAME whose text starts with '_' becomes one token with the two texts joined and
type 'UD_' + literal type; nothing else is dropped, added or reordered; every
buffered token has been given a location; the result is False exactly when the
input was at its end before anything was read.

The script alphabet: a literal, a NAME starting with '_', another NAME, a
NEWLINE, a backslash token, a plain line comment, a run of blanks, any other token; sequences up to length 4 (quick) or 5 (thorough; the longest ones over the core alphabet
without the comment and the blank) followed by the end of input, started with an empty buffer and with a buffer that
already ends in a backslash token.  Nothing of the package is imported."""
from __future__ import annotations

import ast
import itertools
from typing import Any, Dict, List, NamedTuple, Optional, Tuple

from .cfg import CFG
from .miniexec import Obj, Opaque, Run, Tok, Unsupported
from .model import AnalysisError, Module, attr_chain, norm

ALPHA = {
    "L": ("INT_CONST_DEC", "1"),
    "S": ("STRING_LITERAL", '"s"'),
    "U": ("NAME", "_km"),
    "N": ("NAME", "x"),
    "\n": ("NEWLINE", "\n"),
    "\\": ("\\", "\\"),
    "O": (";", ";"),
    "C": ("COMMENT_SINGLELINE", "// c\n"),
    "W": ("WHITESPACE", " "),
}


class FillVerdict(NamedTuple):
    script: str
    prior: str
    ok: bool
    what: str
    kind: str  # 'udl' | 'line' | 'keep'


def _reference(raw: List[Tuple[str, str]], prior: List[Tuple[str, str]], udl: set) -> Tuple[bool, List[Tuple[str, str]], int]:
    buf = list(prior)
    i = 0
    if not raw:
        return False, buf, 1  # one fetch that found the end
    while i < len(raw):
        t = raw[i]
        i += 1
        if t[0] in udl and i < len(raw) and raw[i][0] == "NAME" and raw[i][1].startswith("_"):
            t = ("UD_" + t[0], t[1] + raw[i][1])
            i += 1
        buf.append(t)
        if t[0] == "NEWLINE":
            if len(buf) >= 2 and buf[-2][0] == "\\":
                buf.pop()
                buf.pop()
            else:
                return True, buf, i
    return True, buf, i + 1  # ran into the end of input: one more fetch returned None


def verdicts(lex: Module, udl_start: set, max_len: int = 4, qual: str = "LexerTokenStream._fill_tokbuf") -> List[FillVerdict]:
    fn = lex.func(qual)
    cfg = CFG(fn)
    params = [a.arg for a in fn.args.args]

    _fetch_memo: Dict[int, bool] = {}

    def is_fetch(c: ast.Call) -> bool:
        k = id(c)
        if k not in _fetch_memo:
            _fetch_memo[k] = _is_fetch(c)
        return _fetch_memo[k]

    def _is_fetch(c: ast.Call) -> bool:
        ch = attr_chain(c.func)
        if ch is None:
            return False
        if ch[-1] == "token" and len(ch) >= 2 and ch[-2] in ("_lex", "lex"):
            return True
        if len(ch) == 1:
            # a local bound once to the raw lexer's token method
            for st in ast.walk(fn):
                if isinstance(st, ast.Assign) and any(isinstance(t, ast.Name) and t.id == ch[0] for t in st.targets):
                    vc = attr_chain(st.value)
                    if vc and vc[-1] == "token" and len(vc) >= 2 and vc[-2] in ("_lex", "lex"):
                        return True
        return False

    # class-level constants of the stream class (literal sets / tuples / strings), readable through `self`
    consts: Dict[str, Any] = {}
    cls_name = qual.split(".")[0]
    for cnode in lex.tree.body:
        if isinstance(cnode, ast.ClassDef) and cnode.name == cls_name:
            for st in cnode.body:
                if isinstance(st, (ast.Assign, ast.AnnAssign)) and getattr(st, "value", None) is not None:
                    tg = st.targets[0] if isinstance(st, ast.Assign) else st.target
                    if isinstance(tg, ast.Name):
                        try:
                            v = ast.literal_eval(st.value)
                        except Exception:
                            continue
                        consts[tg.id] = frozenset(v) if isinstance(v, set) else v
    consts.pop("_user_defined_literal_start", None)
    out: List[FillVerdict] = []
    for prior_s in ("", "\\"):
        for n in range(0, max_len + 1):
            # the longest scripts use the core alphabet only (the comment and the blank were added for effects that show
            # within three tokens: a rewritten comment, a blank in front of a suffix or between two literals)
            alpha_n = ALPHA if n < max_len or max_len <= 3 else [k_ for k_ in ALPHA if k_ not in ("C", "W")]
            for seq in itertools.product(alpha_n, repeat=n):
                s = "".join(seq)
                # a script is one line (plus what follows a spliced line end); stop enumerating past the first real line end
                raw = [ALPHA[c] for c in seq]
                prior = [ALPHA[c] for c in prior_s]
                want_ret, want_buf, want_pos = _reference(raw, prior, udl_start)
                toks = [Tok(t, v) for t, v in raw]
                ptoks = [Tok(t, v) for t, v in prior]
                for pt in ptoks:
                    pt.location = "loc:prior"
                buf: List[Any] = list(ptoks)
                me = Obj("LexerTokenStream", tokbuf=buf, _lex=Opaque(), _user_defined_literal_start=frozenset(udl_start), **consts)
                counter = [0]

                def extern(call: ast.Call, run: Run, _c=counter) -> Any:
                    f = norm(call.func)
                    if f.endswith("current_location") or f == "Location":
                        # (an inlined current_location(): what the location holds is R10.2's question, here a token gets one)
                        _c[0] += 1
                        return f"loc:{run.pos}"
                    raise Unsupported(f"call {norm(call)[:60]}")

                env: Dict[str, Any] = {params[0]: me, "None": None, "True": True, "False": False}
                if len(params) > 1:
                    env[params[1]] = buf
                run = Run(cfg, env, toks, is_fetch, extern)
                run.real_strings = True
                run.fetch_none_at_end = True
                try:
                    run.run()
                except Unsupported as e:
                    raise AnalysisError(f"{qual} uses a construct the interpreter does not model: {e}")
                got = [(t.type, t.value) if isinstance(t, Tok) else ("?", repr(t)) for t in me.fields["tokbuf"]]
                kind = "udl" if any(c in "LS" for c in s) and "U" in s else ("line" if ("\n" in s or "\\" in s or prior_s) else "keep")
                if run.raised:
                    out.append(FillVerdict(s, prior_s, False, f"raises {run.raised}", kind))
                elif bool(run.returned) != want_ret:
                    out.append(FillVerdict(s, prior_s, False, f"returns {run.returned!r}, expected {want_ret}", kind))
                elif got != want_buf:
                    out.append(FillVerdict(s, prior_s, False, f"buffers {got}, expected {want_buf}", kind))
                elif min(run.pos, len(raw) + 1) != min(want_pos, len(raw) + 1):
                    out.append(FillVerdict(s, prior_s, False, f"reads {run.pos} raw token(s), expected {want_pos}", kind))
                elif any(isinstance(t, Tok) and t.location is None for t in me.fields["tokbuf"]):
                    out.append(FillVerdict(s, prior_s, False, "buffers a token without a location", kind))
                else:
                    out.append(FillVerdict(s, prior_s, True, "", kind))
    return out


def show(v: FillVerdict) -> str:
    names = {"L": "1", "S": '"s"', "U": "_km", "N": "x", "\n": "<NEWLINE>", "\\": "<backslash>", "O": ";", "C": "<// comment>", "W": "<blank>"}
    return f"raw tokens [{' '.join(names[c] for c in v.script)}] then end of input" + (" (buffer already ends in a backslash)" if v.prior else "") + f": {v.what}"


_CACHE: Dict[Tuple[int, int], List[FillVerdict]] = {}


def obligations(ctx, rid: str, lex: Module, udl_start: set, kinds: Tuple[str, ...]) -> None:
    ml = 5 if getattr(ctx, "tier", "quick") == "thorough" else 4
    key = (id(lex), ml)
    if key not in _CACHE:
        _CACHE[key] = verdicts(lex, udl_start, ml)
    vs = _CACHE[key]
    fn = lex.func("LexerTokenStream._fill_tokbuf")
    titles = {
        "udl": ("a literal directly followed by a NAME starting with '_' becomes one UD_ token, and only then", "a user-defined literal is not fused with its suffix (or something else is)"),
        "line": ("one call buffers one physical line; a backslash-NEWLINE pair is removed and the line goes on", "the buffer does not end at the line end, or a line splice is not removed / removes something else"),
        "keep": ("every raw token is buffered once, in order, with a location", "a raw token is lost, duplicated, reordered or buffered without a location"),
    }
    for k in kinds:
        sel = [v for v in vs if v.kind == k]
        bad = [v for v in sel if not v.ok]
        ctx.ob(rid, f"lexer:LexerTokenStream._fill_tokbuf|{titles[k][0]}", bool(sel) and not bad,
               msg=(f"{titles[k][1]}: {show(bad[0])}" if bad else "no script of this kind"), node=fn, mod=lex,
               detail={"scripts": len(sel), "failing": [repr(v.script) for v in bad[:5]]})
