"""Resolved view of cxxheaderparser/parser.py: methods, aliases of bound
methods, the dispatch table, the intra-class call graph, visitor call sites.
Everything is resolved from the AST; an unresolvable call at a rule anchor is
an AnalysisError."""
from __future__ import annotations

import ast
from typing import Any, Dict, Iterable, List, Optional, Set, Tuple

from .cfg import CFG, Node
from .model import AnalysisError, Module, Repo, attr_chain, norm, walk_local

# TokenStream accessors
LEX_CONSUME = {
    "token",
    "token_eof_ok",
    "token_newline_eof_ok",
    "token_if",
    "token_if_in_set",
    "token_if_val",
    "token_if_not",
}
LEX_PEEK = {"token_peek_if", "has_tokens", "current_location"}
LEX_RETURN = {"return_token", "return_tokens"}
LEX_DOXY = {"get_doxygen", "get_doxygen_after"}
LEX_ALL = LEX_CONSUME | LEX_PEEK | LEX_RETURN | LEX_DOXY


class ParserModel:
    def __init__(self, repo: Repo):
        self.repo = repo
        self.mod: Module = repo.mod("parser")
        self.cls = self.mod.cls("CxxParser")
        self.methods: Dict[str, ast.FunctionDef] = self.mod.methods("CxxParser")
        self.props: Set[str] = set()
        for n, f in self.methods.items():
            for d in f.decorator_list:
                if isinstance(d, ast.Name) and d.id == "property":
                    self.props.add(n)
        self._cfg: Dict[str, CFG] = {}
        self._alias: Dict[str, Dict[str, Tuple[str, ...]]] = {}
        self.dispatch: Dict[str, str] = {}
        self.dispatch_node: Optional[ast.Dict] = None
        self.dispatch_extra: Dict[str, Tuple[Any, ...]] = {}
        self._find_dispatch()
        self.calls: Dict[str, Set[str]] = {}
        self._build_callgraph()

    # ------------------------------------------------------------------
    def fn(self, name: str) -> ast.FunctionDef:
        try:
            return self.methods[name]
        except KeyError:
            raise AnalysisError(f"anchor vanished: CxxParser.{name}")

    def cfg(self, name: str) -> CFG:
        if name not in self._cfg:
            self._cfg[name] = CFG(self.fn(name))
        return self._cfg[name]

    def aliases(self, name: str) -> Dict[str, Tuple[str, ...]]:
        """Locals bound exactly once to an attribute chain rooted at self
        (``get_token = self.lex.token``, ``lex = self.lex``)."""
        if name in self._alias:
            return self._alias[name]
        fn = self.fn(name)
        defs: Dict[str, List[ast.AST]] = {}
        for st in walk_local(fn):
            if isinstance(st, ast.Assign):
                for t in st.targets:
                    for e in _flat(t):
                        if isinstance(e, ast.Name):
                            defs.setdefault(e.id, []).append(st.value if len(st.targets) == 1 and isinstance(t, ast.Name) else None)
            elif isinstance(st, (ast.AnnAssign, ast.AugAssign)) and isinstance(st.target, ast.Name):
                defs.setdefault(st.target.id, []).append(None)
            elif isinstance(st, (ast.For,)):
                for e in _flat(st.target):
                    if isinstance(e, ast.Name):
                        defs.setdefault(e.id, []).append(None)
        out: Dict[str, Tuple[str, ...]] = {}
        params = {a.arg for a in fn.args.args + fn.args.kwonlyargs}
        changed = True
        while changed:
            changed = False
            for v, ds in defs.items():
                if v in out or v in params or len(ds) != 1 or ds[0] is None:
                    continue
                ch = attr_chain(ds[0])
                if ch is None:
                    continue
                if ch[0] == "self":
                    out[v] = ch
                    changed = True
                elif ch[0] in out:
                    out[v] = out[ch[0]] + ch[1:]
                    changed = True
        self._alias[name] = out
        return out

    def chain(self, fname: str, expr: ast.AST) -> Optional[Tuple[str, ...]]:
        """Attribute chain of expr with local aliases expanded."""
        ch = attr_chain(expr)
        if ch is None:
            return None
        al = self.aliases(fname)
        if ch[0] in al:
            return al[ch[0]] + ch[1:]
        return ch

    def resolve(self, fname: str, call: ast.Call) -> Optional[Tuple[str, str]]:
        """('self', m) | ('lex', m) | ('visitor', m) | ('finish', '_finish') |
        ('ctor', Name) | ('name', id) | None"""
        ch = self.chain(fname, call.func)
        if ch is None:
            return None
        if len(ch) == 2 and ch[0] == "self" and ch[1] in self.methods:
            return ("self", ch[1])
        if len(ch) == 3 and ch[0] == "self" and ch[1] == "lex":
            return ("lex", ch[2])
        if len(ch) == 3 and ch[0] == "self" and ch[1] == "visitor":
            return ("visitor", ch[2])
        if ch[-1] == "_finish":
            return ("finish", "_finish")
        if len(ch) == 1:
            return ("name", ch[0])
        return ("other", ".".join(ch))

    def _find_dispatch(self) -> None:
        parse = self.fn("parse")
        best = None
        for st in walk_local(parse):
            if isinstance(st, (ast.Assign, ast.AnnAssign)) and isinstance(getattr(st, "value", None), ast.Dict):
                d: ast.Dict = st.value  # type: ignore
                def handler_expr(v: ast.AST) -> bool:
                    return (isinstance(v, ast.Attribute) and isinstance(v.value, ast.Name) and v.value.id == "self") or isinstance(v, ast.Lambda)

                # a value is a handler, or a tuple of a handler and constants that travel with it
                if d.values and all(
                    handler_expr(v) or (isinstance(v, ast.Tuple) and v.elts and handler_expr(v.elts[0]) and all(isinstance(x, ast.Constant) for x in v.elts[1:]))
                    for v in d.values
                ):
                    if best is None or len(d.values) > len(best.values):
                        best = d
        if best is None:
            raise AnalysisError("anchor vanished: dispatch dict literal in CxxParser.parse")
        self.dispatch_node = best
        for k, v in zip(best.keys, best.values):
            if not (isinstance(k, ast.Constant) and isinstance(k.value, str)):
                raise AnalysisError("dispatch table key is not a string constant")
            if isinstance(v, ast.Tuple):
                self.dispatch_extra[k.value] = tuple(x.value for x in v.elts[1:])  # type: ignore[attr-defined]
                v = v.elts[0]
            if isinstance(v, ast.Lambda):
                self.dispatch[k.value] = "<lambda>"
            else:
                if v.attr not in self.methods:  # type: ignore
                    raise AnalysisError(f"dispatch value self.{v.attr} is not a method")  # type: ignore
                self.dispatch[k.value] = v.attr  # type: ignore

    def handlers(self) -> Set[str]:
        return {v for v in self.dispatch.values() if v != "<lambda>"}

    def _build_callgraph(self) -> None:
        for name, fn in self.methods.items():
            s: Set[str] = set()
            for n in walk_local(fn):
                if isinstance(n, ast.Call):
                    r = self.resolve(name, n)
                    if r and r[0] == "self":
                        s.add(r[1])
                elif isinstance(n, ast.Attribute) and isinstance(n.value, ast.Name) and n.value.id == "self" and n.attr in self.props:
                    s.add(n.attr)
            if name == "parse":
                s |= self.handlers()
            self.calls[name] = s

    def closure(self, seeds: Iterable[str]) -> Set[str]:
        """Methods from which some seed is reachable (including the seeds)."""
        tgt = set(seeds)
        changed = True
        while changed:
            changed = False
            for m, cs in self.calls.items():
                if m not in tgt and cs & tgt:
                    tgt.add(m)
                    changed = True
        return tgt

    def reachable_from(self, start: str) -> Set[str]:
        seen: Set[str] = set()
        st = [start]
        while st:
            m = st.pop()
            if m in seen:
                continue
            seen.add(m)
            st.extend(self.calls.get(m, ()))
        return seen

    def callers(self, name: str) -> Set[str]:
        return {m for m, cs in self.calls.items() if name in cs}

    def call_sites(self, callee: str) -> List[Tuple[str, ast.Call]]:
        out = []
        for name, fn in self.methods.items():
            for n in walk_local(fn):
                if isinstance(n, ast.Call):
                    r = self.resolve(name, n)
                    if r == ("self", callee):
                        out.append((name, n))
        return out

    def direct_consumers(self) -> Set[str]:
        out = set()
        for name, fn in self.methods.items():
            for n in walk_local(fn):
                if isinstance(n, ast.Call):
                    r = self.resolve(name, n)
                    if r and r[0] == "lex" and r[1] in LEX_CONSUME:
                        out.add(name)
        return out

    def may_consume(self) -> Set[str]:
        return self.closure(self.direct_consumers())

    def callback_sites(self) -> List[Tuple[str, ast.Call, str]]:
        out = []
        for name, fn in self.methods.items():
            for n in walk_local(fn):
                if isinstance(n, ast.Call):
                    r = self.resolve(name, n)
                    if r and r[0] == "visitor":
                        out.append((name, n, r[1]))
        return out

    def may_emit(self) -> Set[str]:
        """Methods from which a visitor call (or _finish) is reachable."""
        direct = {n for n, _, _ in self.callback_sites()}
        for name, fn in self.methods.items():
            for n in walk_local(fn):
                if isinstance(n, ast.Call):
                    r = self.resolve(name, n)
                    if r and r[0] == "finish":
                        direct.add(name)
        return self.closure(direct)

    def node_calls(self, fname: str, node: Node) -> List[Tuple[ast.Call, Optional[Tuple[str, str]]]]:
        return [(c, self.resolve(fname, c)) for c in node.calls()]


def _flat(t: ast.AST):
    if isinstance(t, (ast.Tuple, ast.List)):
        for e in t.elts:
            yield from _flat(e)
    else:
        yield t
