"""C20 -- entry points and tools agree with one another."""
from __future__ import annotations

import ast
from typing import Dict, List, Optional, Set, Tuple

from ..cfg import CFG, Node, reaching_defs
from ..kinds import node_containing
from ..model import AnalysisError, annotation_names, attr_chain, norm, short, walk_local
from ..pmodel import ParserModel
from ..report import Ctx

LEVEL = "def-use chains through the entry points and tools"
EXPLANATION = (
    "R20.1 every parameter of parse_file / parse_string lies in the backward slice of the CxxParser construction (in particular `encoding` "
    "reaches CxxParser and, there, the open() that reads the file); the default encoding literal agrees between parse_file and "
    "CxxParser.__init__, and the command line passes None unless told otherwise. R20.2 parse_file applies os.fsdecode before the path is "
    "compared or used; the '-' branch reads standard input with the requested encoding. R20.3 both entry points are the same pipeline: "
    "SimpleCxxVisitor(), CxxParser(..., that visitor, ...), parse(), return that visitor's data. R20.4 the JSON dump is "
    "json.dump(dataclasses.asdict(<result of parse_file, unmodified>)). R20.5 nondefault_repr: the type switch covers every container kind "
    "that occurs in the closure of ParsedData's field annotations; a field is skipped only when repr/compare is off or its value equals "
    "the declared default (factory-aware), by no other condition; the class name printed is the qualified name."
)


def backward_slice(fn: ast.FunctionDef, seeds: Set[str]) -> Set[str]:
    """Names whose value can influence the seed names (flow-insensitive: data
    dependences through assignments, control dependences through enclosing tests)."""
    live = set(seeds)
    changed = True
    parents: Dict[ast.AST, ast.AST] = {}
    for n in ast.walk(fn):
        for c in ast.iter_child_nodes(n):
            parents[c] = n
    while changed:
        changed = False
        for st in walk_local(fn):
            tg: List[ast.AST] = []
            val = None
            if isinstance(st, ast.Assign):
                tg, val = st.targets, st.value
            elif isinstance(st, ast.AnnAssign) and st.value is not None:
                tg, val = [st.target], st.value
            elif isinstance(st, ast.AugAssign):
                tg, val = [st.target], st.value
            elif isinstance(st, (ast.With,)):
                for it in st.items:
                    if it.optional_vars is not None and any(isinstance(x, ast.Name) and x.id in live for x in ast.walk(it.optional_vars)):
                        for x in ast.walk(it.context_expr):
                            if isinstance(x, ast.Name) and x.id not in live:
                                live.add(x.id)
                                changed = True
                continue
            if val is None:
                continue
            if any(isinstance(x, ast.Name) and x.id in live for t in tg for x in ast.walk(t)):
                deps = {x.id for x in ast.walk(val) if isinstance(x, ast.Name)}
                # control dependences: tests of enclosing ifs
                p = parents.get(st)
                while p is not None and p is not fn:
                    if isinstance(p, (ast.If, ast.While)):
                        deps |= {x.id for x in ast.walk(p.test) if isinstance(x, ast.Name)}
                    p = parents.get(p)
                new = deps - live
                if new:
                    live |= new
                    changed = True
    return live


def run(ctx: Ctx) -> None:
    repo = ctx.repo
    pm = ParserModel(repo)
    sm = repo.mod("simple")
    ctx.trusted = ["Python's open()/codecs for what an encoding name means"]
    ctx.undecided = ["behaviour of console encodings for non-ASCII text"]

    # ---------------------------------------------------------------- R20.1
    ctx.rule("R20.1", "entry-point parameters are live into the parser construction; encoding defaults agree", minimum=6)
    for ep in ("parse_file", "parse_string"):
        fn = sm.func(ep)
        ctor = [c for c in walk_local(fn) if isinstance(c, ast.Call) and isinstance(c.func, ast.Name) and c.func.id == "CxxParser"]
        if len(ctor) != 1:
            raise AnalysisError(f"anchor vanished: CxxParser(...) call in simple.{ep}")
        seeds = {x.id for a in list(ctor[0].args) + [k.value for k in ctor[0].keywords] for x in ast.walk(a) if isinstance(x, ast.Name)}
        live = backward_slice(fn, seeds)
        for a in fn.args.args + fn.args.kwonlyargs:
            ctx.ob("R20.1", f"simple:{ep}|parameter {a.arg} reaches the parser", a.arg in live,
                   msg=f"parameter `{a.arg}` of {ep} never influences the CxxParser construction: callers who pass it get the default behaviour", node=ctor[0], mod=sm)
    # the encoding must reach the parser's own `encoding` parameter (it is what the file is opened with)
    init = pm.fn("__init__")
    iparams = [a.arg for a in init.args.args[1:]]
    pfc = [c for c in walk_local(sm.func("parse_file")) if isinstance(c, ast.Call) and isinstance(c.func, ast.Name) and c.func.id == "CxxParser"][0]
    eidx = iparams.index("encoding") if "encoding" in iparams else None
    earg = next((k.value for k in pfc.keywords if k.arg == "encoding"), None)
    if earg is None and eidx is not None and eidx < len(pfc.args):
        earg = pfc.args[eidx]
    ctx.ob("R20.1", "simple:parse_file|encoding handed to CxxParser(encoding=)", isinstance(earg, ast.Name) and earg.id == "encoding",
           msg="parse_file does not pass its encoding on to CxxParser: the file is opened with the default encoding whatever the caller asked for", node=pfc, mod=sm)
    icfg = pm.cfg("__init__")
    from ..booleval import UNKNOWN as _U, ev as _ev, paths_to as _pt

    def _consts(modname: str, fn_: ast.AST) -> Dict[str, Any]:
        """module-level string constants (own or imported) a function mentions, for constant propagation"""
        out = {}
        F_ = repo.folder(modname)
        for x in ast.walk(fn_):
            if isinstance(x, ast.Name) and isinstance(x.ctx, ast.Load) and x.id.isupper() and F_.has(x.id):
                v_ = F_.get(x.id)
                if isinstance(v_, (str, int, type(None))):
                    out[x.id] = v_
        return out
    open_nodes = [n for n in icfg.nodes for c in n.calls() if isinstance(c.func, ast.Name) and c.func.id == "open"]
    ok = len(open_nodes) == 1
    why = "expected exactly one open() in CxxParser.__init__"
    d2: Set[str] = set()
    if ok:
        oc = [c for c in open_nodes[0].calls() if isinstance(c.func, ast.Name) and c.func.id == "open"][0]
        enc = next((k.value for k in oc.keywords if k.arg == "encoding"), None)
        fn_ok = bool(oc.args) and norm(oc.args[0]) in ("filename", "self.filename")
        # the codec the file is opened with, for a caller-chosen encoding and for none (constant propagation along the paths)
        given = set()
        for env in _pt(icfg, open_nodes[0], {"encoding": "<E>", **_consts("parser", init)}, lambda x: None):
            v = _ev(enc, env, lambda x: None) if enc is not None else None
            given.add("?" if v is _U else v)
        for env in _pt(icfg, open_nodes[0], {"encoding": None, **_consts("parser", init)}, lambda x: None):
            v = _ev(enc, env, lambda x: None) if enc is not None else None
            d2.add("?" if v is _U else v)
        ok = fn_ok and given == {"<E>"}
        why = f"the file is opened as `{short(oc, 60)}`: with encoding=E the codec used is {sorted(map(str, given))}, not E" if fn_ok else "the file is not opened by the given name"
    ctx.ob("R20.1", "parser:CxxParser.__init__|open(filename, encoding=encoding)", ok, msg=why, node=open_nodes[0].stmt if open_nodes else init, mod=pm.mod)

    def default_literal(fn: ast.FunctionDef) -> Set[str]:
        out = set()
        for st in walk_local(fn):
            if isinstance(st, ast.Assign) and any(isinstance(t, ast.Name) and t.id == "encoding" for t in st.targets) and isinstance(st.value, ast.Constant):
                out.add(st.value.value)
        return out
    d1 = default_literal(sm.func("parse_file"))
    ctx.ob("R20.1", "simple/parser|default encoding literal agrees", d2 == {"utf-8-sig"} and d1 <= {"utf-8-sig"},
           msg=f"default encodings: parse_file {sorted(d1)}, CxxParser.__init__ {sorted(map(str, d2))}; the documented default is UTF-8 with optional byte-order mark", node=init, mod=pm.mod, nontrivial=False)
    dump = repo.mod("dump")
    dm = dump.func("dumpmain")
    enc_default = "<missing>"
    for c in walk_local(dm):
        if isinstance(c, ast.Call) and isinstance(c.func, ast.Attribute) and c.func.attr == "add_argument" and c.args and isinstance(c.args[0], ast.Constant) and c.args[0].value == "--encoding":
            for k in c.keywords:
                if k.arg == "default":
                    enc_default = k.value.value if isinstance(k.value, ast.Constant) else "<expr>"
    ctx.ob("R20.1", "dump:dumpmain|--encoding defaults to None (the library default applies)", enc_default in (None, "utf-8-sig"),
           msg=f"the command line passes encoding={enc_default!r} when none is given, so the CLI and parse_file(path) decode the same file differently (byte-order mark)", node=dm, mod=dump, nontrivial=False)

    # ---------------------------------------------------------------- R20.2
    ctx.rule("R20.2", "parse_file: os.fsdecode first; '-' reads standard input with the requested encoding", minimum=2)
    pf = sm.func("parse_file")
    cfg = CFG(pf)
    dec = [n for n in cfg.nodes if n.kind == "stmt" and isinstance(n.stmt, ast.Assign) and norm(n.stmt.value) == "os.fsdecode(filename)" and any(isinstance(t, ast.Name) and t.id == "filename" for t in n.stmt.targets)]
    uses = [n for n in cfg.nodes if n not in dec and any(isinstance(x, ast.Name) and x.id == "filename" and isinstance(x.ctx, ast.Load) for x in n.walk())]
    ctx.ob("R20.2", "simple:parse_file|os.fsdecode before any use of the path", len(dec) == 1 and all(cfg.dominates(dec[0], u) for u in uses),
           msg="a path-like argument is compared or used before os.fsdecode", node=pf, mod=sm)
    # assignments to `content` that are control-dependent on `filename == "-"` (T side)
    branch = []
    for n in cfg.nodes:
        if n.kind == "stmt" and isinstance(n.stmt, ast.Assign) and any(isinstance(t, ast.Name) and t.id == "content" for t in n.stmt.targets):
            deps = cfg.control_deps(n)
            if any(norm(d.cond) == "filename == '-'" and lab == "T" for d, lab in deps):
                branch.append((n, deps))
    # locals that alias (a layer of) sys.stdin
    aliases = {t.id for st in walk_local(pf) if isinstance(st, ast.Assign) and "sys.stdin" in norm(st.value) for t in st.targets if isinstance(t, ast.Name) and t.id != "content"}

    def from_stdin(v: ast.AST) -> bool:
        return "sys.stdin" in norm(v) or any(isinstance(x, ast.Name) and x.id in aliases for x in ast.walk(v))

    ok = bool(branch) and all(from_stdin(n.stmt.value) for n, _ in branch)
    ctx.ob("R20.2", "simple:parse_file|'-' means standard input", ok, msg="the '-' branch no longer takes the content from standard input", node=pf, mod=sm, nontrivial=False)
    with_enc = [n for n, _ in branch if any(isinstance(x, ast.Name) and x.id == "encoding" for x in ast.walk(n.stmt.value))]
    without = [(n, deps) for n, deps in branch if n not in with_enc]
    # reading through the text layer is acceptable only where the binary layer is known to be missing
    fallback_ok = all(any(("buffer" in norm(d.cond) or any(a in norm(d.cond) for a in aliases)) for d, lab in deps) for n, deps in without)
    ctx.ob("R20.2", "simple:parse_file|standard input decoded with the requested encoding", bool(with_enc) and fallback_ok,
           msg="standard input is read through the text layer with the process default encoding: parse_file('-', encoding=E) ignores E", node=branch[0][0].stmt if branch else pf, mod=sm)

    # supplied content (from stdin, parse_string or a hook) is used as it is: the file is read only for None
    icfg0 = pm.cfg("__init__")
    op = [x for x in icfg0.nodes if any(isinstance(c.func, ast.Name) and c.func.id == "open" for c in x.calls())]
    conds = [(norm(d.cond), lab) for d, lab in icfg0.control_deps(op[0])] if len(op) == 1 else []
    ctx.ob("R20.2", "parser:CxxParser.__init__|file read exactly when content is None", ("content is None", "T") in conds and all(c == "content is None" or "encoding" in c for c, _ in conds),
           msg=f"the file is opened under {conds}: content that was supplied (empty standard input, parse_string('')) must be parsed as it is", node=op[0].stmt if op else init, mod=pm.mod)

    # ---------------------------------------------------------------- R20.6
    # what codec is used when the caller gives none: evaluated at every decoding site by
    # constant propagation along the paths from the function entry with encoding=None
    ctx.rule("R20.6", "the codec used when no encoding is given is the same at every decoding site (file and standard input)", minimum=2)
    from ..booleval import UNKNOWN, ev as bev, paths_to
    sites = []  # (label, function, cfg, node, expression)
    for n in cfg.nodes:
        for c in n.calls():
            if isinstance(c.func, ast.Attribute) and c.func.attr == "decode":
                e = c.args[0] if c.args else next((k.value for k in c.keywords if k.arg == "encoding"), None)
                sites.append(("simple:parse_file|standard input .decode()", pf, cfg, n, e, sm))
            if isinstance(c.func, ast.Name) and c.func.id == "open":
                e = next((k.value for k in c.keywords if k.arg == "encoding"), None)
                sites.append(("simple:parse_file|open()", pf, cfg, n, e, sm))
    for n in icfg0.nodes:
        for c in n.calls():
            if isinstance(c.func, ast.Name) and c.func.id == "open":
                e = next((k.value for k in c.keywords if k.arg == "encoding"), None)
                sites.append(("parser:CxxParser.__init__|open()", init, icfg0, n, e, pm.mod))
    defaults = {}
    for label, f, g, n, e, m in sites:
        vals = set()
        if e is None:
            vals.add("<process default>")
        else:
            for env in paths_to(g, n, {"encoding": None, **_consts(m.name, f)}, lambda x: None):
                v = bev(e, env, lambda x: None)
                vals.add("<not constant>" if v is UNKNOWN else ("<process default>" if v is None else v))
        defaults[label] = (vals, n, m)
    allv = set().union(*[v for v, _, _ in defaults.values()]) if defaults else set()
    ref = defaults.get("parser:CxxParser.__init__|open()", (set(), None, None))[0]
    for label, (vals, n, m) in sorted(defaults.items()):
        ctx.ob("R20.6", f"{label} default codec", vals == ref and len(vals) == 1 and not any(v.startswith("<") for v in vals),
               msg=f"with no encoding given this site decodes with {sorted(vals)} while the file is opened with {sorted(ref)}: the same bytes (a byte-order mark) are read differently from a file and from standard input",
               node=n.stmt, mod=m, detail={"defaults": sorted(vals)})

    # ---------------------------------------------------------------- R20.3
    ctx.rule("R20.3", "parse_string and parse_file are the same pipeline: SimpleCxxVisitor(), CxxParser(that visitor), parse(), return its data", minimum=2)
    for ep in ("parse_file", "parse_string"):
        fn = sm.func(ep)
        c = CFG(fn)
        rd = reaching_defs(c)
        vis = [n for n in c.nodes if n.kind == "stmt" and isinstance(n.stmt, ast.Assign) and norm(n.stmt.value) == "SimpleCxxVisitor()"]
        par = [n for n in c.nodes if n.kind == "stmt" and isinstance(n.stmt, ast.Assign) and isinstance(n.stmt.value, ast.Call) and norm(n.stmt.value.func) == "CxxParser"]
        run_ = [n for n in c.nodes if n.kind == "stmt" and isinstance(n.stmt, ast.Expr) and isinstance(n.stmt.value, ast.Call) and isinstance(n.stmt.value.func, ast.Attribute) and n.stmt.value.func.attr == "parse"]
        rets = [n for n in c.nodes if n.kind == "stmt" and isinstance(n.stmt, ast.Return)]
        why = []
        # `CxxParser(...).parse()`: the parser is built where it is run
        direct = len(run_) == 1 and not par and isinstance(run_[0].stmt.value.func.value, ast.Call) and norm(run_[0].stmt.value.func.value.func) == "CxxParser"
        if direct:
            par = [run_[0]]
        ok = len(vis) == 1 and len(par) == 1 and len(run_) == 1 and len(rets) == 1
        if ok:
            v = vis[0].stmt.targets[0].id
            p = norm(run_[0].stmt.value.func.value) if direct else par[0].stmt.targets[0].id
            call = run_[0].stmt.value.func.value if direct else par[0].stmt.value
            args = [norm(a) for a in call.args]
            # keyword arguments are placed by the parameter order of CxxParser.__init__
            try:
                init_params = [a.arg for a in ctx.repo.mod("parser").func("CxxParser.__init__").args.args[1:]]
            except AnalysisError:
                init_params = []
            for kw_ in call.keywords:
                if kw_.arg in init_params and init_params.index(kw_.arg) >= len(args):
                    while len(args) < init_params.index(kw_.arg):
                        args.append("<default>")
                    args.append(norm(kw_.value))
            if len(args) < 4 or args[0] != "filename" or args[1] != "content" or args[2] != v or args[3] != "options":
                ok = False
                why.append(f"CxxParser is built with {args}")
            if norm(run_[0].stmt.value.func.value) != p:
                ok = False
                why.append("parse() is not called on the constructed parser")
            if norm(rets[0].stmt.value) != f"{v}.data":
                ok = False
                why.append(f"returns `{short(rets[0].stmt.value)}` instead of the visitor's data")
            if not (c.dominates(vis[0], par[0]) and c.dominates(par[0], run_[0]) and c.dominates(run_[0], rets[0])):
                ok = False
                why.append("construct / parse / return are not in sequence on every path")
            # nothing touches the result between parse() and return
            between = [n for n in c.nodes if n.kind == "stmt" and c.dominates(run_[0], n) and n is not run_[0] and n is not rets[0]]
            if between:
                ok = False
                why.append(f"`{short(between[0].stmt)}` runs between parse() and the return")
        else:
            why.append("pipeline anchors vanished")
        ctx.ob("R20.3", f"simple:{ep}|pipeline", ok, msg="; ".join(why), node=fn, mod=sm)

    # ---------------------------------------------------------------- R20.4
    ctx.rule("R20.4", "dump --mode json prints dataclasses.asdict of the unmodified parse_file result", minimum=1)
    dcfg = CFG(dm)
    drd = reaching_defs(dcfg)
    jd = [n for n in dcfg.nodes for c in n.calls() if norm(c.func) == "json.dump"]
    ok = len(jd) == 1
    why = "json.dump anchor vanished"
    if ok:
        c = [c for c in jd[0].calls() if norm(c.func) == "json.dump"][0]
        a = c.args[0] if c.args else None
        ok = False
        why = "json.dump is not given dataclasses.asdict(data)"
        src = None
        if isinstance(a, ast.Call) and norm(a.func) == "dataclasses.asdict" and a.args and isinstance(a.args[0], ast.Name):
            src = (jd[0], a.args[0].id)
        elif isinstance(a, ast.Name):
            ds = [dcfg.nodes[i] for i in drd.get(jd[0].id, {}).get(a.id, ())]
            if len(ds) == 1 and isinstance(ds[0].stmt, ast.Assign) and isinstance(ds[0].stmt.value, ast.Call) and norm(ds[0].stmt.value.func) == "dataclasses.asdict" and isinstance(ds[0].stmt.value.args[0], ast.Name):
                src = (ds[0], ds[0].stmt.value.args[0].id)
        if src is not None:
            ds = [dcfg.nodes[i] for i in drd.get(src[0].id, {}).get(src[1], ())]
            ok = len(ds) == 1 and isinstance(ds[0].stmt, ast.Assign) and isinstance(ds[0].stmt.value, ast.Call) and norm(ds[0].stmt.value.func) == "parse_file"
            why = "the object converted with asdict is not the (unmodified) result of parse_file"
            if ok:
                pc = ds[0].stmt.value
                kw = {k.arg: norm(k.value) for k in pc.keywords}
                ok = norm(pc.args[0]) == "args.header" and kw.get("encoding") == "args.encoding"
                why = "parse_file is not called with the header path and the --encoding value"
    ctx.ob("R20.4", "dump:dumpmain|json mode", ok, msg=why, node=dm, mod=dump)
    # without --pcpp / --gcc the options given to parse_file carry no preprocessor (else the CLI result is that of a
    # different configuration than parse_file(path)): evaluated over the finite domain of the mode / flag arguments
    from ..booleval import paths_to as _paths
    popts = [n for n in dcfg.nodes for c in n.calls() if isinstance(c.func, ast.Name) and c.func.id == "ParserOptions"]
    okp = len(popts) == 1
    whyp = "ParserOptions(...) anchor vanished in dumpmain"
    if okp:
        pc = [c for c in popts[0].calls() if isinstance(c.func, ast.Name) and c.func.id == "ParserOptions"][0]
        pv = next((k.value for k in pc.keywords if k.arg == "preprocessor"), None)
        bad_modes = []
        if isinstance(pv, ast.Name):
            def symf(e):
                t = norm(e)
                return t if t in ("args.mode", "args.pcpp", "args.gcc", "args.depfile") else None
            for mode in ("json", "pprint", "repr", "brepr"):
                envs = _paths(dcfg, popts[0], {"args.mode": mode, "args.pcpp": False, "args.gcc": False, "args.depfile": None}, symf)
                if not envs or any(pv.id not in e or e[pv.id] is not None for e in envs):
                    bad_modes.append(mode)
            okp = not bad_modes
            whyp = f"with neither --pcpp nor --gcc a preprocessor can still reach ParserOptions in mode(s) {bad_modes}: the dumped data is that of a preprocessed header, not of parse_file(path)"
        else:
            okp = pv is None or (isinstance(pv, ast.Constant) and pv.value is None)
            whyp = "ParserOptions is given a preprocessor that is not the flag-selected one"
    ctx.ob("R20.4", "dump:dumpmain|no preprocessor unless one was asked for", okp, msg=whyp, node=popts[0].stmt if popts else dm, mod=dump)

    # ---------------------------------------------------------------- R20.5
    ctx.rule("R20.5", "nondefault_repr: container kinds covered; a field is skipped only for repr/compare off or value == declared default; qualified class name", minimum=4)
    gt = repo.mod("gentest")
    nr = gt.func("nondefault_repr")
    # the function that does the work: the one (nested, module-level, or nondefault_repr itself) that walks the dataclass fields
    cands = [x for x in ast.walk(nr) if isinstance(x, ast.FunctionDef)]
    todo_ = [nr]
    seen_f = set()
    while todo_:
        cur_ = todo_.pop()
        for c_ in ast.walk(cur_):
            if isinstance(c_, ast.Call) and isinstance(c_.func, ast.Name) and gt.has_func(c_.func.id) and c_.func.id not in seen_f:
                seen_f.add(c_.func.id)
                cands.append(gt.func(c_.func.id))
                todo_.append(gt.func(c_.func.id))
    def own_nodes(f):
        return [x for x in walk_local(f)]
    walkers = [f for f in cands if any(isinstance(x, ast.Attribute) and x.attr in ("repr", "compare") for x in own_nodes(f)) and any(isinstance(x, ast.For) for x in own_nodes(f))]
    walkers = list({id(f): f for f in walkers}.values())
    if len(walkers) != 1:
        raise AnalysisError("anchor vanished: the function of gentest that walks the dataclass fields for nondefault_repr")
    inner = walkers[0]
    # container kinds in the closure of ParsedData
    kinds: Set[str] = set()
    seen: Set[str] = set()
    work = ["ParsedData"]
    mods = [sm, repo.mod("types"), repo.mod("tokfmt")]
    while work:
        cn = work.pop()
        if cn in seen:
            continue
        seen.add(cn)
        node = None
        for m in mods:
            if m.has_cls(cn):
                node = m.cls(cn)
        if node is None:
            continue
        for b in node.bases:
            if isinstance(b, ast.Name):
                work.append(b.id)
        for st in node.body:
            if isinstance(st, ast.AnnAssign):
                for x in ast.walk(_parse_ann(st.annotation)):
                    if isinstance(x, ast.Subscript):
                        h = annotation_names(x.value)
                        if h and h[0] in ("List", "Dict", "Set", "Tuple", "Deque", "Sequence"):
                            kinds.add(h[0])
                    if isinstance(x, ast.Name):
                        work.append(x.id)
                    if isinstance(x, ast.Constant) and isinstance(x.value, str):
                        work.append(x.value.strip("'\""))
    txt = norm(inner)
    handled = set()
    if "isinstance(o, list)" in txt:
        handled.add("List")
    if "isinstance(o, dict)" in txt:
        handled.add("Dict")
    ctx.ob("R20.5", "gentest:nondefault_repr|container kinds of ParsedData are handled", kinds <= handled and "is_dataclass(o)" in txt,
           msg=f"container kinds in the result types: {sorted(kinds)}; handled by the type switch: {sorted(handled)}", node=inner, mod=gt, detail={"classes": len(seen)})
    # the walker's locals by role, so that the text comparisons below do not depend on what they are called
    import copy as _copy
    from ..normalize import _Renamer
    role: Dict[str, str] = {}
    ps_ = [a_.arg for a_ in inner.args.args if a_.arg not in ("self", "cls")]
    if ps_:
        role[ps_[0]] = "o"
    for x in walk_local(inner):
        if isinstance(x, ast.For) and isinstance(x.target, ast.Name) and isinstance(x.iter, ast.Call) and norm(x.iter.func).split(".")[-1] in ("fields", "get_fields"):
            role[x.target.id] = "f"
    fvar = next((k for k, v_ in role.items() if v_ == "f"), None)
    for x in walk_local(inner):
        if isinstance(x, ast.Assign) and len(x.targets) == 1 and isinstance(x.targets[0], ast.Name) and fvar:
            vt = norm(x.value)
            if vt.startswith("getattr(") and f"{fvar}.name" in vt:
                role[x.targets[0].id] = "v"
            elif vt in (f"{fvar}.default_factory()", f"{fvar}.default"):
                role[x.targets[0].id] = "default"
        if isinstance(x, ast.Call) and isinstance(x.func, ast.Attribute) and x.func.attr == "append" and isinstance(x.func.value, ast.Name) and fvar and f"{fvar}.name" in norm(x):
            role[x.func.value.id] = "vals"
    role = {k: v_ for k, v_ in role.items() if k != v_}
    if role and len(set(role.values())) == len(role) and not (set(role.values()) & ({n_.id for n_ in ast.walk(inner) if isinstance(n_, ast.Name)} - set(role))):
        inner = _Renamer(dict(role)).visit(_copy.deepcopy(inner))
        ast.fix_missing_locations(inner)
    icfg2 = CFG(inner)
    apps = [n for n in icfg2.nodes if n.kind == "stmt" and isinstance(n.stmt, ast.Expr) and isinstance(n.stmt.value, ast.Call) and norm(n.stmt.value.func) == "vals.append" and "f.name" in norm(n.stmt.value)]
    ok = len(apps) == 1
    why = "field loop anchor vanished"
    if ok:
        def canon(c: ast.AST, lab: str):
            # `not X` on the false side is X on the true side; a skip written as `if not X: continue` guards the rest by X
            while isinstance(c, ast.UnaryOp) and isinstance(c.op, ast.Not):
                c = c.operand
                lab = "T" if lab == "F" else "F"
            return (norm(c), lab)
        # a nested helper that returns the declared default (factory-aware) stands for the local `default`
        dflt_helpers = {f_.name for f_ in ast.walk(nr) if isinstance(f_, ast.FunctionDef) and "default_factory()" in norm(f_) and ".default" in norm(f_).replace(".default_factory", "")}

        def canon2(c, lab):
            t, l_ = canon(c, lab)
            t = t.replace("dataclasses.is_dataclass(", "is_dataclass(")
            for h_ in dflt_helpers:
                t = t.replace(f"{h_}(f)", "default")
            return (t, l_)
        deps = [canon2(d.cond, lab) for d, lab in icfg2.control_deps(apps[0]) if d.loop is None and d.cond is not None]
        want = {("is_dataclass(o)", "T"), ("f.repr and f.compare", "T"), ("v != default", "T")}
        extra = set(deps) - want
        missing = want - set(deps)
        ok = not extra and not missing
        why = f"a field is emitted under {sorted(deps)}; required exactly {sorted(want)}"
    ctx.ob("R20.5", "gentest:nondefault_repr|skip conditions", ok, msg=why + ": a field whose value differs from its declared default would be omitted (or a default one printed), so the repr no longer reconstructs an equal object", node=inner, mod=gt)
    wtxt = (norm(nr) + "\n" + norm(inner)).replace("dataclasses.MISSING", "MISSING")
    plain_default = wtxt.replace("f.default_factory", "")
    ok = "f.default_factory is not MISSING" in wtxt and "f.default_factory()" in wtxt and "f.default" in plain_default
    # what is not a dataclass or a container is printed with repr(): the only rendering that eval() is the inverse of for
    # every str / int / bool / None (json.dumps, str() or hand-made quoting are not: surrogates, quotes, non-finite floats)
    wnames = {f_.name for f_ in [nr, inner] + [x for x in ast.walk(nr) if isinstance(x, ast.FunctionDef)]} | {c_.func.id for f_ in [nr, inner] for c_ in ast.walk(f_) if isinstance(c_, ast.Call) and isinstance(c_.func, ast.Name) and gt.has_func(c_.func.id)}
    leaf_funcs = [gt.func(nm) for nm in sorted(wnames) if gt.has_func(nm)] + [x for x in ast.walk(nr) if isinstance(x, ast.FunctionDef)]
    leaf_funcs = list({id(f_): f_ for f_ in leaf_funcs}.values())
    # only the functions that produce the text: those with a composite return, and those whose result is returned by one of them
    def composite_ret(v_) -> bool:
        return any((isinstance(c_, ast.Call) and ((isinstance(c_.func, ast.Name) and c_.func.id in wnames) or (isinstance(c_.func, ast.Attribute) and c_.func.attr == "join"))) for c_ in ast.walk(v_))
    producing = {f_.name for f_ in leaf_funcs if any(isinstance(r_, ast.Return) and r_.value is not None and composite_ret(r_.value) for r_ in walk_local(f_))}
    grew = True
    while grew:
        grew = False
        for f_ in leaf_funcs:
            if f_.name not in producing:
                continue
            for r_ in walk_local(f_):
                if isinstance(r_, ast.Return) and r_.value is not None:
                    for c_ in ast.walk(r_.value):
                        if isinstance(c_, ast.Call) and isinstance(c_.func, ast.Name) and c_.func.id in wnames and c_.func.id not in producing:
                            producing.add(c_.func.id)
                            grew = True
    leaf_funcs = [f_ for f_ in leaf_funcs if f_.name in producing]
    bad_leaf = []
    n_leaf = 0
    for f_ in leaf_funcs:
        for r_ in walk_local(f_):
            if not isinstance(r_, ast.Return) or r_.value is None:
                continue
            v_ = r_.value
            locals_ = {t_.id for x_ in walk_local(f_) if isinstance(x_, (ast.Assign, ast.AnnAssign, ast.AugAssign, ast.For)) for tg_ in (x_.targets if isinstance(x_, ast.Assign) else [x_.target])
                       for t_ in ast.walk(tg_) if isinstance(t_, ast.Name)}
            composite = composite_ret(v_) or any(isinstance(y_, ast.Name) and y_.id in locals_ for y_ in ast.walk(v_))
            if composite:
                continue
            n_leaf += 1
            if not (isinstance(v_, ast.Call) and isinstance(v_.func, ast.Name) and v_.func.id == "repr" and len(v_.args) == 1 and isinstance(v_.args[0], ast.Name)):
                bad_leaf.append(short(r_, 50))
    ctx.ob("R20.5", "gentest:nondefault_repr|leaves are printed with repr()", n_leaf >= 1 and not bad_leaf,
           msg=f"{bad_leaf or 'no leaf rendering found'}: a value that is neither a dataclass nor a container is not rendered with repr(), so eval() of the generated text need not give the value back (non-BMP characters through json.dumps come back as surrogates)",
           node=inner, mod=gt, nontrivial=False)
    # nothing computed for one field of one object is kept for another: every function involved writes only to its own locals
    shared_writes = []
    funcs20 = list({id(f_): f_ for f_ in [nr, inner] + [x for x in ast.walk(nr) if isinstance(x, ast.FunctionDef)] + [x for x in ast.walk(inner) if isinstance(x, ast.FunctionDef)]}.values())
    for f_ in funcs20:
        own = {a_.arg for a_ in f_.args.args + f_.args.kwonlyargs}
        for x in walk_local(f_):
            if isinstance(x, (ast.Assign, ast.AnnAssign, ast.AugAssign, ast.For)):
                for t_ in (x.targets if isinstance(x, ast.Assign) else [x.target]):
                    own |= {y.id for y in ast.walk(t_) if isinstance(y, ast.Name) and isinstance(y.ctx, ast.Store)}
            if isinstance(x, (ast.ListComp, ast.GeneratorExp, ast.DictComp, ast.SetComp)):
                own |= {y.id for g_ in x.generators for y in ast.walk(g_.target) if isinstance(y, ast.Name)}
        for x in walk_local(f_):
            base = None
            if isinstance(x, ast.Subscript) and isinstance(x.ctx, (ast.Store, ast.Del)):
                base = x.value
            elif isinstance(x, ast.Call) and isinstance(x.func, ast.Attribute) and x.func.attr in ("append", "add", "update", "setdefault", "extend", "insert", "pop", "clear", "remove"):
                base = x.func.value
            elif isinstance(x, (ast.Nonlocal, ast.Global)):
                shared_writes.append(short(x))
            if isinstance(base, ast.Name) and base.id not in own:
                shared_writes.append(short(x, 40))
    ctx.ob("R20.5", "gentest:nondefault_repr|nothing is remembered from one field to the next", not shared_writes,
           msg=f"{sorted(set(shared_writes))} writes to something that outlives the field being printed (a cache of defaults, a shared list): what is printed for one object depends on which objects were printed before", node=inner, mod=gt, nontrivial=False)
    ctx.ob("R20.5", "gentest:nondefault_repr|declared default is factory-aware", ok, msg="the declared default is not taken from default_factory() when one exists", node=inner, mod=gt, nontrivial=False)
    ctx.ob("R20.5", "gentest:nondefault_repr|qualified class name", "__qualname__" in txt, msg="the class name printed is not the qualified name", node=inner, mod=gt, nontrivial=False)


def _parse_ann(a: ast.AST) -> ast.AST:
    if isinstance(a, ast.Constant) and isinstance(a.value, str):
        try:
            return ast.parse(a.value, mode="eval").body
        except SyntaxError:
            return a
    return a
