"""C09 -- layout between tokens never changes the result (decided: layout
tokens are invisible to the parser except where the statement says the line
end is significant, plus the layout hazards that are visible in the code)."""
from __future__ import annotations

import ast
from typing import Dict, List, Optional, Set, Tuple

from ..cfg import CFG, Node, reaching_defs
from ..kinds import node_containing
from ..lexmodel import LexModel
from ..model import AnalysisError, attr_chain, is_self_attr, norm, short, walk_local
from ..pmodel import LEX_ALL, ParserModel
from ..report import Ctx, SubCtx
from ..rx import Auto
from ..tokbuf import FillModel

LEVEL = "who-may-call / filter-discipline rules on the token stream, automaton facts on layout rules"
EXPLANATION = (
    "R9.1 parser.py reaches the token stream only through the filtering accessors; the raw buffer and the raw lexer are never touched "
    "there; the newline-preserving accessor is used only by the #pragma scanner. R9.2 every accessor that inspects a token obtains it "
    "through a loop that drops the discard set (or from such an accessor); the discard set is exactly blanks, newlines and the two "
    "comment kinds (whose rules match only blanks / only newlines / start with '//' and '/*'); the newline-preserving set is that minus "
    "NEWLINE; push-back is to the left and order preserving. R9.3 where the line end is significant, a discarded token that can contain "
    "a newline is itself tested for one. R9.4 the #include operand must not take a trailing comment with it. R9.5 the text handed to the "
    "lexer is CR-normalised (or no delivered token could end in a carriage return). R9.6 the splice guard admits every buffer length that "
    "the index needs. R9.7 the trailing-comment scan re-queues what it does not consume. Not decided: equality of results under re-layout as such."
)

DOCUMENTED_DISCARD = {"WHITESPACE", "NEWLINE", "COMMENT_SINGLELINE", "COMMENT_MULTILINE"}
FILTERING = {"token", "token_eof_ok", "token_newline_eof_ok"}


def run(ctx: Ctx) -> None:
    pm = ParserModel(ctx.repo)
    lm = LexModel(ctx.repo)
    fm = FillModel(ctx.repo)
    lex = lm.lexer
    mod = pm.mod
    flags = lm.reflags
    ctx.trusted = ["PLY rule order / flags (anchors in _ply/lex.py)"]
    ctx.undecided = ["equality of results under re-layout as such (runtime relation over all gaps)"]

    # ---------------------------------------------------------------- R9.1
    ctx.rule("R9.1", "parser.py uses only the filtering accessors of the token stream", minimum=100)
    allowed = LEX_ALL | {"has_tokens"}
    for fname, fn in pm.methods.items():
        for x in walk_local(fn):
            if isinstance(x, ast.Attribute):
                ch = pm.chain(fname, x)
                if ch and len(ch) >= 3 and ch[0] == "self" and ch[1] == "lex":
                    par = mod.parent.get(x)
                    if isinstance(par, ast.Attribute) and par.value is x:
                        continue  # inner part of a longer chain
                    a = ch[2]
                    ok = a in allowed and len(ch) == 3
                    if a == "token_newline_eof_ok":
                        ok = ok and fname == "_process_pragma_directive"
                    ctx.ob("R9.1", f"parser:CxxParser.{fname}|self.lex.{'.'.join(ch[2:])}", ok,
                           msg=f"`{short(x)}` reaches past the filtering accessors (or uses the newline-preserving accessor outside the #pragma scanner): layout tokens become visible to the parser",
                           node=x, mod=mod, nontrivial=False)
            if isinstance(x, ast.Attribute) and x.attr in ("tokbuf", "_lex", "_fill_tokbuf"):
                ctx.ob("R9.1", f"parser:CxxParser.{fname}|touches .{x.attr}", False, msg=f"parser.py touches the raw token buffer / lexer (`{short(x)}`)", node=x, mod=mod)

    # ---------------------------------------------------------------- R9.2
    ctx.rule("R9.2", "accessors filter through the discard sets; the sets are the documented layout kinds; push-back keeps order", minimum=12)
    ctx.ob("R9.2", "lexer:TokenStream._discard_types", lm.discard == DOCUMENTED_DISCARD, msg=f"_discard_types = {sorted(lm.discard)}; layout is blanks, newlines, // and /* */ comments", node=lex.cls("TokenStream"), mod=lex, nontrivial=False)
    ctx.ob("R9.2", "lexer:TokenStream._discard_types_except_newline", lm.discard_nonl == DOCUMENTED_DISCARD - {"NEWLINE"}, msg=f"_discard_types_except_newline = {sorted(lm.discard_nonl)}", node=lex.cls("TokenStream"), mod=lex, nontrivial=False)
    ws, nl = lm.rule("t_WHITESPACE").auto(flags), lm.rule("t_NEWLINE").auto(flags)
    ctx.ob("R9.2", "lexer:PlyLexer.t_WHITESPACE|matches blanks only", ws.alphabet_used() <= frozenset(" \t"), msg=f"WHITESPACE can match {sorted(ws.alphabet_used() - frozenset(' \t'))[:5]}: discarding it would lose text", node=lm.rule("t_WHITESPACE").node, mod=lex)
    ctx.ob("R9.2", "lexer:PlyLexer.t_NEWLINE|matches newlines only", nl.alphabet_used() <= frozenset("\n"), msg="NEWLINE can match something other than newlines", node=lm.rule("t_NEWLINE").node, mod=lex)
    for r, pre in (("t_COMMENT_SINGLELINE", "//"), ("t_COMMENT_MULTILINE", "/*")):
        ctx.ob("R9.2", f"lexer:PlyLexer.{r}|starts with {pre}", lm.rule(r).auto(flags).mandatory_prefix().startswith(pre), msg=f"{r} no longer has the mandatory prefix {pre!r}", node=lm.rule(r).node, mod=lex)
    # every comment of the reference grammar is one comment token (so it can be discarded as a whole)
    from ..rx import not_included, prefix_preempts
    from .c08 import REFERENCE
    for name, rx_, rname in REFERENCE:
        if "comment" not in name:
            continue
        R = Auto(rx_, 0, name=name)
        rule = lm.rule(rname)
        cex = not_included(R, rule.auto(flags))
        pre = [(E.name, w) for E in lm.rules[: rule.prio] for w in [prefix_preempts(E.auto(flags), R)] if w is not None]
        ctx.ob("R9.2", f"lexer:PlyLexer.{rname}|every {name} is one token", cex is None and not pre,
               msg=f"the {name} {cex!r} is not matched as a whole by {rname}" if cex is not None else f"an earlier rule takes a prefix of a {name}: {pre[:1]}",
               node=rule.node, mod=lex)
    ts = "TokenStream"
    meths = lex.methods(ts)
    for name, setname in (("token", "_discard_types"), ("token_eof_ok", "_discard_types"), ("token_newline_eof_ok", "_discard_types_except_newline")):
        fn = meths.get(name)
        ok = fn is not None
        if ok:
            cfg = CFG(fn)
            rets = [n for n in cfg.nodes if n.kind == "stmt" and isinstance(n.stmt, ast.Return) and isinstance(n.stmt.value, ast.Name)]
            ok = bool(rets)
            same_set = {"token": {"token_eof_ok"}, "token_eof_ok": {"token"}, "token_newline_eof_ok": set()}[name]
            rd_f = reaching_defs(cfg)
            for r in rets:
                var = r.stmt.value.id
                # the token comes straight from a sibling accessor that filters through the same set (checked on its own)
                ds_ = [cfg.nodes[i] for i in rd_f.get(r.id, {}).get(var, ())]
                if ds_ and all(isinstance(getattr(d.stmt, "value", None), ast.Call) and is_self_attr(d.stmt.value.func) and d.stmt.value.func.attr in same_set and d.stmt.value.func.attr in meths for d in ds_):
                    continue
                deps = cfg.control_deps(r)
                filt = [d for d, lab in deps if isinstance(d.cond, ast.Compare) and attr_chain(d.cond.left) == (var, "type") and isinstance(d.cond.ops[0], ast.NotIn) and attr_chain(d.cond.comparators[0]) == ("self", setname) and lab == "T"]
                # a second return of a discarded token is allowed only for "ends the line" (newline-significant accessor)
                nlend = [d for d, lab in deps if "endswith('\\n')" in norm(d.cond) and lab == "T"]
                if not filt and not (name == "token_newline_eof_ok" and nlend):
                    ok = False
        ctx.ob("R9.2", f"lexer:TokenStream.{name}|returns only tokens outside {setname}", ok,
               msg=f"{name} can return a token without testing it against {setname}: a layout token reaches the parser", node=fn or lex.cls(ts), mod=lex)
    def delegates(fn_: ast.FunctionDef) -> Optional[str]:
        """`return self.<other accessor>(...)` as the whole body: the other accessor's obligations carry over"""
        body = [s_ for s_ in fn_.body if not (isinstance(s_, ast.Expr) and isinstance(s_.value, ast.Constant))]
        if len(body) == 1 and isinstance(body[0], ast.Return) and isinstance(body[0].value, ast.Call) and is_self_attr(body[0].value.func) and body[0].value.func.attr in meths \
                and body[0].value.func.attr != fn_.name:
            return body[0].value.func.attr
        return None

    for name, fn in meths.items():
        if name in FILTERING or name.startswith("_") or name in ("current_location", "get_doxygen", "get_doxygen_after", "return_token", "return_tokens"):
            continue
        if delegates(fn) and delegates(fn) not in FILTERING:
            ctx.ob("R9.2", f"lexer:TokenStream.{name}|inspects only filtered tokens", True, node=fn, mod=lex, nontrivial=False, detail={"delegates_to": delegates(fn)})
            continue
        # every token whose type/value is inspected comes from a filtering accessor
        cfg = CFG(fn)
        rd = reaching_defs(cfg)
        bad = []
        inspected = 0
        for n in cfg.nodes:
            for x in n.walk():
                if isinstance(x, ast.Attribute) and x.attr in ("type", "value") and isinstance(x.value, ast.Name):
                    inspected += 1
                    v = x.value.id
                    for di in rd.get(n.id, {}).get(v, ()):
                        d = cfg.nodes[di]
                        val = getattr(d.stmt, "value", None)
                        okk = isinstance(val, ast.Call) and is_self_attr(val.func) and val.func.attr in FILTERING
                        if not okk:
                            bad.append(f"`{v}` from `{short(d.stmt, 40)}`")
        ctx.ob("R9.2", f"lexer:TokenStream.{name}|inspects only filtered tokens", not bad and inspected > 0,
               msg=f"{name} decides on a token that did not come through a filtering accessor ({bad[:2]}): a comment or blank in that gap changes the answer", node=fn, mod=lex)
    # look-ahead accessors: the token obtained is either handed to the caller or put back, exactly once
    for name, fn in meths.items():
        if name in FILTERING or name.startswith("_") or name in ("current_location", "get_doxygen", "get_doxygen_after", "return_token", "return_tokens"):
            continue
        if delegates(fn) and delegates(fn) not in FILTERING:
            ctx.ob("R9.2", f"lexer:TokenStream.{name}|looked-at token returned or pushed back exactly once", True, node=fn, mod=lex, nontrivial=False, detail={"delegates_to": delegates(fn)})
            continue
        cfg = CFG(fn)
        acq = [n for n in cfg.nodes if n.kind == "stmt" and isinstance(n.stmt, ast.Assign) and isinstance(n.stmt.value, ast.Call) and is_self_attr(n.stmt.value.func) and n.stmt.value.func.attr in FILTERING and isinstance(n.stmt.targets[0], ast.Name)]
        bad = []
        for a in acq:
            v = a.stmt.targets[0].id
            seen = set()
            st = [(s_, 0, False) for s_, lab in a.succ if lab != "exc"]
            while st:
                x, pushed, isnone = st.pop()
                if (x.id, pushed, isnone) in seen:
                    continue
                seen.add((x.id, pushed, isnone))
                stx = x.stmt
                if x.kind == "stmt" and isinstance(stx, ast.Expr) and isinstance(stx.value, ast.Call) and norm(stx.value.func) in ("self.tokbuf.appendleft",) and stx.value.args and isinstance(stx.value.args[0], ast.Name) and stx.value.args[0].id == v:
                    pushed += 1
                if x.kind == "stmt" and isinstance(stx, ast.Assign) and any(isinstance(t, ast.Name) and t.id == v for t in stx.targets) and x is not a:
                    # the variable is overwritten (`tok = None`): what is returned through it is no longer the looked-at token
                    pushed += 100
                if x.kind == "stmt" and isinstance(stx, ast.Return):
                    returns_tok = isinstance(stx.value, ast.Name) and stx.value.id == v and pushed < 100
                    pushed = pushed % 100
                    if isnone:
                        pass
                    elif returns_tok and pushed != 0:
                        bad.append(f"`{short(stx)}` returns a token that was also pushed back (it will be seen twice)")
                    elif not returns_tok and pushed != 1:
                        bad.append(f"`{short(stx)}` is reached with the looked-at token pushed back {pushed} time(s) (it is lost, or duplicated)")
                    continue
                for s_, lab in x.succ:
                    if lab == "exc":
                        continue
                    nn = isnone
                    c = x.cond
                    if x.kind == "test" and c is not None:
                        t = norm(c)
                        if t in (f"{v} is None", f"not {v}") and lab == "T":
                            nn = True
                        if t in (f"{v} is None", f"not {v}") and lab == "F":
                            nn = False
                    st.append((s_, pushed, nn))
        ctx.ob("R9.2", f"lexer:TokenStream.{name}|looked-at token returned or pushed back exactly once", bool(acq) and not bad,
               msg=f"{name}: {bad[:1]}", node=fn, mod=lex)
    for name in ("return_token", "return_tokens"):
        fn = meths.get(name)
        txt = norm(fn) if fn else ""
        if name == "return_token":
            ok = "self.tokbuf.appendleft(tok)" in txt
        else:
            # the tokens go back to the FRONT, first token first: extendleft/appendleft reverse, so the input is walked backwards
            p0 = fn.args.args[1].arg if fn and len(fn.args.args) > 1 else "toks"
            rev = (f"reversed({p0})", f"{p0}[::-1]")
            ok = any(f"self.tokbuf.extendleft({r})" in txt for r in rev)
            if not ok and fn is not None:
                for lp in walk_local(fn):
                    if isinstance(lp, ast.For) and isinstance(lp.target, ast.Name) and norm(lp.iter) in rev and len(lp.body) == 1 and norm(lp.body[0]) == f"self.tokbuf.appendleft({lp.target.id})" and not lp.orelse:
                        ok = True
        ctx.ob("R9.2", f"lexer:TokenStream.{name}|pushes back to the left, order preserved", ok, msg=f"{name} no longer restores tokens at the front of the buffer in their original order", node=fn or lex.cls(ts), mod=lex, nontrivial=False)

    # ---------------------------------------------------------------- R9.3
    ctx.rule("R9.3", "where the line end is significant, a discarded token that can contain a newline is tested for one", minimum=2)
    hazard = [t for t in sorted(lm.discard_nonl) if lm.rule("t_" + t).auto(flags).can_contain("\n")]
    tn = meths.get("token_newline_eof_ok")
    tested = tn is not None and any(isinstance(c, ast.Call) and isinstance(c.func, ast.Attribute) and c.func.attr == "endswith" and c.args and isinstance(c.args[0], ast.Constant) and c.args[0].value == "\n" for c in walk_local(tn))
    ctx.ob("R9.3", "lexer:TokenStream.token_newline_eof_ok|discarded tokens that swallow a newline end the line", not hazard or tested,
           msg=f"{hazard} are discarded by the newline-preserving accessor although their rules swallow the newline that follows them: '#pragma once // c' runs into the next line", node=tn or lex.cls(ts), mod=lex)
    pr = pm.fn("_process_pragma_directive")
    pcfg = pm.cfg("_process_pragma_directive")
    acq = [n for n in pcfg.nodes if any(r == ("lex", "token_newline_eof_ok") for c, r in pm.node_calls("_process_pragma_directive", n))]
    ok = len(acq) >= 1
    for a_ in acq:
        # the first thing decided about a token just read is whether it ends the line
        # (a test of nothing but whether there is a token at all may come first; on its "no token" side nothing is kept)
        tv = a_.stmt.targets[0].id if isinstance(a_.stmt, ast.Assign) and len(a_.stmt.targets) == 1 and isinstance(a_.stmt.targets[0], ast.Name) else None
        frontier = [s for s, lab in a_.succ if lab != "exc"]
        okk = bool(frontier)
        seen_ = set()
        while frontier and okk:
            x = frontier.pop()
            if x.id in seen_:
                continue
            seen_.add(x.id)
            c = norm(x.cond) if x.kind == "test" and x.cond is not None else None
            if c is not None and ("endswith('\\n')" in c or (not hazard and "NEWLINE" in c)):
                continue  # decided here
            if c is not None and tv is not None and c in (tv, f"not {tv}", f"{tv} is None", f"{tv} is not None"):
                has_tok = "T" if c in (tv, f"{tv} is not None") else "F"
                frontier.extend(s for s, lab in x.succ if lab == has_tok)
                continue
            okk = False
        ok = ok and okk
    ctx.ob("R9.3", "parser:CxxParser._process_pragma_directive|stops at the line end", ok, msg="the #pragma scanner does not stop at every token that ends the line", node=pr, mod=mod)

    # ---------------------------------------------------------------- R9.4
    ctx.rule("R9.4", "#include operand does not take a trailing comment with it", minimum=1)
    inc = lm.rule("t_INCLUDE_DIRECTIVE").auto(flags)
    takes_comment = inc.matches("#include <a.h> // c") or inc.matches("#include <a.h> /* c */")
    pi = pm.fn("_process_include_directive")
    strips = any(isinstance(x, ast.Constant) and isinstance(x.value, str) and ("//" in x.value or "/\\*" in x.value or "/*" in x.value) for x in ast.walk(pi))
    ctx.ob("R9.4", "lexer:PlyLexer.t_INCLUDE_DIRECTIVE|trailing comment", not takes_comment or strips,
           msg="the #include rule matches to the end of the line, comment included, and the handler does not strip it: '#include <a.h> // c' reports the file name '<a.h> // c'",
           node=lm.rule("t_INCLUDE_DIRECTIVE").node, mod=lex)

    # the blanks the include rule admits between '#' and 'include' are removed by the handler before it splits the
    # directive at the first blank: its compressing pattern must cover every character the rule admits there
    import re._parser as _rp  # type: ignore[import]

    def blanks_after_hash(pattern: str) -> Optional[Set[str]]:
        try:
            items = list(_rp.parse(pattern))
        except Exception:
            return None
        items = [it for it in items if str(it[0]) != "AT"]
        if not items or str(items[0][0]) != "LITERAL" or chr(items[0][1]) != "#" or len(items) < 2:
            return None
        op, arg = items[1]
        if str(op) not in ("MAX_REPEAT", "MIN_REPEAT"):
            return set()
        sub = list(arg[2])
        out: Set[str] = set()
        if len(sub) != 1:
            return None
        sop, sarg = sub[0]
        if str(sop) == "LITERAL":
            out.add(chr(sarg))
        elif str(sop) == "IN":
            for iop, iarg in sarg:
                if str(iop) == "LITERAL":
                    out.add(chr(iarg))
                elif str(iop) == "RANGE":
                    out |= {chr(c_) for c_ in range(iarg[0], iarg[1] + 1)}
                elif str(iop) == "CATEGORY" and "SPACE" in str(iarg):
                    out |= set(" \t\n\r\f\v")
                else:
                    return None
        else:
            return None
        return out

    admitted = blanks_after_hash(lm.rule("t_INCLUDE_DIRECTIVE").regex)
    comp = ctx.repo.folder("parser", "CxxParser").get("_preprocessor_compress_re")
    removed = blanks_after_hash(getattr(comp, "pattern", comp) if not isinstance(comp, str) else comp)
    ctx.ob("R9.4", "parser:CxxParser._preprocessor_compress_re|covers the blanks the include rule admits after '#'", admitted is not None and removed is not None and admitted <= removed,
           msg=f"the include rule admits {sorted(admitted or [])!r} between '#' and 'include', the handler only removes {sorted(removed or [])!r} there: '#\\tinclude <x.h>' is split at the tab and the file is reported as 'include <x.h>'",
           node=pi, mod=mod, nontrivial=False)

    # The operand is everything after the directive name: the text is cut ONCE, at the first run of blanks, and the second
    # piece is the name.  A split without a limit cuts a file name that contains blanks ("my header.h") into words and
    # reports the first one.
    splits = [c for c in walk_local(pi) if isinstance(c, ast.Call) and isinstance(c.func, ast.Attribute) and c.func.attr in ("split", "partition")]
    one_cut = False
    for c in splits:
        if c.func.attr == "partition":
            one_cut = True
        else:
            recv_is_re = "_re" in norm(c.func.value) or "re." in norm(c.func.value)
            lim = (c.args[1] if len(c.args) > 1 else None) if recv_is_re else (c.args[1] if len(c.args) > 1 else None)
            for k_ in c.keywords:
                if k_.arg == "maxsplit":
                    lim = k_.value
            if isinstance(lim, ast.Constant) and lim.value == 1:
                one_cut = True
    if splits:
        ctx.ob("R9.4", "parser:CxxParser._process_include_directive|the operand is cut off once, at the first blank", one_cut,
               msg="the directive text is split at every run of blanks: a file name that contains a blank is reported up to that blank only", node=splits[0], mod=mod, nontrivial=False)

    # ---------------------------------------------------------------- R9.5
    ctx.rule("R9.5", "carriage returns: input is CRLF-normalised before lexing, or no delivered token can end in / swallow a CR", minimum=1)
    li = lex.func("LexerTokenStream.__init__")
    norm_ok = False
    for c in walk_local(li):
        if isinstance(c, ast.Call) and isinstance(c.func, ast.Attribute) and c.func.attr == "input" and c.args:
            a = c.args[0]
            if isinstance(a, ast.Call) and isinstance(a.func, ast.Attribute) and a.func.attr == "replace" and [getattr(x, "value", None) for x in a.args] == ["\r\n", "\n"] and isinstance(a.func.value, ast.Name):
                norm_ok = True
    cr_enders = [r.tokname for r in lm.rules if r.delivers and r.auto(flags).can_end_with("\r")]
    ctx.ob("R9.5", "lexer:LexerTokenStream.__init__|CRLF handling", norm_ok or not cr_enders,
           msg=f"the text is lexed as given and {cr_enders} can end in a carriage return: with CRLF line ends doc comments detach and '\\r' ends up in doc strings and include names", node=li, mod=lex)

    # ---------------------------------------------------------------- R9.8
    # The look-ahead accessors answer one question each: "is the next token of one of these TYPES" (token_if,
    # token_if_in_set, token_if_not, token_peek_if) or "does it have one of these TEXTS" (token_if_val).  An identifier may
    # spell a token type (`ELLIPSIS`, `DBL_COLON`, `NAME`), so an accessor that looks at both attributes takes such an
    # identifier for the punctuator.  Every membership test against the accessor's argument reads exactly its attribute.
    ctx.rule("R9.8", "look-ahead accessors compare exactly one token attribute with their argument: the type (token_if_val: the text)", minimum=4)
    for acc, want_attr in (("token_if", "type"), ("token_if_in_set", "type"), ("token_if_not", "type"), ("token_peek_if", "type"), ("token_if_val", "value")):
        try:
            afn = lex.func(f"TokenStream.{acc}")
        except AnalysisError:
            continue
        params = {a.arg for a in afn.args.args[1:]} | ({afn.args.vararg.arg} if afn.args.vararg else set())
        bad = None
        seen_ = 0
        for x in walk_local(afn):
            if isinstance(x, ast.Compare) and len(x.ops) == 1 and isinstance(x.ops[0], (ast.In, ast.NotIn)) and isinstance(x.comparators[0], ast.Name) and x.comparators[0].id in params:
                seen_ += 1
                if not (isinstance(x.left, ast.Attribute) and x.left.attr == want_attr):
                    bad = x
        if seen_:
            ctx.ob("R9.8", f"lexer:TokenStream.{acc}|decides on the token's {want_attr} only", bad is None,
                   msg=f"`{short(bad, 50) if bad is not None else ''}`: {acc} also accepts a token by its {'text' if want_attr == 'type' else 'type'}: an identifier spelled like a token type (a parameter called ELLIPSIS, a name DBL_COLON) is taken for that token", node=bad or afn, mod=lex, nontrivial=False)

    if isinstance(ctx, SubCtx) and not (set(ctx._map) & {"R9.6", "R9.7"}):
        return  # evaluated for another property that shares only rules above (the buffer-fill interpretation is skipped)
    # ---------------------------------------------------------------- R9.6
    ctx.rule("R9.6", "line splice: a (backslash, NEWLINE) pair is removed wherever it falls in the buffer and nothing else is; the line goes on after it", minimum=2)
    # decided by interpreting the buffer fill over every short script of raw tokens, started with an empty buffer and with
    # one that already ends in a backslash (sa/fillmodel.py)
    from .. import fillmodel
    fillmodel.obligations(ctx, "R9.6", lex, set(lm.udl_start), ("line", "keep"))

    # ---------------------------------------------------------------- R9.7
    ctx.rule("R9.7", "trailing-comment scan re-queues every token it does not consume", minimum=3)
    from .c11 import run as _  # noqa: F401
    ga = lex.func("LexerTokenStream.get_doxygen_after")
    txt = norm(ga)
    from ..scanloop import walks
    ws, _, _ = walks(lex)
    from ..scanloop import kept_restored
    ok = kept_restored(ga)
    ctx.ob("R9.7", "lexer:LexerTokenStream.get_doxygen_after|rest of the buffer re-queued", ok, msg="the trailing-comment scan does not put the unscanned rest of the buffer back", node=ga, mod=lex, nontrivial=False)
    for cname in sorted({w.cls for w in ws if w.cls.startswith("real token")}):
        lost = [w for w in ws if w.cls == cname and not w.kept]
        ctx.ob("R9.7", f"lexer:LexerTokenStream.get_doxygen_after|{cname} kept", not lost,
               msg=f"the trailing-comment scan can drop a {cname} (walk through the tests at lines {lost[0].trail if lost else ()} {lost[0].outcome + 's the loop' if lost else ''} without appending it to the new buffer)", node=ga, mod=lex,
               detail={"walks": len([w for w in ws if w.cls == cname])})
