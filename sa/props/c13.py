"""C13 -- skipped regions are skipped exactly."""
from __future__ import annotations

import ast
from typing import Dict, List, Optional, Set, Tuple

from ..cfg import CFG, Node, reaching_defs
from ..kinds import node_containing
from ..model import AnalysisError, attr_chain, norm, short, walk_local
from ..pmodel import LEX_CONSUME, ParserModel
from ..report import Ctx
from .. import balanced as balanced_model, linear
from .c10 import linear_form


LEVEL = "structural rules on the region skippers of parser.py"
EXPLANATION = (
    "R13.1 every _discard_contents(a, b) passes an (opener, closer) pair of _balanced_token_map and is dominated by the consumption of a "
    "token of type a. R13.2 the counting loop of _discard_contents has the required transition table (level starts at 1; opener +1; "
    "closer -1 and leave iff 0; anything else unchanged; exactly one token per iteration; no other exit). R13.3 the attribute and "
    "static_assert consumers hand the opener(s) they consumed to the balanced consumer / discarder and let the result flow nowhere. "
    "R13.4 the balanced consumer keeps every token it reads, pushes the map's closer for every opener, uses its stack last-in-first-out "
    "and returns only with an empty stack. Not decided: that the constructor-initializer scanner finds the body for every initializer "
    "expression (value-level), and equality of results under region replacement as such."
)


def run(ctx: Ctx) -> None:
    pm = ParserModel(ctx.repo)
    mod = pm.mod
    F = ctx.repo.folder("parser", "CxxParser")
    bmap = dict(F.get("_balanced_token_map"))
    ctx.trusted = ["_balanced_token_map as the table of bracket pairs"]
    ctx.undecided = ["_discard_ctor_initializer finds the function body for every initializer expression (value-level)",
                     "result equality under replacement of region content (runtime relation)"]

    # ---------------------------------------------------------------- R13.1
    ctx.rule("R13.1", "_discard_contents(a, b): (a, b) is a bracket pair and a token of type a was just consumed", minimum=6)
    arity = len(pm.fn("_discard_contents").args.args) - 1
    if arity not in (1, 2):
        raise AnalysisError("_discard_contents signature changed")
    for fname, call in pm.call_sites("_discard_contents"):
        a = call.args[0] if len(call.args) > 0 else None
        b = call.args[1] if len(call.args) > 1 else None
        if arity == 1:
            # the callee derives the closer from the opener itself (R13.2 runs it for every pair of the map)
            ok = isinstance(a, ast.Constant) and a.value in bmap
            why = "" if ok else f"{short(a)} is not an opener of _balanced_token_map"
            if not ok and a is not None:
                ch = attr_chain(a)
                cfg = pm.cfg(fname)
                n = node_containing(cfg, call)
                if ch and len(ch) == 1 and n is not None:
                    ch = (ch[0], "type")  # the opener token itself is handed over
                if ch and len(ch) == 2 and ch[1] == "type" and n is not None:
                    c_ = _typefacts(pm, fname).at(n, ch[0])
                    if c_[0] == "in" and c_[1] and set(c_[1]) <= set(bmap):
                        ctx.ob("R13.1", f"parser:CxxParser.{fname}|_discard_contents({short(a)}) #{_site_idx(pm, fname, call)}", True, node=call, mod=mod, detail={"openers": sorted(c_[1])})
                        continue
            if ok:
                cfg = pm.cfg(fname)
                n = node_containing(cfg, call)
                if not _opener_consumed(pm, fname, cfg, n, a.value):
                    ok = False
                    why = f"no dominating consumption or test of a '{a.value}' token: the skipper would start counting in the middle of something else"
            ctx.ob("R13.1", f"parser:CxxParser.{fname}|_discard_contents({short(a)}) #{_site_idx(pm, fname, call)}", ok, msg=why, node=call, mod=mod)
            continue
        ok = isinstance(a, ast.Constant) and isinstance(b, ast.Constant) and bmap.get(a.value) == b.value
        why = "" if ok else f"({short(a)}, {short(b)}) is not an opener/closer pair of _balanced_token_map"
        if not ok and a is not None and b is not None and not isinstance(a, ast.Constant):
            # (<type of the token just read>, <the map's closer for that type>): a pair for every opener the token can be
            cfg = pm.cfg(fname)
            n = node_containing(cfg, call)
            rd_ = reaching_defs(cfg)
            bexpr = b
            if isinstance(b, ast.Name) and n is not None:
                ds = list(rd_.get(n.id, {}).get(b.id, ()))
                if len(ds) == 1 and isinstance(cfg.nodes[ds[0]].stmt, ast.Assign):
                    bexpr = cfg.nodes[ds[0]].stmt.value
            aexpr = a
            if isinstance(a, ast.Name) and n is not None:
                ds = list(rd_.get(n.id, {}).get(a.id, ()))
                if len(ds) == 1 and isinstance(cfg.nodes[ds[0]].stmt, ast.Assign):
                    aexpr = cfg.nodes[ds[0]].stmt.value
            is_lookup = isinstance(bexpr, ast.Subscript) and norm(bexpr.value) in ("self._balanced_token_map", "token_map") and norm(bexpr.slice) in (norm(a), norm(aexpr))
            ch = attr_chain(aexpr)
            if is_lookup and ch and len(ch) == 2 and ch[1] == "type" and n is not None:
                c_ = _typefacts(pm, fname).at(n, ch[0])
                if c_[0] == "in" and c_[1] and set(c_[1]) <= set(bmap):
                    ctx.ob("R13.1", f"parser:CxxParser.{fname}|_discard_contents({short(a)}, {short(b)}) #{_site_idx(pm, fname, call)}", True, node=call, mod=mod, detail={"openers": sorted(c_[1])})
                    continue
                why = f"the token whose type opens the skipped region is not known to be an opener here (possible types: {sorted(c_[1]) if c_[0] == 'in' else 'anything'})"
        if ok:
            cfg = pm.cfg(fname)
            n = node_containing(cfg, call)
            if not _opener_consumed(pm, fname, cfg, n, a.value):
                ok = False
                why = f"no dominating consumption or test of a '{a.value}' token: the skipper would start counting in the middle of something else"
        ctx.ob("R13.1", f"parser:CxxParser.{fname}|_discard_contents({short(a)}, {short(b)}) #{_site_idx(pm, fname, call)}", ok, msg=why, node=call, mod=mod)

    # ---------------------------------------------------------------- R13.8
    # A region is a sequence of *tokens*: a brace inside a string, a character literal or a comment does not count, and
    # only the lexer knows which is which.  The parser (and so every skipper) reaches the input through the token
    # accessors only -- C09's who-may-call rule R9.1, evaluated here under this property's id: a skipper that scans the
    # raw text, or a new stream method that does, is not a token-level skip.
    from . import c09 as _c09
    from ..report import run_shared as _run_shared
    _run_shared(ctx, _c09.run, {"R9.1": ("R13.8", "regions are skipped token by token: parser.py reaches the input only through the token accessors of the stream (no raw-text scan, no new stream method)")})

    # ---------------------------------------------------------------- R13.2
    ctx.rule("R13.2", "_discard_contents: level 1, +1 on opener, -1 on closer and leave iff 0, one token per iteration, no other exit", minimum=5)
    _counting_loop(ctx, pm)

    # ---------------------------------------------------------------- R13.3
    ctx.rule("R13.3", "attribute / static_assert consumers: openers consumed are the ones handed on; the consumed tokens flow nowhere", minimum=5)
    for fname in ("_consume_gcc_attribute", "_consume_declspec", "_consume_attribute_specifier_seq", "_consume_static_assert", "_consume_attribute"):
        fn = pm.fn(fname)
        cfg = pm.cfg(fname)
        rd = reaching_defs(cfg)
        why = []
        ok = True
        groups = 0
        for n in cfg.nodes:
            for c, r in pm.node_calls(fname, n):
                if r == ("self", "_consume_balanced_tokens"):
                    groups += 1
                    # each positional argument is a token obtained by _next_token_must_be(<opener>) or the entry token under a type test
                    for a in c.args:
                        if not isinstance(a, ast.Name):
                            ok = False
                            why.append(f"opener argument `{short(a)}` is not a token variable")
                            continue
                        defs = [cfg.nodes[i] for i in rd.get(n.id, {}).get(a.id, ())]
                        for d in defs:
                            if d is cfg.entry:
                                # the handler's own token: must be guarded by a test of its type being an opener
                                if not _dominated_by_type_test(cfg, n, a.id, set(bmap)):
                                    ok = False
                                    why.append(f"`{a.id}` (the introducing token) is handed on as an opener without a test that it is one")
                                continue
                            v = getattr(d.stmt, "value", None)
                            rr = pm.resolve(fname, v) if isinstance(v, ast.Call) else None
                            if rr == ("self", "_next_token_must_be"):
                                ts = [x.value for x in v.args if isinstance(x, ast.Constant)]
                                if not ts or not all(t in bmap for t in ts):
                                    ok = False
                                    why.append(f"`{short(d.stmt)}` does not require an opening bracket")
                            elif isinstance(v, ast.Name) or (rr and rr[0] == "lex" and rr[1] == "token_if"):
                                pass  # re-binding of a token that was type-tested (attribute sequence loop)
                            else:
                                ok = False
                                why.append(f"opener `{a.id}` comes from `{short(d.stmt)}`")
                    # the result must not be used
                    par = mod.parent.get(c)
                    if isinstance(par, ast.Assign):
                        for t in par.targets:
                            if isinstance(t, ast.Name):
                                uses = [x for x in walk_local(fn) if isinstance(x, ast.Name) and x.id == t.id and isinstance(x.ctx, ast.Load)]
                                if uses:
                                    ok = False
                                    why.append(f"the consumed tokens `{t.id}` are used afterwards")
                    elif not isinstance(par, ast.Expr):
                        ok = False
                        why.append(f"the consumed tokens flow into `{short(par)}`")
                if r and r[0] == "visitor":
                    ok = False
                    why.append("an attribute consumer emits a callback")
        if fname == "_consume_gcc_attribute":
            # __attribute__((...)): both parentheses are consumed and both are handed on
            calls = [c for n in cfg.nodes for c, r in pm.node_calls(fname, n) if r == ("self", "_consume_balanced_tokens")]
            if not (len(calls) == 1 and len(calls[0].args) == 2):
                ok = False
                why.append("__attribute__ must consume two '(' and pass both to the balanced consumer")
        ctx.ob("R13.3", f"parser:CxxParser.{fname}|openers handed on, result unused", ok, msg="; ".join(why), node=fn, mod=mod)

    # ---------------------------------------------------------------- R13.5
    ctx.rule("R13.5", "regions whose content is an arbitrary expression/statement soup (static_assert, bodies, ctor initializers) are skipped by the plain bracket counter, not by the consumer that interprets '<' '>' '[[' ']]'", minimum=4)
    heuristic = "'>'" in norm(pm.fn("_consume_balanced_tokens"))
    for fname, what in (("_consume_static_assert", "static_assert condition"), ("_parse_fn_end", "function body"), ("_parse_method_end", "method body"), ("_discard_ctor_initializer", "constructor initializer / body")):
        fn = pm.fn(fname)
        uses_counter = any(pm.resolve(fname, c) == ("self", "_discard_contents") for c in walk_local(fn) if isinstance(c, ast.Call))
        balanced = [c for c in walk_local(fn) if isinstance(c, ast.Call) and pm.resolve(fname, c) == ("self", "_consume_balanced_tokens")]
        ok = uses_counter
        why = f"{fname} no longer skips the {what} with _discard_contents"
        # (an opener that is not a constant - the type of the token just read - may be '(': which openers it can be is R13.1's question)
        paren_counted = any(pm.resolve(fname, c) == ("self", "_discard_contents") and c.args and (not isinstance(c.args[0], ast.Constant) or c.args[0].value == "(") for c in walk_local(fn) if isinstance(c, ast.Call))
        # (the initializer scanner may read a `decltype(...)` initializer-id with the balanced consumer; its argument
        # lists - arbitrary expressions - are what must go through the counter)
        if (fname == "_consume_static_assert" or (fname == "_discard_ctor_initializer" and not paren_counted)) and balanced and heuristic:
            ok = False
            why = (f"the {what} is consumed with _consume_balanced_tokens, which treats '<' and '>' as brackets (with a tolerance heuristic) and ']]' as one token: "
                   "an expression such as `N < 4 && (M > 2)`, `x_(a < (b > 0 ? b : 1))` or `sizeof(t[i[0]])` ends the region early or raises")
        ctx.ob("R13.5", f"parser:CxxParser.{fname}|{what} skipped by the bracket counter", ok, msg=why, node=fn, mod=mod, nontrivial=False)

    # ---------------------------------------------------------------- R13.6
    ctx.rule("R13.6", "ctor-initializer scanner: only ',' separates initializers; '...' is consumed and followed by a fresh token; '{' after an initializer is the body", minimum=3)
    dc = pm.fn("_discard_ctor_initializer")
    dcfg = pm.cfg("_discard_ctor_initializer")
    outer = [n for n in dcfg.nodes if n.kind == "test" and isinstance(n.loop, ast.While) and pm.mod.parent.get(n.loop) is dc]
    if len(outer) != 1:
        raise AnalysisError("_discard_ctor_initializer: outer loop anchor vanished")
    oh = outer[0]
    # every way back to the head of the initializer loop carries a token known to be ','
    tf = _typefacts(pm, "_discard_ctor_initializer")
    inside = {id(x) for st_ in oh.loop.body for x in ast.walk(st_)}
    backs = [(p, lab) for p, lab in oh.pred if p.stmt is not None and id(p.stmt) in inside]
    tokvars = {t.id for x in walk_local(dc) if isinstance(x, ast.Assign) for t in x.targets if isinstance(t, ast.Name) and any(r and r[0] == "lex" for c_, r in [(c2, pm.resolve("_discard_ctor_initializer", c2)) for c2 in ast.walk(x.value) if isinstance(c2, ast.Call)])}
    tokvars |= {t.id for x in walk_local(dc) if isinstance(x, ast.Assign) and isinstance(x.value, ast.Call) and isinstance(x.value.func, ast.Name) for t in x.targets if isinstance(t, ast.Name)}
    bad_back = []
    for p, lab in backs:
        cons = [tf.on_edge(p, lab, oh, v) for v in tokvars]
        if not any(c == ("in", frozenset({","})) for c in cons):
            bad_back.append((p, [c for c in cons if c[0] == "in"]))
    seps = sorted({x for _, cs in bad_back for c in cs for x in c[1]})
    ctx.ob("R13.6", "parser:CxxParser._discard_ctor_initializer|only ',' restarts the initializer loop", bool(backs) and not bad_back,
           msg=f"the scanner can go on to another initializer with a token that is not known to be ',' (possible: {seps or 'anything'}; line {bad_back[0][0].lineno if bad_back else 0}): a pack expansion `...` that ends the list would make it swallow the function body as an initializer", node=dc, mod=mod)
    ell = [n for n in dcfg.nodes if n.kind == "test" and n.cond is not None and "'ELLIPSIS'" in norm(n.cond)]
    ok = len(ell) == 1
    if ok:
        ts = [s for s, lab in ell[0].succ if lab == "T"]
        ok = len(ts) == 1 and ts[0].kind == "stmt" and isinstance(ts[0].stmt, ast.Assign) and any(r and r[0] == "lex" and r[1] in LEX_CONSUME for c, r in pm.node_calls("_discard_ctor_initializer", ts[0]))
    ctx.ob("R13.6", "parser:CxxParser._discard_ctor_initializer|'...' is skipped by fetching the next token", ok, msg="a trailing `...` is not simply consumed before the ','/'{' decision", node=dc, mod=mod)
    bodies = [n for n in dcfg.nodes for c, r in pm.node_calls("_discard_ctor_initializer", n) if r == ("self", "_discard_contents") and [getattr(a, "value", None) for a in c.args] in (["{", "}"], ["{"])]
    rets = [n for n in dcfg.nodes if n.kind == "stmt" and isinstance(n.stmt, ast.Return)]
    ok = bool(rets) and all(any(dcfg.dominates(b, r) and any(s is r for s, _ in b.succ) for b in bodies) for r in rets)
    ctx.ob("R13.6", "parser:CxxParser._discard_ctor_initializer|returns right after discarding the body", ok, msg="the scanner does not return immediately after skipping the function body", node=dc, mod=mod)

    # ---------------------------------------------------------------- R13.7
    # an attribute-specifier-seq is any run of '[[ ]]' and alignas( ) specifiers: after one specifier the consumer must go on
    # with every kind it handles, or the next specifier is left in the stream and read as part of the declaration
    ctx.rule("R13.7", "the attribute-specifier sequence continues with every kind of specifier its loop handles", minimum=1)
    fa = "_consume_attribute_specifier_seq"
    fna = pm.fn(fa)
    handled: Set[str] = set()
    for x in walk_local(fna):
        if isinstance(x, ast.Compare) and len(x.ops) == 1 and (attr_chain(x.left) or ("", ""))[-1] == "type":
            comp = x.comparators[0]
            if isinstance(x.ops[0], ast.Eq) and isinstance(comp, ast.Constant) and isinstance(comp.value, str):
                handled.add(comp.value)
            elif isinstance(x.ops[0], ast.In):
                try:
                    handled |= set(F.ev(comp))
                except Exception:
                    pass
    cont: Set[str] = set()
    for c in walk_local(fna):
        if isinstance(c, ast.Call) and (pm.resolve(fa, c) or ("", ""))[0] == "lex" and pm.resolve(fa, c)[1] in ("token_if", "token_if_in_set", "token_peek_if"):
            for a in c.args:
                e_ = a.value if isinstance(a, ast.Starred) else a
                try:
                    v = F.lookup(e_.attr) if isinstance(e_, ast.Attribute) and isinstance(e_.value, ast.Name) and e_.value.id == "self" else F.ev(e_)
                except Exception:
                    continue
                cont |= set(v) if isinstance(v, (set, frozenset, list, tuple)) else {v}
    starts = set(F.get("_attribute_specifier_seq_start_types"))
    ctx.ob("R13.7", f"parser:CxxParser.{fa}|continues with {sorted(handled & starts)}", bool(handled & starts) and (handled & starts) <= cont and starts <= handled,
           msg=f"the loop handles {sorted(handled & starts)} of the specifier kinds {sorted(starts)} but only goes on when the next token is one of {sorted(cont)}: in 'struct [[x]] alignas(8) S' the second specifier is left for the declaration parser",
           node=fna, mod=mod)

    # ---------------------------------------------------------------- R13.4
    ctx.rule("R13.4", "_consume_balanced_tokens interpreted over every short script of bracket tokens: returns right after the balancing closer, keeps every token, a fused ']]' closes two '['; LIFO use of the stack", minimum=4)
    fs, steps = linear.analyse(pm, "_consume_balanced_tokens", {"NEWLINE"})
    ctx.ob("R13.4", "parser:CxxParser._consume_balanced_tokens|every token read is kept", not fs, msg=fs[0].text if fs else "", node=pm.fn("_consume_balanced_tokens"), mod=mod, detail={"path_states": steps})
    balanced_model.obligations(ctx, "R13.4", pm, ("return", "fused", "tolerant"))


def _site_idx(pm: ParserModel, fname: str, call: ast.Call) -> int:
    i = 0
    for c in walk_local(pm.fn(fname)):
        if isinstance(c, ast.Call) and pm.resolve(fname, c) == ("self", "_discard_contents"):
            if c is call:
                return i
            i += 1
    return -1


_TF_CACHE: Dict[Tuple[int, str], object] = {}


def _typefacts(pm: ParserModel, fname: str):
    from ..typefacts import TypeFacts

    k = (id(pm), fname)
    if k not in _TF_CACHE:
        _TF_CACHE[k] = TypeFacts(pm.cfg(fname), resolve=lambda c: pm.resolve(fname, c))
    return _TF_CACHE[k]


def _opener_consumed(pm: ParserModel, fname: str, cfg: CFG, n: Optional[Node], opener: str) -> bool:
    if n is None:
        return False
    # a token variable is known to hold exactly the opener here (branch conditions, loop exits, must-be accessors)
    tf = _typefacts(pm, fname)
    if tf.vars_fixed_to(n, opener):
        return True
    dom = cfg.dominators().get(n.id, set())
    for i in dom:
        d = cfg.nodes[i]
        if d is n:
            continue
        # test on the T side mentioning the opener constant
        if d.kind == "test" and d.cond is not None:
            mentions = any(isinstance(x, ast.Constant) and x.value == opener for x in walk_local(d.cond)) or any(
                isinstance(x, ast.Constant) and x.value == opener for x in ast.walk(d.cond))
            if mentions:
                # n must be on the T side
                fs = [s for s, lab in d.succ if lab == "F"]
                if not any(s is n or cfg.paths_avoiding(s, n, lambda y: y is d) for s in fs):
                    return True
        if d.kind == "stmt":
            for c, r in pm.node_calls(fname, d):
                if r == ("self", "_next_token_must_be") and any(isinstance(a, ast.Constant) and a.value == opener for a in c.args) and len(c.args) == 1:
                    return True
    return False


def _dominated_by_type_test(cfg: CFG, n: Node, var: str, openers: Set[str]) -> bool:
    for i in cfg.dominators().get(n.id, set()):
        d = cfg.nodes[i]
        if d.kind == "test" and d.cond is not None and attr_chain(getattr(d.cond, "left", None)) == (var, "type"):
            consts = [x.value for x in ast.walk(d.cond) if isinstance(x, ast.Constant)]
            if consts and all(c in openers for c in consts):
                return True
    return False


def _counting_loop(ctx: Ctx, pm: ParserModel) -> None:
    """_discard_contents(start, end) is decided by interpreting its source over every short script of token classes
    {opener, closer, other} (sa/miniexec.py): entered after one opener, it must return right after the closer that
    balances that opener, having fetched exactly the tokens up to it - whatever loop shape computes that."""
    from ..miniexec import Opaque, OpaqueWithConstants, OutOfTokens, Run, Tok, Unsupported
    import itertools

    fname = "_discard_contents"
    fn = pm.fn(fname)
    mod = pm.mod
    cfg = pm.cfg(fname)
    params = [a.arg for a in fn.args.args[1:]]
    if len(params) not in (1, 2):
        raise AnalysisError("_discard_contents signature changed")
    start_p, end_p = params[0], (params[1] if len(params) == 2 else None)
    cfolder = ctx.repo.folder("parser", "CxxParser")

    def is_fetch(c: ast.Call) -> bool:
        r = pm.resolve(fname, c)
        if r and r[0] == "lex" and r[1] in LEX_CONSUME:
            return True
        if isinstance(c.func, ast.Name):
            # inside an interpreted callee: its own local alias of a consuming accessor
            for m_ in pm.methods:
                al = pm.aliases(m_).get(c.func.id)
                if al and len(al) == 3 and al[:2] == ("self", "lex") and al[2] in LEX_CONSUME:
                    return True
        return False

    scripts = []
    for n in range(1, 7):
        for seq in itertools.product("SEO", repeat=n):
            depth = 1
            ok = True
            for i, ch in enumerate(seq):
                depth += 1 if ch == "S" else -1 if ch == "E" else 0
                if depth == 0 and i != n - 1:
                    ok = False
                    break
            if ok and depth == 0:
                scripts.append(seq)
    results = {"stops at the balancing closer": [], "fetches exactly the skipped tokens": [], "never raises on balanced input": []}
    unsupported = None
    for (s_t, e_t, other) in (("(", ")", "x"), ("{", "}", "(")):
        for seq in scripts:
            toks = [Tok({"S": s_t, "E": e_t, "O": other}[ch]) for ch in seq] + [Tok(e_t), Tok(other)]
            takes_token = fn.args.args[1].annotation is not None and "LexToken" in norm(fn.args.args[1].annotation)
            env13 = {"self": OpaqueWithConstants(cfolder.lookup), start_p: (Tok(s_t) if takes_token else s_t), "None": None, "True": True, "False": False}
            if end_p is not None:
                env13[end_p] = e_t
            def extern13(call: ast.Call, run_: Run) -> object:
                # another method of the parser: interpreted from its source on the same token script
                r_ = pm.resolve(fname, call)
                if r_ and r_[0] == "self" and r_[1] in pm.methods and r_[1] != "_parse_error" and not any(isinstance(a_, ast.Starred) for a_ in call.args):
                    callee = pm.fn(r_[1])
                    if callee.args.vararg is None:
                        return run_.call_def(callee, [env13["self"]] + [run_.ev(a_) for a_ in call.args], {k_.arg: run_.ev(k_.value) for k_ in call.keywords if k_.arg})
                    # *initial tokens: bind them as a tuple
                    import copy as _cp
                    g = _cp.deepcopy(callee)
                    va = g.args.vararg.arg
                    g.args.vararg = None
                    g.args.args = g.args.args + [ast.arg(arg=va)]
                    g.args.defaults = []
                    kw = {k_.arg: run_.ev(k_.value) for k_ in call.keywords if k_.arg}
                    for a_, d_ in zip(g.args.kwonlyargs, g.args.kw_defaults):
                        if a_.arg not in kw and isinstance(d_, ast.Constant):
                            kw[a_.arg] = d_.value
                    g.args.kwonlyargs, g.args.kw_defaults = [], []
                    ast.fix_missing_locations(g)
                    res = run_.call_def(g, [env13["self"], tuple(run_.ev(a_) for a_ in call.args)], kw)
                    return res
                if norm(call.func) in ("deque", "collections.deque") and len(call.args) <= 1:
                    return list(run_.ev(call.args[0])) if call.args else []
                raise Unsupported(f"call {norm(call)[:50]}")
            run = Run(cfg, env13, toks, is_fetch, extern13)
            try:
                run.run()
            except OutOfTokens:
                results["stops at the balancing closer"].append(("".join(seq), f"runs past the balancing closer and off the end of the input (pair {s_t}{e_t})"))
                continue
            except Unsupported as e:
                unsupported = str(e)
                break
            if run.raised:
                results["never raises on balanced input"].append(("".join(seq), f"raises {run.raised}"))
            elif run.pos < len(seq):
                results["stops at the balancing closer"].append(("".join(seq), f"returns after {run.pos} of {len(seq)} tokens (pair {s_t}{e_t})"))
            elif run.pos > len(seq):
                results["fetches exactly the skipped tokens"].append(("".join(seq), f"fetches {run.pos - len(seq)} token(s) beyond the balancing closer"))
        if unsupported:
            break
    if unsupported:
        raise AnalysisError(f"_discard_contents uses a construct the loop interpreter does not model: {unsupported}")
    legend = "S = opener, E = closer, O = any other token; the function is entered after one opener"
    for k, bad in results.items():
        ctx.ob("R13.2", f"parser:CxxParser._discard_contents|{k}", not bad,
               msg=(f"on the token script {bad[0][0]!r} ({legend}) the skipper {bad[0][1]}: the skipped region is not exactly the bracketed one" if bad else ""),
               node=fn, mod=mod, detail={"scripts": len(scripts) * 2, "failing": [b[0] for b in bad[:5]]})
    # the opener was consumed by the caller: an empty region `()` is one closer
    ctx.ob("R13.2", "parser:CxxParser._discard_contents|scripts enumerated", len(scripts) >= 30, msg="script enumeration broke", node=fn, mod=mod, nontrivial=False)
    ctx.ob("R13.2", "parser:CxxParser._discard_contents|parameters are the only bracket pair it knows", not any(isinstance(x, ast.Constant) and x.value in ("(", ")", "{", "}", "[", "]", "<", ">") for x in ast.walk(fn)),
           msg="the skipper compares with a literal bracket instead of its parameters", node=fn, mod=mod, nontrivial=False)


def _back_to(cfg: CFG, s: Node, head: Node) -> bool:
    seen = set()
    st = [s]
    while st:
        x = st.pop()
        if x.id in seen:
            continue
        seen.add(x.id)
        if x is head:
            return True
        st.extend(y for y, lab in x.succ if lab != "exc")
    return False
