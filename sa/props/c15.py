"""C15 -- parses are isolated from one another (shared-mutable-state audit)."""
from __future__ import annotations

import ast
from typing import Dict, List, Optional, Set, Tuple

from ..cfg import reaching_defs, CFG
from ..kinds import node_containing
from ..model import AnalysisError, attr_chain, is_self_attr, norm, short, stores_in, walk_local
from ..pmodel import ParserModel
from ..report import Ctx
from .. import shared

LEVEL = "whole-package ownership / effect audit of everything that outlives a parse"
EXPLANATION = (
    "R15.1 every module-level and class-level binding to a mutable object (set/dict/list displays, instances) is only read from function "
    "bodies: never the receiver of a mutating method, the target of an item/attribute store or augmented assignment, never returned, "
    "stored into another object or handed to a constructor (two reasoned exceptions: the inert null visitor, the confined placeholder "
    "token); the same for locals that alias such an object and for mutable default arguments. R15.2 the process-wide lexer prototype is "
    "assigned only under its `is None` test, used only as the receiver of .clone(instance), the clone is re-bound with begin('INITIAL') "
    "before use, Lexer.clone gives an object-bound clone its own rule and error tables, and the package calls no Lexer method that "
    "mutates tables shared by the shallow copy. R15.3 every attribute of the parser, the token streams and the lexer wrapper that is "
    "written after construction is created per instance in __init__/__new__. R15.4 no global/nonlocal writes outside the three legacy "
    "aliases in _ply.lex.lex(), which nothing reads. R15.5 parser.py never stores to a token; the placeholder token is never a store "
    "target outside module initialisation. With nothing shared, sequential, nested and concurrent parses cannot influence one another."
)

EXCEPTIONS = {
    "lexer:PhonyEnding": ({"argument of append()", "attribute read .type"}, "read-only placeholder; confined to the bounded stream by the swap rule (C02 R2.2); tokens are never written in parser.py (R15.5)"),
    "visitor:null_visitor": ({"stored into `self.visitor`"}, "stateless by R5.4 (every method returns None, no attributes)"),
}


def run(ctx: Ctx) -> None:
    repo = ctx.repo
    pm = ParserModel(repo)
    ctx.trusted = ["CPython semantics of class attributes and default arguments (one object per process)"]
    ctx.undecided = []
    audit(ctx, "R15.1")

    # memoising decorators keep results of one parse for the next (file contents, lookups): shared state in disguise
    memo = ("lru_cache", "cache", "cached_property", "memoize", "memoized")
    n_fn = 0
    for m in repo.modules.values():
        for x in ast.walk(m.tree):
            if isinstance(x, (ast.FunctionDef, ast.AsyncFunctionDef)):
                n_fn += 1
                bad_d = [norm(d) for d in x.decorator_list if any(k in norm(d) for k in memo)]
                if bad_d:
                    ctx.ob("R15.1", f"{m.name}:{m.qualname_of(x)}.{x.name}|memoised with {bad_d[0]}", False,
                           msg=f"{x.name} is memoised ({bad_d[0]}): what it computed for one parse (e.g. the contents of a file) is handed to later parses even though the input changed",
                           node=x, mod=m)
    ctx.ob("R15.1", "package|no memoising decorators", n_fn > 100, msg="function inventory vanished", node=None, nontrivial=False)

    # ---------------------------------------------------------------- R15.2
    ctx.rule("R15.2", "lexer prototype: built once under `is None`, only cloned, clone re-bound before use; Lexer.clone un-shares the rule tables", minimum=4)
    lex = repo.mod("lexer")
    # the method of the lexer class that builds the shared prototype: the one that calls lex.lex(...)
    builders = [(q, f) for q, f in lex.functions() if q.startswith("PlyLexer.") and q.count(".") == 1 and any(isinstance(c, ast.Call) and attr_chain(c.func) == ("lex", "lex") for c in walk_local(f))]
    if len(builders) != 1:
        raise AnalysisError("anchor vanished: the single method of PlyLexer that builds the prototype lexer with lex.lex(...)")
    bqual, new = builders[0]
    cfg = CFG(new)
    stores = [n for n in cfg.nodes if n.kind == "stmt" and isinstance(n.stmt, ast.Assign) and any(attr_chain(t) in (("cls", "_lexer"), ("PlyLexer", "_lexer")) for t in n.stmt.targets)]
    ok = len(stores) == 1
    rd_new = reaching_defs(cfg)
    # locals that are a plain copy of the prototype attribute (prototype = cls._lexer)
    proto_alias = {t.id for n in cfg.nodes if n.kind == "stmt" and isinstance(n.stmt, ast.Assign) and attr_chain(n.stmt.value) in (("cls", "_lexer"), ("PlyLexer", "_lexer")) for t in n.stmt.targets if isinstance(t, ast.Name)}
    if ok:
        def tests_prototype_none(c: ast.AST, at) -> bool:
            if "_lexer is None" in norm(c):
                return True
            # `prototype is None` where prototype still holds cls._lexer
            if isinstance(c, ast.Compare) and isinstance(c.left, ast.Name) and c.left.id in proto_alias and len(c.ops) == 1 and isinstance(c.ops[0], ast.Is) and norm(c.comparators[0]) == "None":
                ds = [cfg.nodes[i] for i in rd_new.get(at.id, {}).get(c.left.id, ())]
                return bool(ds) and all(isinstance(d.stmt, ast.Assign) and attr_chain(d.stmt.value) in (("cls", "_lexer"), ("PlyLexer", "_lexer")) for d in ds)
            return False
        guard = [cfg.nodes[i] for i in cfg.dominators()[stores[0].id] if cfg.nodes[i].kind == "test" and cfg.nodes[i].cond is not None and tests_prototype_none(cfg.nodes[i].cond, cfg.nodes[i])]
        val = stores[0].stmt.value
        if isinstance(val, ast.Name):
            ds = [cfg.nodes[i] for i in rd_new.get(stores[0].id, {}).get(val.id, ())]
            val = ds[0].stmt.value if len(ds) == 1 and isinstance(ds[0].stmt, ast.Assign) else val
        ok = bool(guard) and isinstance(val, ast.Call) and attr_chain(val.func) == ("lex", "lex")
    ctx.ob("R15.2", f"lexer:{bqual}|prototype assigned once, under `_lexer is None`", ok, msg="the shared lexer prototype can be rebuilt or replaced after first use", node=new, mod=lex)
    for m in repo.modules.values():
        for qual, fn in m.functions():
            for t, st in stores_in(fn):
                ch = attr_chain(t)
                if ch and ch[-1] == "_lexer" and not (m is lex and qual == bqual):
                    ctx.ob("R15.2", f"{m.name}:{qual}|writes _lexer", False, msg=f"`{short(st)}` replaces the shared lexer prototype", node=st, mod=m)
    reads = []
    for m in repo.modules.values():
        for qual, fn in m.functions():
            for x in walk_local(fn):
                if isinstance(x, ast.Attribute) and x.attr == "_lexer" and isinstance(x.ctx, ast.Load):
                    par = m.parent.get(x)
                    gp = m.parent.get(par) if par is not None else None
                    kind = "other"
                    if isinstance(par, ast.Compare):
                        kind = "tested"
                    elif isinstance(par, ast.Attribute) and par.attr == "clone" and isinstance(gp, ast.Call) and gp.args:
                        kind = "cloned"
                    elif isinstance(par, ast.Assign) and par.value is x and all(isinstance(t, ast.Name) for t in par.targets):
                        # read into a local: what matters is what the local is used for
                        loc = {t.id for t in par.targets}
                        uses_ = [y for y in walk_local(fn) if isinstance(y, ast.Name) and y.id in loc and isinstance(y.ctx, ast.Load)]
                        kinds_ = set()
                        for y in uses_:
                            p1 = m.parent.get(y)
                            p2 = m.parent.get(p1) if p1 is not None else None
                            if isinstance(p1, ast.Compare):
                                kinds_.add("tested")
                            elif isinstance(p1, ast.Attribute) and p1.attr == "clone" and isinstance(p2, ast.Call) and p2.args:
                                kinds_.add("cloned")
                            elif isinstance(p1, ast.Assign) and p1.value is y and all(attr_chain(t) in (("cls", "_lexer"), ("PlyLexer", "_lexer")) for t in p1.targets):
                                kinds_.add("tested")  # stored back as the prototype
                            else:
                                kinds_.add("other")
                        kind = "other" if "other" in kinds_ or not kinds_ else ("cloned" if "cloned" in kinds_ else "tested")
                    reads.append((m, qual, x, kind))
    bad = [(m.name, q) for m, q, x, k in reads if k == "other"]
    ctx.ob("R15.2", "lexer|prototype only tested and cloned-with-instance", not bad and any(k == "cloned" for *_, k in reads),
           msg=f"the prototype lexer is used directly (not through .clone(instance)) in {bad}: its position and line counter would be shared by every parse", node=new, mod=lex)
    # the clone is re-bound before it is returned / used
    clone_assign = [n for n in cfg.nodes if n.kind == "stmt" and isinstance(n.stmt, ast.Assign) and isinstance(n.stmt.value, ast.Call) and isinstance(n.stmt.value.func, ast.Attribute) and n.stmt.value.func.attr == "clone"]
    begins = [n for n in cfg.nodes if n.kind == "stmt" and isinstance(n.stmt, ast.Expr) and isinstance(n.stmt.value, ast.Call) and isinstance(n.stmt.value.func, ast.Attribute) and n.stmt.value.func.attr == "begin"
              and n.stmt.value.args and isinstance(n.stmt.value.args[0], ast.Constant) and n.stmt.value.args[0].value == "INITIAL"]
    # every normal way out of the method passes the re-binding
    ok = len(clone_assign) == 1 and bool(begins) and not cfg.paths_avoiding(cfg.entry, cfg.exit, lambda x: x in begins) and all(cfg.dominates(clone_assign[0], b) for b in begins)
    if ok:
        tgt = attr_chain(clone_assign[0].stmt.targets[0])
        ok = all(attr_chain(b.stmt.value.func.value) == tgt for b in begins)
    ctx.ob("R15.2", f"lexer:{bqual}|clone.begin('INITIAL') before the instance is returned", ok,
           msg="the per-instance clone is not re-initialised with begin('INITIAL'): its active rule table and error function stay those of the prototype (bound to the first instance ever created)",
           node=new, mod=lex)
    ply = repo.mod("_ply.lex")
    cl = ply.func("Lexer.clone")
    txt = norm(cl)
    # inside `if object:` both tables are replaced by fresh containers whose function entries are re-bound to the new object
    owner = cl.args.args[1].arg if len(cl.args.args) > 1 else "object"
    # the re-binding happens when an owner object is given: `if owner:` block, or everything after `if not owner: return c`
    objif = [s for s in cl.body if isinstance(s, ast.If) and norm(s.test) == owner]
    early = [s for s in cl.body if isinstance(s, ast.If) and norm(s.test) == f"not {owner}" and s.body and isinstance(s.body[-1], ast.Return)]
    ok = (bool(objif) or bool(early)) and "copy.copy(self)" in txt
    why_clone = []
    if ok:
        body = objif[0].body if objif else cl.body[cl.body.index(early[0]) + 1:]
        nodes_ = [x for b in body for x in ast.walk(b)]

        def fresh(v: ast.AST, depth: int = 0) -> bool:
            if isinstance(v, (ast.Dict, ast.DictComp, ast.List, ast.ListComp)):
                return True
            if isinstance(v, ast.Call) and isinstance(v.func, ast.Name) and v.func.id in ("dict", "list") and not v.args:
                return True
            if isinstance(v, ast.Name) and depth < 3:
                defs = [x.value for x in nodes_ if isinstance(x, ast.Assign) and any(isinstance(t, ast.Name) and t.id == v.id for t in x.targets)]
                return bool(defs) and all(fresh(d, depth + 1) for d in defs)
            return False

        def rebound(v: ast.AST) -> bool:
            return isinstance(v, ast.Call) and isinstance(v.func, ast.Name) and v.func.id == "getattr" and len(v.args) == 2 and norm(v.args[0]) == owner and norm(v.args[1]).endswith(".__name__")

        for table in ("lexstatere", "lexstateerrorf"):
            stores = [x for x in nodes_ if isinstance(x, ast.Assign) and any(attr_chain(t) == ("c", table) for t in x.targets)]
            if len(stores) != 1 or not fresh(stores[0].value):
                ok = False
                why_clone.append(f"c.{table} is not replaced by a fresh container")
        # error functions: every value put into the new table is getattr(object, <old>.__name__)
        evals = []
        for x in nodes_:
            if isinstance(x, ast.Assign) and any(isinstance(t, ast.Subscript) and attr_chain(t.value) == ("c", "lexstateerrorf") for t in x.targets):
                evals.append(x.value)
            if isinstance(x, ast.Assign) and any(attr_chain(t) == ("c", "lexstateerrorf") for t in x.targets) and isinstance(x.value, ast.DictComp):
                evals.append(x.value.value)
        if not evals or not all(rebound(v) for v in evals):
            ok = False
            why_clone.append(f"an error function is copied into the clone without being re-bound ({[short(v, 30) for v in evals if not rebound(v)]}): illegal characters are reported by the first lexer object ever created")
        # rule functions: a (function, type) pair is rebuilt with the re-bound function wherever one is copied
        pairs = [x for x in ast.walk(cl) if isinstance(x, ast.Tuple) and len(x.elts) == 2 and norm(x.elts[1]).endswith("[1]")]
        if not pairs or not all(rebound(p.elts[0]) for p in pairs):
            ok = False
            why_clone.append("a rule function is copied into the clone without being re-bound to the new object")
    ctx.ob("R15.2", "_ply.lex:Lexer.clone|object-bound clone gets its own rule and error tables", ok,
           msg="Lexer.clone: " + ("; ".join(why_clone) or "no re-binding block for the new owner / no shallow copy of the lexer"), node=cl, mod=ply)
    # the package never calls table-mutating Lexer methods
    for m in repo.modules.values():
        if m.name.startswith("_ply"):
            continue
        for qual, fn in m.functions():
            for c in walk_local(fn):
                if isinstance(c, ast.Call) and isinstance(c.func, ast.Attribute) and c.func.attr in ("push_state", "pop_state", "skip"):
                    ctx.ob("R15.2", f"{m.name}:{qual}|{c.func.attr}()", False, msg="calls a Lexer method that mutates state shared through the shallow clone (lexstatestack)", node=c, mod=m)

    # ---------------------------------------------------------------- R15.3
    ctx.rule("R15.3", "attributes written after construction exist per instance (created in __init__/__new__)", minimum=5)
    for mname, cname in (("parser", "CxxParser"), ("lexer", "PlyLexer"), ("lexer", "LexerTokenStream"), ("lexer", "BoundedTokenStream"), ("lexer", "TokenStream")):
        m = repo.mod(mname)
        meths = m.methods(cname)
        created: Set[str] = set()
        for ctor in ("__init__", "__new__"):
            if ctor in meths:
                for t, st in stores_in(meths[ctor]):
                    ch = attr_chain(t)
                    if ch and len(ch) == 2 and ch[0] in ("self", "inst"):
                        created.add(ch[1])
        # inherited constructors
        for b in m.cls(cname).bases:
            if isinstance(b, ast.Name) and m.has_cls(b.id) and "__init__" in m.methods(b.id) and "__init__" not in meths:
                for t, st in stores_in(m.methods(b.id)["__init__"]):
                    ch = attr_chain(t)
                    if ch and len(ch) == 2 and ch[0] == "self":
                        created.add(ch[1])
        for name, fn in meths.items():
            if name in ("__init__", "__new__"):
                continue
            for t, st in stores_in(fn):
                ch = attr_chain(t)
                if ch and ch[0] == "self" and len(ch) >= 2:
                    a = ch[1]
                    subclass_created = False
                    if a not in created:
                        # created by every concrete subclass constructor?
                        subs = [c for c, node in m.classes() if any(isinstance(bb, ast.Name) and bb.id == cname for bb in node.bases)]
                        subclass_created = bool(subs) and all(any(attr_chain(tt) == ("self", a) for tt, _ in stores_in(m.methods(sc).get("__init__", ast.parse("def f(): pass").body[0]))) for sc in subs)
                    ctx.ob("R15.3", f"{mname}:{cname}.{name}|writes self.{a}", a in created or subclass_created,
                           msg=f"`{short(st)}` writes an attribute that no constructor creates per instance: it lands on (or shadows) a class attribute shared by all instances", node=st, mod=m, nontrivial=False)
    init = pm.fn("__init__")
    an = [st for t, st in stores_in(init) if is_self_attr(t, "anon_id")]
    ctx.ob("R15.3", "parser:CxxParser.__init__|anon_id starts at a constant", len(an) == 1 and isinstance(an[0].value, ast.Constant), msg="anon_id does not start at a constant for every parser", node=init, mod=pm.mod, nontrivial=False)

    # ---------------------------------------------------------------- R15.4
    ctx.rule("R15.4", "no global / nonlocal writes (except the three legacy aliases in _ply.lex.lex, which nothing reads)", minimum=1)
    found = False
    for m in repo.modules.values():
        for x in ast.walk(m.tree):
            if isinstance(x, (ast.Global, ast.Nonlocal)):
                found = True
                qual = m.qualname_of(x)
                ok = m.name == "_ply.lex" and qual == "lex" and set(x.names) <= {"lexer", "token", "input"}
                ctx.ob("R15.4", f"{m.name}:{qual}|{type(x).__name__.lower()} {', '.join(x.names)}", ok, msg=f"{qual} declares {x.names} global: module state shared by every parse", node=x, mod=m, nontrivial=False)
    readers = []
    for m in repo.modules.values():
        if m.name.startswith("_ply"):
            continue
        for x in ast.walk(m.tree):
            if isinstance(x, ast.Attribute) and isinstance(x.value, ast.Name) and x.value.id == "lex" and x.attr in ("lexer", "token", "input") and not isinstance(m.parent.get(x), ast.Call):
                readers.append(m.loc(x))
    ctx.ob("R15.4", "package|legacy PLY module globals are not read", not readers, msg=f"module-level lexer aliases of PLY are read at {readers}", node=None, nontrivial=False)

    # ---------------------------------------------------------------- R15.7
    # State shared by all parses need not live in the package: the interpreter has its own.  Library code (everything but
    # the command-line entry points, which own their process) never calls a setter of process-wide state: the recursion
    # limit, the working directory, the environment, the locale, warning filters, default encodings, tracing hooks ...
    # (a parse that fails between "raise the limit" and "put it back" leaves the next parse in another interpreter).
    ctx.rule("R15.7", "library code calls no setter of process-wide interpreter state (recursion limit, cwd, environment, locale, warning filters, hooks)", minimum=0)
    _GLOBAL_SETTERS = {
        "sys.setrecursionlimit", "sys.setswitchinterval", "sys.settrace", "sys.setprofile", "sys.setdlopenflags", "sys.set_int_max_str_digits",
        "os.chdir", "os.umask", "os.putenv", "os.unsetenv", "os.setuid", "os.setgid", "os.nice", "locale.setlocale", "warnings.simplefilter",
        "warnings.filterwarnings", "warnings.resetwarnings", "logging.basicConfig", "logging.disable", "gc.disable", "gc.enable", "gc.set_threshold",
        "threading.settrace", "threading.setprofile", "threading.stack_size", "socket.setdefaulttimeout", "random.seed", "re.purge", "signal.signal",
        "signal.alarm", "faulthandler.enable", "tracemalloc.start", "resource.setrlimit", "atexit.register", "importlib.invalidate_caches",
    }
    _CLI = {"dump", "gentest", "__main__"}
    n157 = 0
    for m in ctx.repo.modules.values():
        if m.name in _CLI or m.name.startswith("_ply"):
            continue
        for x in ast.walk(m.tree):
            bad = None
            if isinstance(x, ast.Call) and norm(x.func) in _GLOBAL_SETTERS:
                bad = norm(x.func)
            elif isinstance(x, (ast.Assign, ast.AugAssign, ast.Delete)):
                for t in (x.targets if isinstance(x, (ast.Assign, ast.Delete)) else [x.target]):
                    tt = norm(t)
                    if tt.startswith(("os.environ[", "sys.path", "sys.stdout", "sys.stderr", "sys.stdin", "sys.modules[", "builtins.")):
                        bad = tt
            elif isinstance(x, ast.Call) and isinstance(x.func, ast.Attribute) and norm(x.func.value) in ("os.environ", "sys.path", "sys.modules") and x.func.attr in ("update", "setdefault", "pop", "append", "insert", "extend", "remove", "clear"):
                bad = norm(x.func)
            if bad:
                n157 += 1
                ctx.ob("R15.7", f"{m.name}:{m.qualname_of(x)}|{bad}", False,
                       msg=f"`{short(x, 60)}` changes state of the whole process: it is shared with every other parse (and everything else) running in it, and an exception between this and its undoing leaves it changed", node=x, mod=m)
    ctx.ob("R15.7", "package|no process-wide setter in library modules", n157 == 0, msg=f"{n157} call(s) / store(s), listed above", node=None, nontrivial=False)

    # ---------------------------------------------------------------- R15.6
    # A preprocessor function made by a factory (make_*_preprocessor) lives in ParserOptions
    # and is called once per parse: whatever it captured from the factory is shared by every
    # parse that uses those options.  Captured configuration may only be read; an object
    # built in the factory (a preprocessor instance, a list) must not be used by the closure.
    ctx.rule("R15.6", "closures returned by factories keep no mutable object across calls: captured names are read-only configuration", minimum=10)
    from ..shared import _classify, _is_mutable_value
    for m in repo.modules.values():
        if m.name.startswith("_ply"):
            continue
        for f in [x for x in ast.walk(m.tree) if isinstance(x, (ast.FunctionDef, ast.Lambda))]:
            if not isinstance(f, ast.FunctionDef):
                continue
            inner = [g for g in ast.walk(f) if isinstance(g, ast.FunctionDef) and g is not f and _enclosing_function(m, g) is f]
            for g in inner:
                # only closures that outlive the call: returned, or stored somewhere
                escapes = any((isinstance(x, ast.Return) and isinstance(x.value, ast.Name) and x.value.id == g.name) or
                              (isinstance(x, ast.Assign) and isinstance(x.value, ast.Name) and x.value.id == g.name and any(not isinstance(t, ast.Name) for t in x.targets))
                              for x in walk_local(f))
                if not escapes:
                    continue
                g_local = {a.arg for a in g.args.args + g.args.kwonlyargs} | {t.id for x in ast.walk(g) for t in (x.targets if isinstance(x, ast.Assign) else [x.target] if isinstance(x, (ast.AnnAssign, ast.AugAssign, ast.For)) else []) if isinstance(t, ast.Name)}
                g_local |= {x.optional_vars.id for w in ast.walk(g) if isinstance(w, ast.With) for x in w.items if isinstance(x.optional_vars, ast.Name)}
                params = {a.arg for a in f.args.args + f.args.kwonlyargs}
                bound: Dict[str, List[ast.AST]] = {}
                for x in walk_local(f):
                    if isinstance(x, (ast.Assign, ast.AnnAssign)) and getattr(x, "value", None) is not None:
                        for t in (x.targets if isinstance(x, ast.Assign) else [x.target]):
                            if isinstance(t, ast.Name):
                                bound.setdefault(t.id, []).append(x.value)
                qual = m.qualname_of(g)
                for v in sorted(({y.id for y in ast.walk(g) if isinstance(y, ast.Name)} - g_local) & (params | set(bound))):
                    kinds = {k for k in (_is_mutable_value(val) for val in bound.get(v, [])) if k}
                    bad = []
                    for y in ast.walk(g):
                        if isinstance(y, ast.Name) and y.id == v:
                            desc, ok_use = _classify(m, y, m.parent.get(y), set())
                            mutation = desc.startswith(("mutating call", "item store", "augmented assignment", "attribute store", "nested attribute store", "rebound", "attribute rebound"))
                            if mutation:
                                bad.append(desc)
                            elif "instance" in kinds and not desc.startswith(("compared", "truth-tested")):
                                bad.append(desc + " on an object built once in the factory")
                            elif kinds and not ok_use:
                                bad.append(desc + " (a container built once in the factory escapes into the call)")
                    ctx.ob("R15.6", f"{m.name}:{qual}|captured `{v}`", not bad,
                           msg=f"{qual} is handed out by {f.name} and called for every parse, but uses `{v}` from the factory's frame: {sorted(set(bad))[:3]}; state made by one parse (macros, errors, collected items) is seen by the next",
                           node=g, mod=m, nontrivial=bool(kinds))

    # ---------------------------------------------------------------- R15.5
    ctx.rule("R15.5", "tokens are mutated only where they are created (lexer.py); the placeholder token is immutable after module init", minimum=1)
    bad = []
    for fname, fn in pm.methods.items():
        for t, st in stores_in(fn):
            if isinstance(t, ast.Attribute) and t.attr in ("type", "value", "lineno", "lexpos", "lexer", "lexmatch") and isinstance(t.value, ast.Name) and ("tok" in t.value.id or t.value.id in ("t",)):
                bad.append((fname, st))
    ctx.ob("R15.5", "parser:CxxParser|no store to a token", not bad, msg=f"parser.py mutates a token object: {[(f, short(s)) for f, s in bad][:3]} (tokens may be shared through push-back and the placeholder)", node=bad[0][1] if bad else pm.cls, mod=pm.mod)
    for m in repo.modules.values():
        for qual, fn in m.functions():
            for t, st in stores_in(fn):
                ch = attr_chain(t)
                if ch and ch[0] == "PhonyEnding":
                    ctx.ob("R15.5", f"{m.name}:{qual}|store to PhonyEnding", False, msg=f"`{short(st)}` mutates the process-wide placeholder token", node=st, mod=m)


def audit(ctx: Ctx, rid: str) -> None:
    repo = ctx.repo
    ctx.rule(rid, "module-/class-level mutable objects (and their local aliases, and mutable default arguments) are only read inside functions", minimum=20)
    objs = shared.collect(repo)
    n_uses = 0
    for sh in objs:
        us = shared.uses(repo, sh)
        n_uses += len(us)
        allowed, reason = EXCEPTIONS.get(sh.key, (set(), ""))
        bad = [(m, q, x, d) for m, q, x, d, ok in us if not ok and d not in allowed]
        if not bad:
            ctx.ob(rid, f"{sh.key}|read-only ({len(us)} uses)", True, node=sh.node, mod=repo.mod(sh.module), nontrivial=bool(us), detail={"uses": len(us), "exception": reason} if reason else {"uses": len(us)})
        for m, q, x, d in bad:
            ctx.ob(rid, f"{sh.key}|{d} in {m.name}:{q}", False,
                   msg=f"the process-wide object {sh.key} is {d} in {q}: what one parse does to it is visible to every later, nested or concurrent parse", node=x, mod=m)
    ctx.extra["shared_objects"] = len(objs)
    ctx.extra["shared_object_uses"] = n_uses
    # mutable default arguments
    for m in repo.modules.values():
        for qual, fn in m.functions():
            a = fn.args
            pos = a.posonlyargs + a.args
            pairs = list(zip(pos[len(pos) - len(a.defaults):], a.defaults)) + [(x, d) for x, d in zip(a.kwonlyargs, a.kw_defaults) if d is not None]
            for arg, d in pairs:
                if isinstance(d, (ast.List, ast.Dict, ast.Set)):
                    bad = []
                    for x in ast.walk(fn):
                        if isinstance(x, ast.Name) and x.id == arg.arg and isinstance(x.ctx, ast.Load):
                            desc, ok = shared._classify(m, x, m.parent.get(x), set())
                            if not ok and not desc.startswith("argument of"):
                                bad.append(desc)
                            if desc.startswith("mutating"):
                                bad.append(desc)
                        if isinstance(x, ast.AugAssign) and isinstance(x.target, ast.Name) and x.target.id == arg.arg:
                            bad.append("augmented assignment")
                    ctx.ob(rid, f"{m.name}:{qual}|mutable default `{arg.arg}`", not bad, msg=f"the default value of `{arg.arg}` (one object per process) is {bad[:2]}", node=d, mod=m, nontrivial=False)


def _enclosing_function(m, node):
    p = m.parent.get(node)
    while p is not None and not isinstance(p, (ast.FunctionDef, ast.AsyncFunctionDef, ast.Lambda)):
        p = m.parent.get(p)
    return p
