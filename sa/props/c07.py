"""C07 -- parsing time is polynomially bounded (decided: lexer half + loop
progress + single re-scan of pushed-back token groups)."""
from __future__ import annotations

import ast
from typing import List, Optional, Set, Tuple

from ..cfg import CFG
from ..lexmodel import LexModel
from ..model import AnalysisError, Unfoldable, attr_chain, norm, short, walk_local
from ..pmodel import LEX_CONSUME, ParserModel
from ..report import Ctx
from ..rx import Auto

LEVEL = "static analysis: regex ambiguity decided on automata built from the source constants; loop progress and re-scan rules on CFG + call graph"
EXPLANATION = (
    "R7.1/R7.2: every token regular expression (folded from the PlyLexer class body, compiled with the flags PLY uses) and "
    "every regex literal in the package is turned into a position automaton with look-ahead filters and searched for "
    "exponential ambiguity (two runs over one word inside a loop, multi-route follow links in a cycle, nullable loop bodies) "
    "in front of a suffix that can fail. R7.3: every while-loop of parser.py and lexer.py must have no cycle free of a "
    "token-consuming call. R7.4: a token group taken with _consume_balanced_tokens is pushed back / re-parsed at most once per "
    "path and only as the group itself or its interior. R7.5: recursive re-entry into the template-argument trial parse happens "
    "at most once per argument. Not decided: a polynomial bound for the recursive-descent half as a whole (cost analysis), and timing itself."
)

RE_FUNCS = {"compile", "sub", "subn", "split", "match", "search", "fullmatch", "findall", "finditer"}


def regex_literals(ctx: Ctx) -> List[Tuple[str, str, int, ast.AST, object]]:
    """(module, where, flags, node, pattern) for every re.* call with a
    constant-foldable pattern anywhere in the package."""
    out = []
    for mname, mod in ctx.repo.modules.items():
        if mname.startswith("_ply"):
            continue
        for n in ast.walk(mod.tree):
            if isinstance(n, ast.Call) and isinstance(n.func, ast.Attribute) and n.func.attr in RE_FUNCS:
                if isinstance(n.func.value, ast.Name) and n.func.value.id == "re" and n.args:
                    qual = mod.qualname_of(n)
                    clsname = None
                    fld = ctx.repo.folder(mname, None)
                    # class-level constant?
                    p = mod.parent.get(n)
                    while p is not None and not isinstance(p, (ast.ClassDef, ast.FunctionDef)):
                        p = mod.parent.get(p)
                    if isinstance(p, ast.ClassDef):
                        fld = ctx.repo.folder(mname, mod.qualname_of(p.body[0]) if False else p.name) if mod.has_cls(p.name) else fld
                    try:
                        pat = fld.ev(n.args[0])
                    except Unfoldable:
                        pat = None
                    flags = 0
                    fa = None
                    if n.func.attr == "compile" and len(n.args) > 1:
                        fa = n.args[1]
                    for kw in n.keywords:
                        if kw.arg == "flags":
                            fa = kw.value
                    if fa is not None:
                        try:
                            flags = fld._flags(fa)
                        except Unfoldable:
                            flags = -1
                    out.append((mname, qual, flags, n, pat))
    return out


def run(ctx: Ctx) -> None:
    lm = LexModel(ctx.repo)
    pm = ParserModel(ctx.repo)
    ctx.trusted = [
        "re._parser as the definition of what the regex constants mean",
        "PLY facts re-derived from _ply/lex.py anchors: " + "; ".join(f"{k}={v}" for k, v in lm.facts.items()),
    ]
    ctx.undecided = [
        "polynomial bound for the recursive-descent half as a whole (needs a cost analysis over recursion and push-back)",
        "CPU time itself (a runtime quantity)",
    ]

    # ---------------------------------------------------------------- R7.1
    ctx.rule("R7.1", "no exponential ambiguity in any token regex (automaton search; failing suffix required)", minimum=30)
    for r in lm.rules:
        a = r.auto(lm.reflags)
        key = f"lexer:PlyLexer.{r.name}|regex"
        if a.approx:
            raise AnalysisError(f"rule {r.name} uses a regex construct the automaton only approximates: {a.approx}")
        w = a.eda()
        ctx.ob(
            "R7.1",
            key,
            w is None,
            msg=("" if w is None else f"token regex {r.name} is exponentially ambiguous: {w['kind']}; pump {w.get('pump')!r} "
                 f"(regex {r.regex!r}): a long run of the pump followed by a non-matching tail is matched in 2^n ways"),
            node=r.node,
            mod=lm.lexer,
            detail={"positions": len(a.pos), "witness": w},
        )
    ctx.sample({"rule": "R7.1", "regex": lm.rule("t_COMMENT_MULTILINE").regex, "positions": len(lm.auto("t_COMMENT_MULTILINE").pos), "eda": lm.auto("t_COMMENT_MULTILINE").eda()})

    ctx.rule("R7.1m", "no exponential ambiguity in any other regex literal of the package", minimum=4)
    for mname, qual, flags, node, pat in regex_literals(ctx):
        mod = ctx.repo.mod(mname)
        key = f"{mname}:{qual}|{short(node.args[0], 50)}"
        if pat is None or not isinstance(pat, str):
            # dynamic pattern: only allowed where the pattern is user supplied data (preprocessor rewrite paths)
            ctx.ob("R7.1m", key, mname == "preprocessor", msg=f"regex pattern is not a constant: {short(node)}", node=node, mod=mod, nontrivial=False)
            continue
        if flags < 0:
            raise AnalysisError(f"cannot evaluate regex flags at {mod.loc(node)}")
        a = Auto(pat, flags, name=key)
        if a.approx:
            raise AnalysisError(f"regex at {mod.loc(node)} uses a construct the automaton only approximates: {a.approx}")
        w = a.eda()
        ctx.ob("R7.1m", key, w is None, msg="" if w is None else f"regex {pat!r} is exponentially ambiguous: {w}", node=node, mod=mod, detail={"pattern": pat})

    # ---------------------------------------------------------------- R7.3
    ctx.rule("R7.3", "every while-loop cycle contains a call that can consume input (definite non-progress only)", minimum=30)
    may = pm.may_consume()
    for fname, fn in pm.methods.items():
        cfg = pm.cfg(fname)
        for n in cfg.nodes:
            if n.kind == "test" and isinstance(n.loop, ast.While):
                def progress(x, fname=fname):
                    for c, r in pm.node_calls(fname, x):
                        if r is None:
                            continue
                        if r[0] == "lex" and r[1] in LEX_CONSUME:
                            return True
                        if r[0] == "self" and r[1] in may:
                            return True
                    # taking an element off a local container is progress too: the container is finite (an empty one raises)
                    for c in x.calls():
                        if isinstance(c.func, ast.Attribute) and c.func.attr in ("pop", "popleft") and not c.args and isinstance(c.func.value, ast.Name) and c.func.value.id != "self":
                            return True
                    return False
                ok = progress(n) or not cfg.paths_avoiding(n, n, progress)
                ctx.ob("R7.3", f"parser:CxxParser.{fname}|while {short(n.loop.test, 40)} #{_loop_index(fn, n.loop)}", ok,
                       msg=f"loop in {fname} has a cycle that consumes no token: it cannot terminate once entered on that path",
                       node=n.loop, mod=pm.mod)
    lex = ctx.repo.mod("lexer")
    LEXPROG = {"popleft", "pop", "_fill_tokbuf", "get_token", "token", "token_eof_ok"}
    for qual, fn in lex.functions():
        if not qual.startswith(("TokenStream.", "LexerTokenStream.", "BoundedTokenStream.")):
            continue
        cfg = CFG(fn)
        for n in cfg.nodes:
            if n.kind == "test" and isinstance(n.loop, ast.While):
                def progress2(x):
                    for c in x.calls():
                        ch = attr_chain(c.func)
                        if ch and ch[-1] in LEXPROG:
                            return True
                    return False
                ok = progress2(n) or not cfg.paths_avoiding(n, n, progress2)
                ctx.ob("R7.3", f"lexer:{qual}|while {short(n.loop.test, 40)} #{_loop_index(fn, n.loop)}", ok,
                       msg=f"loop in {qual} has a cycle that neither pops nor fetches a token", node=n.loop, mod=lex)

    # ---------------------------------------------------------------- R7.4
    ctx.rule("R7.4", "a consumed token group is pushed back at most once per path, as the group or its interior [1:-1]", minimum=4)
    for fname, fn in pm.methods.items():
        cfg = pm.cfg(fname)
        sites = []
        for n in cfg.nodes:
            for c, r in pm.node_calls(fname, n):
                if r == ("lex", "return_tokens"):
                    sites.append((n, c))
        for n, c in sites:
            arg = c.args[0] if c.args else None
            base = arg
            sliced = False
            if isinstance(arg, ast.Subscript):
                base = arg.value
                sl = arg.slice
                sliced = (
                    isinstance(sl, ast.Slice)
                    and isinstance(sl.lower, ast.Constant) and sl.lower.value == 1
                    and isinstance(sl.upper, ast.UnaryOp) and isinstance(sl.upper.op, ast.USub)
                    and isinstance(sl.upper.operand, ast.Constant) and sl.upper.operand.value == 1
                    and sl.step is None
                )
                shape_ok = sliced
            else:
                shape_ok = isinstance(arg, ast.Name)
            var = base.id if isinstance(base, ast.Name) else None
            # the variable's reaching definitions must all be _consume_balanced_tokens results
            defs_ok = False
            if var:
                defs = [st for st in walk_local(fn) if isinstance(st, ast.Assign) and any(isinstance(t, ast.Name) and t.id == var for t in st.targets)]
                defs_ok = bool(defs) and all(
                    isinstance(d.value, ast.Call) and pm.resolve(fname, d.value) == ("self", "_consume_balanced_tokens") for d in defs
                ) or (bool(defs) and all(
                    (isinstance(d.value, ast.Call) and pm.resolve(fname, d.value) == ("self", "_consume_balanced_tokens"))
                    or (isinstance(d.value, ast.List) and not d.value.elts) for d in defs))
            # at most once per path: no path from this site to another return_tokens of the same variable
            # without passing a re-definition of the variable
            once = True
            if var:
                def redefines(x, var=var):
                    st = x.stmt
                    return x.kind == "stmt" and isinstance(st, ast.Assign) and any(isinstance(t, ast.Name) and t.id == var for t in st.targets)
                for n2, c2 in sites:
                    a2 = c2.args[0] if c2.args else None
                    b2 = a2.value if isinstance(a2, ast.Subscript) else a2
                    if isinstance(b2, ast.Name) and b2.id == var:
                        if cfg.paths_avoiding(n, n2, redefines):
                            once = False
            ok = shape_ok and defs_ok and once
            why = []
            if not shape_ok:
                why.append("argument is neither a whole group nor its interior [1:-1]")
            if not defs_ok:
                why.append("argument does not come from _consume_balanced_tokens only")
            if not once:
                why.append("the same group can be pushed back twice on one path")
            ctx.ob("R7.4", f"parser:CxxParser.{fname}|return_tokens({short(arg, 30)})", ok, msg="; ".join(why), node=c, mod=pm.mod)

    # ---------------------------------------------------------------- R7.5
    ctx.rule("R7.5", "the template-argument trial parse re-enters the parser once per argument (no second attempt over the same tokens)", minimum=1)
    fname = "_parse_template_specialization"
    fn = pm.fn(fname)
    cfg = pm.cfg(fname)
    swaps = [n for n in cfg.nodes if n.kind == "stmt" and isinstance(n.stmt, ast.Assign) and any(attr_chain(t) == ("self", "lex") for t in n.stmt.targets)]
    bounded = [c for c in walk_local(fn) if isinstance(c, ast.Call) and (attr_chain(c.func) or ("",))[-1] == "BoundedTokenStream"]
    def loops_around(x: ast.AST) -> int:
        k = 0
        p_ = pm.mod.parent.get(x)
        while p_ is not None and p_ is not fn:
            if isinstance(p_, (ast.For, ast.While)):
                k += 1
            p_ = pm.mod.parent.get(p_)
        return k
    # the argument's tokens are taken once per iteration of the argument loop: the re-parse stream is built at the same
    # loop depth (a loop around it - `for mode in (False, True)` - is a second attempt over the same tokens)
    takes = [c for c in walk_local(fn) if isinstance(c, ast.Call) and pm.resolve(fname, c) == ("self", "_consume_value_until")]
    depth_ok = bool(takes) and all(loops_around(b) == min(loops_around(t) for t in takes) for b in bounded)
    ctx.ob("R7.5", f"parser:CxxParser.{fname}|BoundedTokenStream constructions per iteration", len(bounded) == 1 and depth_ok,
           msg=(f"{len(bounded)} bounded re-parse streams are created per template argument; each nesting level multiplies the work" if len(bounded) != 1 else
                "the bounded re-parse stream is built inside a loop of its own: the same argument tokens are parsed more than once, and each nesting level multiplies the work"),
           node=bounded[0] if bounded else fn, mod=pm.mod)
    # inside the swap region each entry point into the recursive descent is called once and not in a loop
    reent = pm.closure({fname})
    region_calls = []
    for n in cfg.nodes:
        for c, r in pm.node_calls(fname, n):
            if r and r[0] == "self" and r[1] in reent and _inside_try_finally(pm, fn, c):
                region_calls.append((n, c, r[1]))
    names = [r for _, _, r in region_calls]
    dup = {x for x in names if names.count(x) > 1}
    inner_loop = [r for n, c, r in region_calls if _in_inner_loop(pm, fn, c)]
    ctx.ob("R7.5", f"parser:CxxParser.{fname}|re-entrant calls in the trial region", not dup and not inner_loop and len(region_calls) >= 1,
           msg=f"trial region re-enters the parser more than once over the same tokens: {sorted(dup) or inner_loop}",
           node=fn, mod=pm.mod, detail={"calls": names})


def _loop_index(fn: ast.AST, loop: ast.AST) -> int:
    i = 0
    for n in walk_local(fn):
        if isinstance(n, ast.While):
            if n is loop:
                return i
            i += 1
    return -1


def _inside_try_finally(pm: ParserModel, fn: ast.AST, node: ast.AST) -> bool:
    p = pm.mod.parent.get(node)
    while p is not None and p is not fn:
        if isinstance(p, ast.Try) and p.finalbody:
            return True
        p = pm.mod.parent.get(p)
    return False


def _in_inner_loop(pm: ParserModel, fn: ast.AST, node: ast.AST) -> bool:
    """node is inside a loop nested inside a try/finally (i.e. repeated within one trial)."""
    p = pm.mod.parent.get(node)
    while p is not None and p is not fn:
        if isinstance(p, (ast.While, ast.For)):
            # is this loop itself inside the try/finally ?
            return _inside_try_finally(pm, fn, p)
        p = pm.mod.parent.get(p)
    return False
