"""C12 -- sibling declarations are independent and scopes compose."""
from __future__ import annotations

import ast
from typing import Dict, List, Optional, Set, Tuple

from ..cfg import CFG, Node, node_defs, reaching_defs
from ..kinds import node_containing
from ..model import AnalysisError, attr_chain, is_self_attr, norm, short, stores_in, walk_local
from ..pmodel import ParserModel
from ..report import Ctx, SubCtx
from ..vmodel import VisitorModel
from .. import loops, scopewalk
from .c15 import audit

LEVEL = "ownership / liveness / shape rules: nothing survives from one declaration to the next; scope composition in the simple visitor"
EXPLANATION = (
    "R12.1 the parser keeps five pieces of state written after construction (visitor, state, current_namespace, anon_id, lex), each with "
    "its own discipline; any other attribute store outside __init__ is a leak channel. R12.2 the only locals carried across iterations "
    "of the top-level loop are `doxygen` (governed by C11) and the current token. R12.3 state objects receive only location, the saved "
    "visitor and their constructor arguments; per-iteration locals handed to constructors inside loops are re-initialised every "
    "iteration (no sticky flags). R12.4 on_namespace_start looks a name up before creating it, creates only on the missing branch under "
    "the same key in the same parent, descends on every iteration, starts from the parent state's scope and binds the innermost scope. "
    "R12.5 extern blocks alias the parent state's scope. R12.6 the shared-state audit of C15 (nothing at module/class level is mutated). "
    "Not decided: the concatenation equation itself."
)

PERSISTENT = {
    "visitor": "swapped by the prune/pop discipline (C05)",
    "state": "block stack (C04)",
    "current_namespace": "follows the block stack",
    "anon_id": "monotonic counter (C03 R3.6)",
    "lex": "trial-parse swap, restored in finally (C02 R2.1)",
}


def run(ctx: Ctx) -> None:
    pm = ParserModel(ctx.repo)
    vm = VisitorModel(ctx.repo)
    mod = pm.mod
    types = ctx.repo.mod("types")
    ctx.trusted = []
    ctx.undecided = ["the concatenation equation itself (result equality is a runtime relation)"]

    # ---------------------------------------------------------------- R12.1
    ctx.rule("R12.1", "attributes of the parser written after construction are exactly the five governed ones", minimum=5)
    seen: Dict[str, List[Tuple[str, ast.stmt]]] = {}
    for fname, fn in pm.methods.items():
        if fname == "__init__":
            continue
        for t, st in stores_in(fn):
            ch = attr_chain(t)
            if ch and ch[0] == "self" and len(ch) == 2:
                seen.setdefault(ch[1], []).append((fname, st))
    for a, sites in sorted(seen.items()):
        ctx.ob("R12.1", f"parser:CxxParser|self.{a} written in {sorted({f for f, _ in sites})}", a in PERSISTENT,
               msg=f"`{short(sites[0][1])}` keeps state on the parser between declarations (self.{a}): whatever it holds leaks from one declaration into the next",
               node=sites[0][1], mod=mod, nontrivial=False, detail=PERSISTENT.get(a))
    # nested attribute stores through self (self.x.y = ...) other than state.location / options
    for fname, fn in pm.methods.items():
        for t, st in stores_in(fn):
            ch = attr_chain(t)
            if ch and ch[0] == "self" and len(ch) >= 3 and not (ch[1] == "state" and ch[2] == "location"):
                ctx.ob("R12.1", f"parser:CxxParser.{fname}|nested store {'.'.join(ch)}", False, msg=f"`{short(st)}` mutates an object reachable from the parser", node=st, mod=mod)
    # containers kept on the parser: created in the constructor, filled while parsing (`self._cache[key] = decl`,
    # `self._seen.add(x)`): what one declaration put there is what the next one finds
    _MUT = {"append", "add", "update", "setdefault", "pop", "clear", "extend", "insert", "remove", "popitem", "discard", "appendleft", "extendleft"}
    for fname, fn in pm.methods.items():
        if fname in ("__init__", "__new__"):
            continue
        for x in walk_local(fn):
            tgt = None
            if isinstance(x, ast.Subscript) and isinstance(x.ctx, (ast.Store, ast.Del)):
                tgt = x.value
            elif isinstance(x, ast.Call) and isinstance(x.func, ast.Attribute) and x.func.attr in _MUT:
                tgt = x.func.value
            ch = attr_chain(tgt) if tgt is not None else None
            if ch and len(ch) == 2 and ch[0] == "self" and ch[1] not in ("lex",):
                ctx.ob("R12.1", f"parser:CxxParser.{fname}|container self.{ch[1]} filled while parsing", False,
                       msg=f"`{short(x, 60)}` fills a container that lives on the parser: what one declaration leaves there is found by every later one (a cached object is then shared between declarations that must be independent)", node=x, mod=mod)
    # current_namespace writers
    # (the push function and the other block openers may set it as well, from the namespace block being pushed:
    # `self.current_namespace = <state>.namespace`, which the kind analysis restricts to namespace blocks)
    cn = sorted({f for f, st_ in seen.get("current_namespace", []) if not (f in ("_setup_state", "_parse_extern", "_parse_class_decl") and isinstance(st_, ast.Assign) and isinstance(st_.value, ast.Attribute) and st_.value.attr == "namespace")})
    ctx.ob("R12.1", "parser:CxxParser|current_namespace writers", set(cn) <= {"_parse_namespace", "_pop_state"}, msg=f"current_namespace is written by {cn}", node=pm.cls, mod=mod, nontrivial=False)

    if isinstance(ctx, SubCtx) and set(ctx._map) <= {"R12.1"}:
        return  # evaluated for another property that shares only the rules above
    # ---------------------------------------------------------------- R12.2
    ctx.rule("R12.2", "top-level loop: locals live across iterations are only the pending doc text and the current token", minimum=1)
    cfg = pm.cfg("parse")
    heads = [n for n in cfg.nodes if n.kind == "test" and isinstance(n.loop, ast.While)]
    carried: Set[str] = set()
    if len(heads) != 1:
        raise AnalysisError("parse(): expected exactly one while loop")
    h = heads[0]
    inside = {id(x) for x in ast.walk(h.loop)}
    rd = reaching_defs(cfg, skip_exc=True)
    for n in cfg.nodes:
        if n.stmt is None or id(n.stmt) not in inside:
            continue
        for x in n.walk():
            if isinstance(x, ast.Name) and isinstance(x.ctx, ast.Load):
                for d in rd.get(n.id, {}).get(x.id, ()):
                    dn = cfg.nodes[d]
                    if dn.stmt is not None and id(dn.stmt) in inside and dn is not n:
                        # does the definition reach the use only through the back edge?
                        if not _reaches_forward(cfg, dn, n, h):
                            carried.add(x.id)
    ctx.ob("R12.2", "parser:CxxParser.parse|loop-carried locals", carried <= {"doxygen", "tok"},
           msg=f"locals {sorted(carried - {'doxygen', 'tok'})} carry a value from one top-level declaration to the next", node=h.loop, mod=mod, detail=sorted(carried))

    # ---------------------------------------------------------------- R12.3
    ctx.rule("R12.3", "nothing declaration-scoped is parked on a state object; per-iteration locals are re-initialised every iteration", minimum=10)
    for fname, fn in pm.methods.items():
        for t, st in stores_in(fn):
            if isinstance(t, ast.Attribute) and not is_self_attr(t):
                base = t.value
                bn = norm(base)
                if bn in ("state", "self.state", "class_state", "prev_state", "old_state") and t.attr not in ("location", "_prior_visitor"):
                    ctx.ob("R12.3", f"parser:CxxParser.{fname}|store {bn}.{t.attr}", False, msg=f"`{short(st)}` parks declaration-scoped data on a block state", node=st, mod=mod)
    ctors = {c for c, _ in types.classes()}
    for fname in pm.methods:
        for loop, v, c, ok in loops.sticky_locals(pm, fname, ctors):
            ctx.ob("R12.3", f"parser:CxxParser.{fname}|`{v}` for {c.func.id}(...) re-initialised every iteration", ok,
                   msg=f"`{v}` given to {c.func.id}(...) can keep its value from the previous iteration of the loop: a flag set for one element sticks to the following ones", node=c, mod=mod)

    # ---------------------------------------------------------------- R12.4
    ctx.rule("R12.4", "on_namespace_start over a family of scope trees: every name component is looked up in the scope reached so far, reused when present, created under its own name "
             "when missing; the walk starts at the enclosing scope and the block is bound to the innermost scope", minimum=5)
    sm = ctx.repo.mod("simple")
    fn = sm.func("SimpleCxxVisitor.on_namespace_start")
    vis_ = sm.cls("SimpleCxxVisitor")
    vm_names = {f.name for f in vis_.body if isinstance(f, ast.FunctionDef)}
    self_reads = sorted({x.attr for x in ast.walk(fn) if isinstance(x, ast.Attribute) and isinstance(x.value, ast.Name) and x.value.id == fn.args.args[0].arg and x.attr not in vm_names})
    parts = [("lookup by name", "reused_ok", "a name component that already exists in the scope reached so far does not resolve to that scope: re-opening a namespace starts a second scope"),
             ("create only when missing, under the same key", "created_ok", "a missing name component is not created exactly once, under its own name, in the scope reached so far"),
             ("descend into the found-or-created scope on every iteration", "descend_ok", "a later name component is looked up beside an earlier one instead of inside it: 'namespace a::b' places b beside a"),
             ("walk starts at the enclosing scope", "start_ok", "the first name component is not looked up in the scope of the enclosing block (state.parent.user_data): a namespace nested in another is filed under the wrong parent"),
             ("state bound to the innermost scope", "bound_ok", "state.user_data is not the scope of the last name component")]
    if self_reads:
        # which scope is chosen depends on visitor-level state: reported below; the tree interpretation has no model of that state
        for title, _, _ in parts:
            ctx.ob("R12.4", f"simple:SimpleCxxVisitor.on_namespace_start|{title}", True, node=fn, mod=sm, nontrivial=False, detail="not evaluated: the method consults visitor-level state (reported by the next obligation)")
    else:
        outs = scopewalk.outcomes(sm)
        for title, field_, why in parts:
            bad = [o for o in outs if not getattr(o, field_)]
            ctx.ob("R12.4", f"simple:SimpleCxxVisitor.on_namespace_start|{title}", not bad,
                   msg=(f"{why} -- e.g. namespace {'::'.join(bad[0].names) or '<anonymous>'} {{}} where the enclosing scope holds {bad[0].pre}: {bad[0].note}" if bad else ""), node=fn, mod=sm,
                   detail=f"{len(outs)} scope trees interpreted")

    # the scope a block is bound to is a function of the parent block's scope and the block's own names: a start callback
    # that consults anything kept on the visitor (a cache of scopes, a shared anonymous scope) makes the result depend on
    # what was parsed before, elsewhere
    vis = sm.cls("SimpleCxxVisitor")
    vmeths = {f.name for f in vis.body if isinstance(f, ast.FunctionDef)}
    for f in vis.body:
        if not (isinstance(f, ast.FunctionDef) and f.name.startswith("on_") and f.name.endswith("_start") and f.name != "on_parse_start"):
            continue
        binds_ = [x for x in ast.walk(f) if isinstance(x, ast.Attribute) and x.attr == "user_data" and isinstance(x.ctx, ast.Store)]
        if not binds_:
            continue
        reads = sorted({x.attr for x in ast.walk(f) if isinstance(x, ast.Attribute) and isinstance(x.value, ast.Name) and x.value.id == "self" and isinstance(x.ctx, ast.Load) and x.attr not in vmeths})
        ctx.ob("R12.4", f"simple:SimpleCxxVisitor.{f.name}|scope depends on the parent state only", not reads,
               msg=f"{f.name} reads visitor-level state ({', '.join('self.' + r for r in reads)}) while deciding which scope the block belongs to: the same block is filed differently depending on what was seen earlier, in other scopes", node=f, mod=sm)

    # ---------------------------------------------------------------- R12.5
    ctx.rule("R12.5", "extern blocks are transparent: the block's scope is the parent state's scope (alias, no copy)", minimum=1)
    ef = sm.func("SimpleCxxVisitor.on_extern_block_start")
    ep = ef.args.args[1].arg
    sts = [s for s in walk_local(ef) if isinstance(s, ast.Assign) and attr_chain(s.targets[0]) == (ep, "user_data")]
    ctx.ob("R12.5", "simple:SimpleCxxVisitor.on_extern_block_start|aliases the parent scope", len(sts) == 1 and norm(sts[0].value) == f"{ep}.parent.user_data",
           msg=f"an extern block's scope is `{short(sts[0].value) if sts else '?'}`, not the scope of the enclosing block: declarations inside `extern \"C\" {{ }}` land in another scope", node=ef, mod=sm)

    # ---------------------------------------------------------------- R12.6
    audit(ctx, "R12.6")

    # ---------------------------------------------------------------- R12.7
    # "no doc comment leaks from one declaration into the next": the leak channels are decided by C11's rules - one
    # consuming construction per doc value, the reset after every dispatch, and the trailing scan ending at the line end
    # or at a plain comment that ends the line (otherwise it walks into the next declaration's block)
    from . import c11
    from ..report import run_shared
    t127 = "a doc comment is attributed once, reset after every dispatch, and the trailing scan does not reach the next declaration's comments (C11's rules)"
    run_shared(ctx, c11.run, {"R11.1": ("R12.7", t127), "R11.2": ("R12.7", t127), "R11.5": ("R12.7", t127), "R11.7": ("R12.7", t127), "R11.6": ("R12.7", t127)},
               # (the finding already listed for C11 - the enumerator lookup in front of its value, D24 - stays keyed under C11 only)
               {"R11.6|parser:CxxParser._parse_enumerator_list|tokens consumed after get_doxygen_after()"})


def _reaches_forward(cfg: CFG, a: Node, b: Node, head: Node) -> bool:
    """a ->+ b without passing the loop head."""
    seen = set()
    st = [s for s, lab in a.succ if lab != "exc"]
    while st:
        x = st.pop()
        if x.id in seen or x is head:
            continue
        seen.add(x.id)
        if x is b:
            return True
        st.extend(s for s, lab in x.succ if lab != "exc")
    return False
