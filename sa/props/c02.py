"""C02 -- declarators decode to the C++ type they denote (decided: restoring
the token source, type-node conformance to the declared unions, flag pairing,
bottom-up construction, mode forwarding in recursion, keyword partition)."""
from __future__ import annotations

import ast
from typing import Dict, FrozenSet, List, Optional, Set, Tuple

from ..cfg import CFG, Node, reaching_defs
from ..kinds import KindAnalysis, KindDomain, node_containing
from ..lexmodel import LexModel
from ..model import AnalysisError, annotation_names, attr_chain, is_self_attr, norm, short, stores_in, walk_local
from ..pmodel import ParserModel
from ..report import Ctx
from .. import loops, swap

LEVEL = "pairing / kind-guard / ownership rules on the declarator machinery"
EXPLANATION = (
    "R2.1/R2.2 the token source swapped for the template-argument trial parse is restored in a finally from the value read before the "
    "try; everything done while swapped is covered by a swallowing `except CxxParseError`, emits nothing, the raw Value is built before "
    "the placeholder is appended, the placeholder list reaches only the bounded stream, and the type is kept only if it spans the whole "
    "argument. R2.3 every Pointer/Reference/MoveReference/Array/FunctionType construction and every const/volatile store conforms to "
    "the Union its field declares (kind-set dataflow with isinstance narrowing; no pointer-to-reference, array of references, reference "
    "to reference, function returning function). R2.4 wherever a trailing return type is substituted, has_trailing_return is set in the "
    "same block; `...` in a parameter list is followed by a mandatory ')'; a calling-convention token is handed to the FunctionType "
    "built after it. R2.5 every lexer keyword is known to the parser or is in the reasoned list of expression-only / unsupported "
    "keywords. R2.6 type nodes are built bottom-up: a node's child link is never assigned after construction; a recursive declarator "
    "function forwards its mode parameters to every recursive call; per-iteration flags handed to constructors are re-initialised. "
    "Not decided: that the nesting order is the inside-out order (a value-level fact about push-back and recursion)."
)

TYPE_NODES = ("Type", "Pointer", "Reference", "MoveReference", "Array", "FunctionType")
CHILD_FIELD = {"Pointer": "ptr_to", "Reference": "ref_to", "MoveReference": "moveref_to", "Array": "array_of", "FunctionType": "return_type"}

EXPRESSION_ONLY = {
    # appear only inside skipped bodies and raw values
    "alignof", "break", "case", "catch", "const_cast", "continue", "do", "dynamic_cast", "else", "false", "for", "goto", "if", "new",
    "nullptr", "reinterpret_cast", "return", "sizeof", "static_cast", "switch", "this", "true", "try", "typeid", "while", "default",
}
UNSUPPORTED_SPECIFIERS = {"asm", "export", "register", "thread_local"}


def run(ctx: Ctx) -> None:
    pm = ParserModel(ctx.repo)
    mod = pm.mod
    types = ctx.repo.mod("types")
    ctx.trusted = ["Union annotations of the type-node fields in types.py as the oracle for legal nestings"]
    ctx.undecided = ["that nesting follows the C++ inside-out rule for every declarator (token push-back and recursion: value-level)",
                     "that the reported name is the identifier at the declarator's core"]

    # ---------------------------------------------------------------- R2.1 / R2.2
    swap.check_swap(ctx, "R2.1", "R2.2", pm)

    # ---------------------------------------------------------------- R2.3
    ctx.rule("R2.3", "type-node constructions and cv stores conform to the Union their field declares", minimum=9)
    aliases: Dict[str, List[str]] = {}
    for st in types.tree.body:
        if isinstance(st, ast.Assign) and len(st.targets) == 1 and isinstance(st.targets[0], ast.Name) and isinstance(st.value, ast.Subscript):
            names = [n for n in annotation_names(st.value) if n in TYPE_NODES]
            if names:
                aliases[st.targets[0].id] = names
    if "DecoratedType" not in aliases:
        raise AnalysisError("anchor vanished: types.DecoratedType")
    dom = KindDomain(TYPE_NODES, aliases, with_none=True)
    need: Dict[str, FrozenSet[str]] = {}
    for cname, f in CHILD_FIELD.items():
        ann = None
        for st in types.cls(cname).body:
            if isinstance(st, ast.AnnAssign) and isinstance(st.target, ast.Name) and st.target.id == f:
                ann = st.annotation
        ks = dom.of_annotation(ann)
        if ks is None:
            raise AnalysisError(f"cannot read the Union of {cname}.{f}")
        need[cname] = ks - {"None"}
    has_cv = {c for c in TYPE_NODES if any(isinstance(st, ast.AnnAssign) and isinstance(st.target, ast.Name) and st.target.id == "const" for st in types.cls(c).body)}
    # kinds of attribute reads, from the annotations of every class declaring a field of that name
    fk: Dict[str, FrozenSet[str]] = {}
    for cname, cnode in types.classes():
        for st in cnode.body:
            if isinstance(st, ast.AnnAssign) and isinstance(st.target, ast.Name):
                ks = dom.of_annotation(st.annotation)
                if ks is not None:
                    fk[st.target.id] = fk.get(st.target.id, frozenset()) | ks
    ka = KindAnalysis(pm, dom, field_kinds=fk)
    for fname, fn in pm.methods.items():
        cfg = pm.cfg(fname)
        for n in cfg.nodes:
            for c in n.calls():
                if isinstance(c.func, ast.Name) and c.func.id in need and c.args:
                    have = ka.kinds_at(fname, n, c.args[0])
                    ok = have <= need[c.func.id]
                    ctx.ob("R2.3", f"parser:CxxParser.{fname}|{c.func.id}({short(c.args[0], 20)}) #{_nth(fn, c)}", ok,
                           msg=f"{c.func.id}(...) may wrap a {sorted(have - need[c.func.id])}, which {c.func.id}.{CHILD_FIELD[c.func.id]} does not admit ({sorted(need[c.func.id])}): e.g. pointer to reference / array of references / reference to reference",
                           node=c, mod=mod, detail={"have": sorted(have)})
            st = n.stmt
            if n.kind == "stmt" and isinstance(st, ast.Assign):
                for t in st.targets:
                    if isinstance(t, ast.Attribute) and t.attr in ("const", "volatile") and isinstance(t.value, ast.Name):
                        have = ka.kinds_at(fname, n, t.value)
                        if not (have & set(TYPE_NODES)) and have != dom.ALL:
                            continue
                        ok = have <= frozenset(has_cv)
                        if have == dom.ALL and t.value.id in ("method", "fn"):
                            continue  # Method.const etc.: not a type node
                        ctx.ob("R2.3", f"parser:CxxParser.{fname}|{t.value.id}.{t.attr} = ...", ok,
                               msg=f"a cv-qualifier is stored on a node that may be {sorted(have - frozenset(has_cv))}, which has no such field", node=st, mod=mod)

    # ---------------------------------------------------------------- R2.11
    # `typedef R name(params...)`: the FunctionType the alias denotes is made from the Function just parsed.  Wherever a
    # FunctionType is built from the fields of one Function object, every field the two classes share comes along
    # (a function type without its `...`, its convention or its noexcept denotes another type).  Whole package.
    ctx.rule("R2.11", "a FunctionType built from a Function object takes every field the two classes share", minimum=1)
    from .c03 import dataclass_fields as _dcf
    _types = ctx.repo.mod("types")
    ft_fields = list(_dcf(_types, "FunctionType"))
    shared_f = [f for f in ft_fields if f in set(_dcf(_types, "Function"))]
    for mname, m_ in sorted(ctx.repo.modules.items()):
        for q_, f_ in m_.functions():
            for c in walk_local(f_):
                if not (isinstance(c, ast.Call) and isinstance(c.func, ast.Name) and c.func.id == "FunctionType"):
                    continue
                given: Dict[str, ast.AST] = {}
                for i_, a_ in enumerate(c.args):
                    if i_ < len(ft_fields):
                        given[ft_fields[i_]] = a_
                for k_ in c.keywords:
                    if k_.arg:
                        given[k_.arg] = k_.value
                # resolve single-definition locals (`return_type = fn.return_type`)
                def _src(e: ast.AST, field: str) -> Optional[Tuple[str, str]]:
                    cands = [e]
                    if isinstance(e, ast.Name):
                        # a local that holds the field (`return_type = fn.return_type`, tested for None in between)
                        cands = [st.value for st in walk_local(f_) if isinstance(st, ast.Assign) and len(st.targets) == 1 and isinstance(st.targets[0], ast.Name) and st.targets[0].id == e.id
                                 and st.lineno <= c.lineno]
                        cands.sort(key=lambda v: not (isinstance(v, ast.Attribute) and v.attr == field))
                    for v in cands:
                        if isinstance(v, ast.Attribute) and isinstance(v.value, ast.Name):
                            return (v.value.id, v.attr)
                    return None
                srcs = {f: _src(v, f) for f, v in given.items()}
                bases = [b for b, a in (x for x in srcs.values() if x) if a in shared_f]
                if not bases:
                    continue
                base = max(set(bases), key=bases.count)
                if bases.count(base) < 2:
                    continue
                missing = [f for f in shared_f if srcs.get(f) != (base, f)]
                ctx.ob("R2.11", f"{mname}:{q_}|FunctionType(...) from the fields of `{base}`", not missing,
                       msg=f"the function type is built from `{base}` without its {missing}: the alias denotes a different type than the declaration (e.g. a C variadic or a calling convention is lost)", node=c, mod=m_)

    # ---------------------------------------------------------------- R2.4
    ctx.rule("R2.4", "flags sit on the node they belong to (trailing return, vararg, calling convention)", minimum=5)
    # does the trailing-type parser do the substitution itself, on the function object it is handed?
    ttr = pm.fn("_parse_trailing_return_type")
    tparams = [a.arg for a in ttr.args.args[1:]]
    callee_stores = {}
    for p_ in tparams:
        rt = [s_ for s_ in walk_local(ttr) if isinstance(s_, ast.Assign) and any(norm(t) == f"{p_}.return_type" for t in s_.targets)]
        fl = [s_ for s_ in walk_local(ttr) if isinstance(s_, ast.Assign) and any(norm(t) == f"{p_}.has_trailing_return" for t in s_.targets) and isinstance(s_.value, ast.Constant) and s_.value.value is True]
        if rt:
            callee_stores[p_] = (rt, fl)
    for p_, (rt, fl) in callee_stores.items():
        ctx.ob("R2.4", f"parser:CxxParser._parse_trailing_return_type|{p_}.return_type substituted with has_trailing_return", bool(fl),
               msg=f"`{short(rt[0])}` replaces the return type by the trailing one without setting {p_}.has_trailing_return", node=rt[0], mod=mod)
    for fname, call in pm.call_sites("_parse_trailing_return_type"):
        cfg = pm.cfg(fname)
        n = node_containing(cfg, call)
        st = n.stmt if n is not None else None
        if callee_stores and isinstance(st, ast.Expr) and st.value is call and call.args and tparams and tparams[0] in callee_stores:
            # the callee stores type and flag on the object it is given: the pairing was decided there
            ctx.ob("R2.4", f"parser:CxxParser.{fname}|trailing return #{_nth(pm.fn(fname), call)} substituted by the callee on `{short(call.args[0], 30)}`", True, node=call, mod=mod, nontrivial=False)
            continue
        # result -> local -> X.return_type = local ; X.has_trailing_return = True in the same block
        var = st.targets[0].id if isinstance(st, ast.Assign) and isinstance(st.targets[0], ast.Name) else None
        block = _block_of(pm, st) if st is not None else []
        stores = [s for s in block if isinstance(s, ast.Assign) and isinstance(s.targets[0], ast.Attribute) and s.targets[0].attr == "return_type" and isinstance(s.value, ast.Name) and s.value.id == var]
        if not stores:
            # deduction guide: result_type of DeductionGuide (no flag by design)
            dg = any(isinstance(c, ast.Call) and isinstance(c.func, ast.Name) and c.func.id == "DeductionGuide" and any(isinstance(a, ast.Name) and a.id == var for a in c.args) for s in block for c in ast.walk(s))
            ctx.ob("R2.4", f"parser:CxxParser.{fname}|trailing return #{_nth(pm.fn(fname), call)} (deduction guide)", dg, msg="the parsed trailing return type is not stored anywhere", node=call, mod=mod, nontrivial=False)
            continue
        recv = norm(stores[0].targets[0].value)
        flags = [s for s in block if isinstance(s, ast.Assign) and norm(s.targets[0]) == f"{recv}.has_trailing_return" and isinstance(s.value, ast.Constant) and s.value.value is True]
        ctx.ob("R2.4", f"parser:CxxParser.{fname}|{recv}.return_type substituted with has_trailing_return", bool(flags),
               msg=f"`{short(stores[0])}` replaces the return type by the trailing one without setting {recv}.has_trailing_return in the same block", node=stores[0], mod=mod)
    pp = pm.fn("_parse_parameters")
    pcfg = pm.cfg("_parse_parameters")
    va = [n for n in pcfg.nodes if n.kind == "stmt" and isinstance(n.stmt, ast.Assign) and norm(n.stmt) == "vararg = True"]
    ok = len(va) == 1
    if ok:
        nxt = [s for s, lab in va[0].succ if lab != "exc"]
        ok = len(nxt) == 1 and any(r == ("self", "_next_token_must_be") and [norm(a) for a in c.args] == ["')'"] for c, r in pm.node_calls("_parse_parameters", nxt[0]))
        deps = pcfg.control_deps(va[0])
        ok = ok and any("ELLIPSIS" in norm(d.cond) and lab == "T" for d, lab in deps)
    ctx.ob("R2.4", "parser:CxxParser._parse_parameters|`...` sets vararg and must be followed by ')'", ok, msg="the vararg flag is not set exactly for a trailing `...` that closes the parameter list", node=pp, mod=mod)
    # calling convention reaches the FunctionType built after it
    cv = pm.fn("_parse_cv_ptr_or_fn")
    fts = [c for c in walk_local(cv) if isinstance(c, ast.Call) and isinstance(c.func, ast.Name) and c.func.id == "FunctionType"]
    conv_defs = [s for s in walk_local(cv) if isinstance(s, ast.Assign) and any(isinstance(t, ast.Name) and t.id == "msvc_convention" for t in s.targets) and not (isinstance(s.value, ast.Constant) and s.value.value is None)]
    ok = bool(conv_defs)
    if ok:
        blk_if = pm.mod.parent.get(pm.mod.parent.get(conv_defs[0]))  # the `else:` branch body owner
        same_branch = [c for c in fts if any(k.arg == "msvc_convention" and isinstance(k.value, ast.Name) and k.value.id == "msvc_convention" for k in c.keywords)]
        ok = len(same_branch) >= 1
    ctx.ob("R2.4", "parser:CxxParser._parse_cv_ptr_or_fn|calling convention handed to the function pointer type", ok,
           msg="an MSVC calling-convention token is consumed but the FunctionType built afterwards does not receive it", node=cv, mod=mod)

    # ---------------------------------------------------------------- R2.5
    ctx.rule("R2.5", "every lexer keyword is known to the parser or is a reasoned expression-only / unsupported keyword", minimum=80)
    lm = LexModel(ctx.repo)
    strs: Set[str] = set()
    for x in ast.walk(mod.tree):
        if isinstance(x, ast.Constant) and isinstance(x.value, str):
            strs.add(x.value)
    for kw in sorted(lm.keywords):
        known = kw in strs
        reason = "parser" if known else ("expression-only" if kw in EXPRESSION_ONLY else ("unsupported specifier" if kw in UNSUPPORTED_SPECIFIERS else None))
        ctx.ob("R2.5", f"lexer:PlyLexer.keywords|{kw}", reason is not None,
               msg=f"`{kw}` is turned into its own token type by the lexer but the parser never mentions it: no declaration that uses it can be parsed (a fundamental type or specifier missing from the parser's tables)",
               node=lm.cls, mod=lm.lexer, nontrivial=False, detail=reason)
    F = ctx.repo.folder("parser", "CxxParser")
    fund = set(F.get("_fundamentals"))
    typekw = {"bool", "char", "char8_t", "char16_t", "char32_t", "double", "float", "int", "long", "short", "signed", "unsigned", "void", "wchar_t"}
    ctx.ob("R2.5", "parser:CxxParser._fundamentals|covers the fundamental type keywords", (typekw & lm.keywords) <= fund,
           msg=f"fundamental type keywords missing from _fundamentals: {sorted((typekw & lm.keywords) - fund)}", node=pm.cls, mod=mod, nontrivial=False)
    ctx.ob("R2.5", "parser:CxxParser._pqname_start_tokens|every fundamental can start a type", fund <= set(F.get("_pqname_start_tokens")),
           msg="a fundamental type keyword cannot start a type name", node=pm.cls, mod=mod, nontrivial=False)

    # ---------------------------------------------------------------- R2.6
    ctx.rule("R2.6", "bottom-up construction, mode forwarding in recursion, per-iteration flags", minimum=5)
    child_fields = set(CHILD_FIELD.values()) - {"return_type"}
    for fname, fn in pm.methods.items():
        for t, st in stores_in(fn):
            if isinstance(t, ast.Attribute) and t.attr in child_fields:
                ctx.ob("R2.6", f"parser:CxxParser.{fname}|store to .{t.attr}", False,
                       msg=f"`{short(st)}` re-links an already constructed type node: declarators are decoded by wrapping (inside-out); re-linking a child nests dimensions/pointers in the wrong order",
                       node=st, mod=mod)
    ctx.ob("R2.6", "parser:CxxParser|no re-linking of type nodes", True, node=pm.cls, mod=mod, nontrivial=False)
    for fname, fn in pm.methods.items():
        names = [a.arg for a in fn.args.args[1:]]
        defaults = fn.args.defaults
        modes = names[len(names) - len(defaults):] if defaults else []
        modes += [a.arg for a in fn.args.kwonlyargs]
        if not modes:
            continue
        for c in walk_local(fn):
            if isinstance(c, ast.Call) and pm.resolve(fname, c) == ("self", fname):
                for m in modes:
                    idx = names.index(m) if m in names else None
                    a = next((k.value for k in c.keywords if k.arg == m), None)
                    if a is None and idx is not None and idx < len(c.args):
                        a = c.args[idx]
                    # a mode that the function never rebinds must be forwarded as itself
                    rebound = any(isinstance(s, ast.Assign) and any(isinstance(t, ast.Name) and t.id == m for t in s.targets) for s in walk_local(fn))
                    ok = (isinstance(a, ast.Name) and a.id == m) or rebound or (a is not None and isinstance(a, ast.Constant) and False)
                    ctx.ob("R2.6", f"parser:CxxParser.{fname}|recursive call forwards `{m}` #{_nth(fn, c)}", ok,
                           msg=f"the recursive call `{short(c)}` does not pass `{m}` on: the nested part of the declarator is parsed in a different mode than the outer part", node=c, mod=mod)
    # ---------------------------------------------------------------- R2.7
    ctx.rule("R2.7", "inside-out order: a group's suffix is applied before descending into the group; array dimensions recurse before wrapping", minimum=3)
    fname = "_parse_cv_ptr_or_fn"
    cfg = pm.cfg(fname)
    fn = pm.fn(fname)
    groups = [n for n in cfg.nodes if n.kind == "stmt" and isinstance(n.stmt, ast.Assign) and isinstance(n.stmt.value, ast.Call) and pm.resolve(fname, n.stmt.value) == ("self", "_consume_balanced_tokens")]
    # the grouping-paren branch is the one followed by a recursive call
    recs = [n for n in cfg.nodes for c, r in pm.node_calls(fname, n) if r == ("self", fname)]
    pushes = [n for n in cfg.nodes for c, r in pm.node_calls(fname, n) if r == ("lex", "return_tokens")]
    wraps = [n for n in cfg.nodes if n.kind == "stmt" and isinstance(n.stmt, ast.Assign) and isinstance(n.stmt.value, ast.Call)
             and (norm(n.stmt.value.func) == "FunctionType" or pm.resolve(fname, n.stmt.value) == ("self", "_parse_array_type"))]
    ok = True
    why = []
    gp = [g for g in groups if any(cfg.dominates(g, r) and not cfg.in_loop(g) or cfg.dominates(g, r) for r in recs)]
    main = [g for g in gp if any(cfg.paths_avoiding(g, r, lambda x: x in groups and x is not g) for r in recs)]
    # for every push-back followed by a recursive call: no suffix wrapping can happen after the push-back
    checked = 0
    for p in pushes:
        # the push-back that is followed, in straight line, by the recursive descent
        follow = [r for r in recs if cfg.paths_avoiding(p, r, lambda x: x.kind == "test" or (x in pushes and x is not p))]
        if not follow:
            continue
        checked += 1
        for w in wraps:
            if cfg.paths_avoiding(p, w, lambda x: x in recs or (x.kind == "test" and x.loop is not None)):
                ok = False
                why.append(f"`{short(w.stmt)}` can run after the group's tokens were pushed back: the suffix would bind outside the group's own declarators")
        for r in follow:
            for w in wraps:
                if cfg.paths_avoiding(r, w, lambda x: x.kind == "test" and x.loop is not None):
                    ok = False
                    why.append(f"`{short(w.stmt)}` is applied after the recursive descent into the group: the suffix ends up outermost instead of innermost")
        for r in follow:
            # the recursive call must take the (possibly suffix-wrapped) type, i.e. the same variable the wraps assign
            call = [c for c, rr in pm.node_calls(fname, r) if rr == ("self", fname)][0]
            if not (call.args and isinstance(call.args[0], ast.Name) and all(isinstance(w.stmt.targets[0], ast.Name) and w.stmt.targets[0].id == call.args[0].id for w in wraps if cfg.dominates(w, r) or cfg.paths_avoiding(w, r, lambda x: False))):
                ok = False
                why.append("the recursive descent does not start from the suffix-wrapped type")
    ctx.ob("R2.7", "parser:CxxParser._parse_cv_ptr_or_fn|suffix applied before descending into a group", ok and checked >= 1,
           msg="; ".join(why) or "grouping-paren anchor vanished", node=fn, mod=mod)
    at = pm.fn("_parse_array_type")
    acfg = pm.cfg("_parse_array_type")
    rec = [n for n in acfg.nodes for c, r in pm.node_calls("_parse_array_type", n) if r == ("self", "_parse_array_type")]
    cons = [n for n in acfg.nodes for c in n.calls() if isinstance(c.func, ast.Name) and c.func.id == "Array"]
    ok = len(rec) == 1 and len(cons) == 1 and not acfg.paths_avoiding(cons[0], rec[0], lambda x: False)
    if ok:
        rc = [c for c, r in pm.node_calls("_parse_array_type", rec[0]) if r == ("self", "_parse_array_type")][0]
        ac = [c for c in cons[0].calls() if isinstance(c.func, ast.Name) and c.func.id == "Array"][0]
        tgt = rec[0].stmt.targets[0].id if isinstance(rec[0].stmt, ast.Assign) and isinstance(rec[0].stmt.targets[0], ast.Name) else None
        ok = tgt is not None and isinstance(ac.args[0], ast.Name) and ac.args[0].id == tgt and len(rc.args) >= 2 and isinstance(rc.args[1], ast.Name) and rc.args[1].id == tgt
    if not ok and not rec:
        # the iterative form: the [..] groups are collected in source order, then wrapped walking that list BACKWARDS,
        # each Array built around the one made before (so the last dimension written is the innermost)
        collected = {c.func.value.id for c in walk_local(at) if isinstance(c, ast.Call) and isinstance(c.func, ast.Attribute) and c.func.attr == "append" and isinstance(c.func.value, ast.Name)
                     and any(isinstance(w, ast.While) and any(x is c for x in ast.walk(w)) for w in walk_local(at))}
        for lp in walk_local(at):
            def _rev(e_: ast.AST) -> bool:
                return isinstance(e_, ast.Call) and isinstance(e_.func, ast.Name) and e_.func.id == "reversed" and len(e_.args) == 1 and isinstance(e_.args[0], ast.Name) and e_.args[0].id in collected
            # (several lists filled in step, walked backwards in step: zip(reversed(a), reversed(b)))
            if isinstance(lp, ast.For) and (_rev(lp.iter) or (isinstance(lp.iter, ast.Call) and isinstance(lp.iter.func, ast.Name) and lp.iter.func.id == "zip" and lp.iter.args and all(_rev(a_) for a_ in lp.iter.args))):
                for st_ in ast.walk(lp):
                    if isinstance(st_, ast.Assign) and isinstance(st_.value, ast.Call) and isinstance(st_.value.func, ast.Name) and st_.value.func.id == "Array" and st_.value.args \
                            and isinstance(st_.value.args[0], ast.Name) and any(isinstance(t, ast.Name) and t.id == st_.value.args[0].id for t in st_.targets):
                        ok = True
    ctx.ob("R2.7", "parser:CxxParser._parse_array_type|later dimensions are wrapped first (recursion feeds the element type)", ok,
           msg="the array parser does not recurse into the following dimensions before wrapping its own: 'int a[2][3]' would come out as 3 arrays of 2", node=at, mod=mod)
    tr = pm.fn("_parse_trailing_return_type")
    ok = "AutoSpecifier" in norm(tr) or "_auto_return_typename" in norm(tr)
    ctx.ob("R2.7", "parser:CxxParser._parse_trailing_return_type|only replaces a plain `auto`", ok and "raise CxxParseError" in norm(tr), msg="a trailing return type is accepted for a declared return type other than plain auto", node=tr, mod=mod, nontrivial=False)

    # ---------------------------------------------------------------- R2.8
    # A '(' after the type either starts a parameter list or groups a declarator.  The test
    # that tells them apart looks at the token after the '(': it must admit every declarator
    # prefix operator this function itself turns into a node (sibling consistency inside one
    # function: '*' -> Pointer, '&' -> Reference, '&&' -> MoveReference).
    ctx.rule("R2.8", "the grouping-parenthesis test admits every declarator prefix operator the function handles", minimum=1)
    fname = "_parse_cv_ptr_or_fn"
    cfg = pm.cfg(fname)
    rd8 = reaching_defs(cfg)
    kw = set(ctx.repo.folder("lexer", "PlyLexer").get("keywords")) if ctx.repo.folder("lexer", "PlyLexer").has("keywords") else set()
    ops: Set[str] = set()
    for n in cfg.nodes:
        if not any(isinstance(c.func, ast.Name) and c.func.id in ("Pointer", "Reference", "MoveReference") for c in n.calls()):
            continue
        for d, lab in cfg.control_deps(n):
            for x in ast.walk(d.cond):
                if isinstance(x, ast.Name):
                    for di in rd8.get(d.id, {}).get(x.id, ()):
                        dn = cfg.nodes[di]
                        for c, r in pm.node_calls(fname, dn):
                            if r is not None and r[0] == "lex" and r[1] in ("token_if", "token_peek_if"):
                                ops |= {a.value for a in c.args if isinstance(a, ast.Constant) and isinstance(a.value, str) and a.value not in kw and a.value != "("}
    peeks = []
    for n in cfg.nodes:
        if n.kind == "test" and n.cond is not None and isinstance(n.cond, ast.UnaryOp) and isinstance(n.cond.op, ast.Not):
            for c in ast.walk(n.cond):
                if isinstance(c, ast.Call) and pm.resolve(fname, c) == ("lex", "token_peek_if"):
                    # its true branch puts the '(' back
                    if any(rr == ("lex", "return_token") for s_, lab in n.succ if lab == "T" for _, rr in pm.node_calls(fname, s_)):
                        peeks.append((n, {a.value for a in c.args if isinstance(a, ast.Constant)}))
    if not peeks or not ops:
        raise AnalysisError("anchor vanished: the grouping-parenthesis peek test of _parse_cv_ptr_or_fn")
    for n, admitted in peeks:
        missing = sorted(ops - admitted)
        ctx.ob("R2.8", f"parser:CxxParser.{fname}|grouping test admits {sorted(ops)}", not missing,
               msg=f"the test `{short(n.cond, 60)}` that recognises a grouping parenthesis does not admit {missing}, although the function builds a node for it: a grouped declarator starting with {missing} (e.g. 'int (&&x)[3]') is rejected or read as a parameter list",
               node=n.cond, mod=mod)

    # a '(' in a declarator is a parameter list only if it is not a grouping parenthesis: every parameter-list parse of
    # the loop is decided by a peek for the prefix operators (in the template-argument mode too, where 'int(*)(int)'
    # and 'int(&)[3]' are type-ids)
    for n in cfg.nodes:
        for c, r in pm.node_calls(fname, n):
            if r != ("self", "_parse_parameters"):
                continue
            admitted8: Set[str] = set()
            for d, lab in cfg.control_deps(n):
                if d.cond is None:
                    continue
                for x in ast.walk(d.cond):
                    if isinstance(x, ast.Call) and pm.resolve(fname, x) == ("lex", "token_peek_if"):
                        admitted8 |= {a.value for a in x.args if isinstance(a, ast.Constant)}
            missing = sorted(ops - admitted8)
            ctx.ob("R2.8", f"parser:CxxParser.{fname}|parameter list #{_nth(pm.fn(fname), c)} parsed only after the grouping test", not missing,
                   msg=f"`{short(c, 50)}` takes a '(' for a parameter list without first testing for a grouping parenthesis that starts with {missing}: "
                       "an abstract declarator such as 'int(*)(int)' or 'int(&)[3]' given as a template argument is not read as a type", node=c, mod=mod)

    # ---------------------------------------------------------------- R2.10
    ctx.rule("R2.10", "every position where a type-id is read (parameter, alias, template argument) reads the array suffix of an abstract declarator", minimum=3)
    from .c17 import type_id_array_suffix
    type_id_array_suffix(ctx, "R2.10", pm)

    # ---------------------------------------------------------------- R2.9
    # Parentheses after a parameter's type are dropped ("name can be surrounded by parens") by
    # re-queuing the group's inner tokens.  That is only the identity on the type when the group
    # holds a name/declarator; an empty or type-list group is a function declarator ('int ()',
    # 'int (char)') and dropping it silently changes the parameter's type.
    ctx.rule("R2.9", "parameter: parentheses after the type are dropped only under a test of what they enclose", minimum=1)
    fname = "_parse_parameter"
    cfg = pm.cfg(fname)
    strips = []
    for n in cfg.nodes:
        for c, r in pm.node_calls(fname, n):
            if r == ("lex", "return_tokens") and c.args and isinstance(c.args[0], ast.Subscript) and norm(c.args[0].slice) == "1:-1" and isinstance(c.args[0].value, ast.Name):
                strips.append((n, c, c.args[0].value.id))
    if not strips:
        raise AnalysisError("anchor vanished: the parenthesised-name handling of _parse_parameter")
    for n, c, var in strips:
        deps = cfg.control_deps(n)
        tested = any(var in {x.id for x in ast.walk(d.cond) if isinstance(x, ast.Name)} or any(isinstance(x, ast.Call) and (pm.resolve(fname, x) or ("", ""))[1].startswith("token_peek") for x in ast.walk(d.cond)) for d, lab in deps)
        ctx.ob("R2.9", f"parser:CxxParser.{fname}|`{short(c, 50)}`", tested,
               msg=f"`{short(c, 60)}` drops the parentheses that follow a parameter's type whatever they enclose: for 'void f(int ());' the parameter is reported as plain 'int' (a function declarator silently lost), and 'void f(int (char));' is a parse error",
               node=c, mod=mod)

    ctors = {c for c, _ in types.classes()}
    for fname in pm.methods:
        for loop, v, c, ok in loops.sticky_locals(pm, fname, ctors):
            if c.func.id in ("TemplateArgument", "FunctionType", "Parameter", "TemplateNonTypeParam"):
                ctx.ob("R2.6", f"parser:CxxParser.{fname}|`{v}` for {c.func.id}(...) re-initialised every iteration", ok,
                       msg=f"`{v}` given to {c.func.id}(...) can keep its value from the previous element: e.g. every template argument after a pack expansion is flagged as a pack", node=c, mod=mod)


def _nth(fn: ast.AST, call: ast.Call) -> int:
    i = 0
    for c in walk_local(fn):
        if isinstance(c, ast.Call) and norm(c.func) == norm(call.func):
            if c is call:
                return i
            i += 1
    return -1


def _block_of(pm: ParserModel, st: ast.AST) -> List[ast.stmt]:
    p = pm.mod.parent.get(st)
    for field in ("body", "orelse", "finalbody"):
        b = getattr(p, field, None)
        if isinstance(b, list) and st in b:
            return b
    return []
