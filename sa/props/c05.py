"""C05 -- returning False from a start callback prunes exactly that block."""
from __future__ import annotations

import ast
from typing import Dict, List, Optional, Set, Tuple

from ..cfg import CFG, Node, reaching_defs
from ..kinds import node_containing
from ..model import AnalysisError, attr_chain, is_self_attr, norm, short, stores_in, walk_local
from ..pmodel import ParserModel
from ..report import Ctx
from ..vmodel import STATE_CLASSES, VisitorModel

LEVEL = "ownership / ordering / typestate rules on the visitor plumbing"
EXPLANATION = (
    "R5.1 each start callback whose protocol doc promises skipping has its result compared with `is False`, and exactly that branch "
    "stores null_visitor; nothing else does. R5.2 _setup_state saves the active visitor on the state being pushed, before the start "
    "callback; _pop_state delivers the end callback to the still-active visitor (null for a skipped block), then restores the visitor "
    "saved on the popped state, on every completing path, before anything that follows the block can emit. R5.3 the active visitor is "
    "never cached: self.visitor is read only as the receiver of a direct on_* call, as _finish's argument or as the saved value; the "
    "constructor parameter flows only into self.visitor. R5.4 NullVisitor implements every protocol member with the same parameters and "
    "an inert body; null_visitor is its only instance and is never mutated."
)


def run(ctx: Ctx) -> None:
    pm = ParserModel(ctx.repo)
    vm = VisitorModel(ctx.repo)
    ctx.trusted = ["the doc-strings of CxxVisitor as the statement of which callbacks may prune", "resolved call graph of parser.py"]
    ctx.undecided = []
    visitor_rules(ctx, pm, vm, "R5")


def visitor_rules(ctx: Ctx, pm: ParserModel, vm: VisitorModel, P: str, only: Optional[Set[str]] = None) -> None:
    mod = pm.mod
    sites = pm.callback_sites()
    emit = pm.may_emit()

    def want(r: str) -> bool:
        return only is None or r in only

    # ------------------------------------------------------------------ .1
    if want("1"):
        ctx.rule(f"{P}.1", "start callbacks that may prune: result tested with `is False`, that branch (only) stores null_visitor", minimum=4)
        prunable = [n for n in vm.start_callbacks() if vm.callbacks[n].promises_skip]
        ctx.ob(f"{P}.1", "visitor:CxxVisitor|prunable start callbacks", sorted(prunable) == sorted(vm.start_callbacks()) and len(prunable) == 3,
               msg=f"start callbacks whose doc promises pruning: {prunable}", node=vm.vmod.cls("CxxVisitor"), mod=vm.vmod, nontrivial=False)
        null_stores: List[Tuple[str, ast.stmt]] = []
        for fname, fn in pm.methods.items():
            for t, st in stores_in(fn):
                if is_self_attr(t, "visitor") and isinstance(st, ast.Assign) and isinstance(st.value, ast.Name) and st.value.id == "null_visitor":
                    null_stores.append((fname, st))
        used: Set[int] = set()
        for cb in prunable:
            for fname, call, k in sites:
                if k != cb:
                    continue
                parent = mod.parent.get(call)
                ok = False
                why = "the result of the start callback is not compared with `is False` in an if"
                if isinstance(parent, ast.Compare) and parent.left is call and len(parent.ops) == 1 and isinstance(parent.ops[0], ast.Is) and isinstance(parent.comparators[0], ast.Constant) and parent.comparators[0].value is False:
                    iff = mod.parent.get(parent)
                    if isinstance(iff, ast.If) and iff.test is parent:
                        body = [s for s in iff.body if not isinstance(s, (ast.Pass, ast.Return, ast.Continue, ast.Break))]
                        if len(body) == 1 and any(body[0] is st for _, st in null_stores) and not iff.orelse:
                            ok = True
                            used.add(id(body[0]))
                        else:
                            why = "the `is False` branch is not exactly `self.visitor = null_visitor`"
                elif isinstance(parent, ast.Assign) and parent.value is call and len(parent.targets) == 1 and isinstance(parent.targets[0], ast.Name):
                    # `x = cb(state)` ... `if x is False: self.visitor = null_visitor`: every read of x is that test
                    x_ = parent.targets[0].id
                    loads = [y for y in walk_local(pm.fn(fname)) if isinstance(y, ast.Name) and y.id == x_ and isinstance(y.ctx, ast.Load)]
                    good = bool(loads)
                    for y in loads:
                        cmp_ = mod.parent.get(y)
                        iff = mod.parent.get(cmp_) if cmp_ is not None else None
                        if not (isinstance(cmp_, ast.Compare) and cmp_.left is y and len(cmp_.ops) == 1 and isinstance(cmp_.ops[0], ast.Is) and isinstance(cmp_.comparators[0], ast.Constant)
                                and cmp_.comparators[0].value is False and isinstance(iff, ast.If) and iff.test is cmp_ and not iff.orelse):
                            good = False
                            why = f"the stored result `{x_}` is used other than in an `is False` test"
                            break
                        body = [s_ for s_ in iff.body if not isinstance(s_, (ast.Pass, ast.Return, ast.Continue, ast.Break))]
                        if not (len(body) == 1 and any(body[0] is st for _, st in null_stores)):
                            good = False
                            why = "the `is False` branch is not exactly `self.visitor = null_visitor`"
                            break
                        used.add(id(body[0]))
                    # the test must follow the call on every path (it post-dominates the definition): nothing else re-binds x in between
                    if good:
                        cfg_ = pm.cfg(fname)
                        dn = node_containing(cfg_, call)
                        tests = [n_ for n_ in cfg_.nodes if n_.kind == "test" and n_.cond is not None and any(l_ is n_.cond.left for l_ in loads if isinstance(n_.cond, ast.Compare))]
                        if dn is None or not tests or cfg_.paths_avoiding(dn, cfg_.exit, lambda k_: k_ in tests):
                            good = False
                            why = "a path from the start callback to the end of the function does not pass the `is False` test"
                    ok = good
                elif isinstance(parent, (ast.Compare, ast.UnaryOp, ast.If, ast.BoolOp)):
                    why = "the result is tested for falsiness/equality rather than identity with False: returning None would prune as well"
                ctx.ob(f"{P}.1", f"parser:CxxParser.{fname}|{cb} result", ok, msg=why, node=call, mod=mod)
        for fname, st in null_stores:
            ctx.ob(f"{P}.1", f"parser:CxxParser.{fname}|null_visitor store is a prune", id(st) in used,
                   msg="null_visitor is installed somewhere other than the `is False` branch of a start callback", node=st, mod=mod, nontrivial=False)

    # ------------------------------------------------------------------ .2
    if want("2"):
        ctx.rule(f"{P}.2", "visitor save on push, end callback to the active visitor, restore from the popped state, before anything after the block emits", minimum=6)
        su = pm.fn("_setup_state")
        sp = su.args.args[1].arg
        cfg = pm.cfg("_setup_state")
        saves = [n for n in cfg.nodes if n.kind == "stmt" and isinstance(n.stmt, ast.Assign) and any(attr_chain(t) == (sp, "_prior_visitor") for t in n.stmt.targets)]
        ok = len(saves) == 1 and is_self_attr(saves[0].stmt.value, "visitor") and not cfg.paths_avoiding(cfg.entry, cfg.exit, lambda x: x is saves[0])
        ctx.ob(f"{P}.2", "parser:CxxParser._setup_state|saves the active visitor on the pushed state", ok,
               msg="_setup_state does not (unconditionally) store self.visitor into <state>._prior_visitor: the visitor active outside a skipped block cannot be restored per block",
               node=su, mod=mod)
        # who else touches _prior_visitor
        for m in ctx.repo.modules.values():
            for qual, fn in m.functions():
                for x in walk_local(fn):
                    if isinstance(x, ast.Attribute) and x.attr == "_prior_visitor":
                        w = isinstance(x.ctx, ast.Store)
                        allowed = (m is mod and qual == "CxxParser._setup_state" and w) or (m is mod and qual == "CxxParser._pop_state" and not w)
                        ctx.ob(f"{P}.2", f"{m.name}:{qual}|{'writes' if w else 'reads'} _prior_visitor", allowed,
                               msg=f"{qual} {'writes' if w else 'reads'} _prior_visitor outside the push/pop pair", node=x, mod=m, nontrivial=False)
        for x in ast.walk(pm.cls):
            if isinstance(x, ast.Attribute) and x.attr == "_prior_visitor" and is_self_attr(x):
                ctx.ob(f"{P}.2", "parser:CxxParser|per-parser _prior_visitor", False, msg="the saved visitor is kept on the parser, not on the block state: nested blocks overwrite one another's saved visitor", node=x, mod=mod)
        # push happens before the start callback: R4.2 checks dominance of _setup_state; here: save precedes any null store
        # _pop_state ordering
        pcfg = pm.cfg("_pop_state")
        prd = reaching_defs(pcfg)
        fin = [(n, c) for n in pcfg.nodes for c, r in pm.node_calls("_pop_state", n) if r and r[0] == "finish"]
        rest = [n for n in pcfg.nodes if n.kind == "stmt" and isinstance(n.stmt, ast.Assign) and any(is_self_attr(t, "visitor") for t in n.stmt.targets)]
        why = []
        ok = len(fin) == 1 and len(rest) == 1
        if not ok:
            why.append(f"_pop_state has {len(fin)} _finish call(s) and {len(rest)} visitor store(s); expected one of each")
        else:
            fn_, fc = fin[0]
            rn = rest[0]
            if not (len(fc.args) == 1 and is_self_attr(fc.args[0], "visitor")):
                ok = False
                why.append("the end callback is not delivered to the active visitor (self.visitor)")
            if not pcfg.dominates(fn_, rn):
                ok = False
                why.append("the visitor is restored before the end callback: a skipped block's end callback reaches the real visitor")
            v = rn.stmt.value
            recv = fc.func.value  # type: ignore[attr-defined]
            good_val = isinstance(v, ast.Attribute) and v.attr == "_prior_visitor" and isinstance(v.value, ast.Name) and isinstance(recv, ast.Name) and v.value.id == recv.id
            if good_val:
                ds = [pcfg.nodes[i] for i in prd[rn.id].get(v.value.id, ())]
                good_val = bool(ds) and all(is_self_attr(getattr(d.stmt, "value", None), "state") for d in ds)
            if not good_val:
                ok = False
                why.append("the restored visitor is not the one saved on the state being popped")
            if pcfg.paths_avoiding(fn_, pcfg.exit, lambda x: x is rn):
                ok = False
                why.append("a completing path of _pop_state leaves the visitor un-restored")
        ctx.ob(f"{P}.2", "parser:CxxParser._pop_state|end callback then restore", ok, msg="; ".join(why), node=pm.fn("_pop_state"), mod=mod)
        # after the pop nothing may emit before the restore: the restore is inside _pop_state, so callers are safe iff
        # they call _pop_state before any emitting call
        for caller in sorted(pm.callers("_pop_state")):
            cfg = pm.cfg(caller)
            pops = [n for n in cfg.nodes for c, r in pm.node_calls(caller, n) if r == ("self", "_pop_state")]
            emits = [n for n in cfg.nodes for c, r in pm.node_calls(caller, n) if r and ((r[0] == "self" and r[1] in emit and r[1] != "_pop_state") or r[0] == "visitor")]
            bad = [e for e in emits if not any(cfg.dominates(p, e) for p in pops)]
            ctx.ob(f"{P}.2", f"parser:CxxParser.{caller}|pop (and restore) before anything else emits", not bad,
                   msg=f"`{short(bad[0].stmt) if bad else ''}` can emit before the block is popped and the visitor restored", node=pm.fn(caller), mod=mod)
        # any store to self.visitor outside _pop_state/__init__/prune sites
        for fname, fn in pm.methods.items():
            for t, st in stores_in(fn):
                if is_self_attr(t, "visitor"):
                    isnull = isinstance(st, ast.Assign) and isinstance(st.value, ast.Name) and st.value.id == "null_visitor"
                    allowed = fname in ("__init__", "_pop_state") or isnull
                    ctx.ob(f"{P}.2", f"parser:CxxParser.{fname}|writes self.visitor", allowed,
                           msg=f"{fname} replaces the active visitor outside the push/prune/pop discipline: `{short(st)}`", node=st, mod=mod, nontrivial=False)

    # ------------------------------------------------------------------ .3
    if want("3"):
        ctx.rule(f"{P}.3", "the active visitor is never cached: self.visitor is read only as call receiver, _finish argument or saved value; the constructor parameter only initialises it", minimum=25)
        for fname, fn in pm.methods.items():
            for x in walk_local(fn):
                if is_self_attr(x, "visitor") and isinstance(x.ctx, ast.Load):
                    par = mod.parent.get(x)
                    gp = mod.parent.get(par) if par is not None else None
                    ok = False
                    if isinstance(par, ast.Attribute) and par.value is x and isinstance(gp, ast.Call) and gp.func is par:
                        ok = True  # self.visitor.on_x(...)
                    elif isinstance(par, ast.Call) and x in par.args and isinstance(par.func, ast.Attribute) and par.func.attr == "_finish":
                        ok = True
                    elif isinstance(par, ast.Assign) and par.value is x and all((attr_chain(t) or ("",))[-1] == "_prior_visitor" for t in par.targets):
                        ok = True
                    ctx.ob(f"{P}.3", f"parser:CxxParser.{fname}|read of self.visitor in `{short(par if par is not None else x, 50)}`", ok,
                           msg="self.visitor (or one of its bound methods) is captured instead of being called directly: a later swap to the null visitor (or back) is bypassed",
                           node=x, mod=mod, nontrivial=False)
        init = pm.fn("__init__")
        vparams = [a.arg for a in init.args.args[1:] if a.annotation is not None and "CxxVisitor" in norm(a.annotation)]
        ctx.ob(f"{P}.3", "parser:CxxParser.__init__|visitor parameter", len(vparams) == 1, msg="cannot identify the visitor parameter of CxxParser.__init__", node=init, mod=mod, nontrivial=False)
        for vp in vparams:
            for x in walk_local(init):
                if isinstance(x, ast.Name) and x.id == vp and isinstance(x.ctx, ast.Load):
                    par = mod.parent.get(x)
                    ok = isinstance(par, ast.Assign) and par.value is x and all(is_self_attr(t, "visitor") for t in par.targets)
                    ctx.ob(f"{P}.3", f"parser:CxxParser.__init__|use of parameter {vp} in `{short(par, 50)}`", ok,
                           msg="the visitor passed to the constructor is used other than to initialise self.visitor (e.g. one of its methods is bound once): pruning cannot intercept it",
                           node=x, mod=mod, nontrivial=False)
        # no other attribute of the parser holds a visitor-typed value: attributes assigned from self.visitor / visitor.<m>
        # (covered by the two loops above: such an assignment needs a read)

    # ------------------------------------------------------------------ .4
    if want("4"):
        ctx.rule(f"{P}.4", "NullVisitor: every protocol member, same parameters, inert body; null_visitor is its only instance, never mutated", minimum=25)
        nv = vm.vmod.cls("NullVisitor")
        nmeth = vm.vmod.methods("NullVisitor")
        for name, cb in sorted(vm.callbacks.items()):
            f = nmeth.get(name)
            if f is None:
                ctx.ob(f"{P}.4", f"visitor:NullVisitor.{name}", False, msg=f"NullVisitor lacks {name}: a pruned block containing such an item raises AttributeError instead of being skipped", node=nv, mod=vm.vmod, nontrivial=False)
                continue
            params = [a.arg for a in f.args.args[1:]]
            inert = all(
                isinstance(s, ast.Pass)
                or (isinstance(s, ast.Return) and (s.value is None or (isinstance(s.value, ast.Constant) and s.value.value is None)))
                or (isinstance(s, ast.Expr) and isinstance(s.value, ast.Constant))
                for s in f.body
            )
            ctx.ob(f"{P}.4", f"visitor:NullVisitor.{name}", len(params) == len(cb.params) and inert and not f.args.vararg and not f.args.kwonlyargs,
                   msg=f"NullVisitor.{name} has parameters {params} (protocol: {cb.params}) or a body that does something", node=f, mod=vm.vmod, nontrivial=False)
        extra = [n for n in nmeth if n not in vm.callbacks and not n.startswith("__")]
        ctx.ob(f"{P}.4", "visitor:NullVisitor|no extra members", not extra, msg=f"NullVisitor defines {extra}", node=nv, mod=vm.vmod, nontrivial=False)
        insts = []
        for m in ctx.repo.modules.values():
            for x in ast.walk(m.tree):
                if isinstance(x, ast.Call) and isinstance(x.func, ast.Name) and x.func.id == "NullVisitor":
                    insts.append((m, x))
                if isinstance(x, (ast.Assign, ast.AugAssign)):
                    tg = x.targets if isinstance(x, ast.Assign) else [x.target]
                    for t in tg:
                        ch = attr_chain(t)
                        if ch and len(ch) >= 2 and ch[0] == "null_visitor":
                            ctx.ob(f"{P}.4", f"{m.name}|null_visitor mutated", False, msg=f"`{short(x)}` mutates the shared null visitor", node=x, mod=m)
        ok = len(insts) == 1 and insts[0][0] is vm.vmod and isinstance(vm.vmod.parent.get(insts[0][1]), ast.Assign) and vm.vmod.parent.get(vm.vmod.parent.get(insts[0][1])) is vm.vmod.tree
        ctx.ob(f"{P}.4", "visitor|null_visitor is the only NullVisitor instance, created at module level", ok, msg=f"NullVisitor is instantiated {len(insts)} time(s)", node=nv, mod=vm.vmod, nontrivial=False)
