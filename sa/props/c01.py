"""C01 -- namespace-scope declarations are extracted faithfully (decided: the
route from token to callback to the right list, scope correctness, conformance
of every emitted object to the published dataclass field tables)."""
from __future__ import annotations

import ast
from typing import Dict, FrozenSet, List, Optional, Set, Tuple

from ..cfg import CFG, Node, reaching_defs
from ..kinds import KindAnalysis, node_containing
from ..lexmodel import LexModel
from ..model import AnalysisError, Unfoldable, annotation_names, attr_chain, is_self_attr, norm, short, walk_local
from ..pmodel import LEX_ALL, ParserModel
from ..report import Ctx
from ..vmodel import VisitorModel
from .. import fold, loops
from .c03 import dataclass_fields
from .c04 import _kind_obligations

LEVEL = "table-agreement (VOCAB), emission typing, scope-kind and constructor-conformance rules"
EXPLANATION = (
    "R1.1 the dispatch table: every key is a token type the stream can deliver, every value is a handler of arity (tok, doxygen); every "
    "declaration-parsing method is reachable from parse(). R1.2 the simple visitor stores each payload once in the typed list of its "
    "state's scope. R1.3 at each callback site the payload argument is a fresh instance of the class the protocol annotates. R1.4 the "
    "state argument is of the kind the callback declares (scope correctness). R1.5 every keyword passed to a dataclass constructor is a "
    "field of it; the key sets spread with **props (folded from _type_kwd_both/_meth and the literal keys) are fields of the class being "
    "built. R1.6 the parameter index recorded for an abbreviated template parameter is its position in the parameter list being built. "
    "R1.7 per-iteration flags are re-initialised every iteration; the namespace walk of the simple visitor starts at the enclosing "
    "scope and descends every iteration. R1.8 every string the parser compares with or requests as a token type is a type the lexer "
    "can deliver. Not decided: that names, types, specifiers, defaults and flags equal the source (runtime values of the recursive descent)."
)

ILLFORMED_OK = {("Field", "extern"), ("Variable", "mutable")}  # ill-formed C++: ends in a wrapped TypeError, i.e. a CxxParseError


def run(ctx: Ctx) -> None:
    pm = ParserModel(ctx.repo)
    vm = VisitorModel(ctx.repo)
    lm = LexModel(ctx.repo)
    mod = pm.mod
    types = ctx.repo.mod("types")
    F = ctx.repo.folder("parser", "CxxParser")
    stream = lm.stream_types() | {"PLACEHOLDER"}
    ctx.trusted = ["dataclass annotations in types.py / simple.py and the protocol annotations in visitor.py as oracles", "lexer model for the token vocabulary"]
    ctx.undecided = ["value-level faithfulness: names, types, specifiers, defaults and flags equal the source (no static oracle short of re-implementing the parser)",
                     "one entry per declarator in source order (token-driven control flow)"]

    # ---------------------------------------------------------------- R1.1
    ctx.rule("R1.1", "dispatch table keys are deliverable token types; values are (tok, doxygen) handlers; every parsing method is reachable from parse()", minimum=25)
    for k, h in sorted(pm.dispatch.items()):
        ok = k in stream
        if h != "<lambda>":
            hf = pm.fn(h)
            names = [a.arg for a in hf.args.args[1:]]
            nreq = len(names) - len(hf.args.defaults)
            ok = ok and nreq <= 2 <= len(names)
        ctx.ob("R1.1", f"parser:CxxParser.parse|dispatch[{k!r}] -> {h}", ok, msg=f"dispatch key {k!r} is not a token type the lexer delivers, or {h} cannot be called as handler(tok, doxygen)", node=pm.dispatch_node, mod=mod, nontrivial=False)
    reach = pm.reachable_from("parse") | pm.reachable_from("__init__")
    for name in sorted(pm.methods):
        if name.startswith(("_parse_", "_consume_", "_process_", "_discard_", "_finish_", "_on_")):
            ctx.ob("R1.1", f"parser:CxxParser.{name}|reachable from parse()", name in reach,
                   msg=f"{name} is no longer reachable from the dispatch table or from another handler: the declaration form it parses is silently dropped or misparsed", node=pm.fn(name), mod=mod, nontrivial=False)

    # ---------------------------------------------------------------- R1.2
    fold.check_fold(ctx, "R1.2", vm)

    # ---------------------------------------------------------------- R1.3
    ctx.rule("R1.3", "callback payloads are fresh instances of the annotated class", minimum=18)
    for fname, call, cb in pm.callback_sites():
        c = vm.callbacks.get(cb)
        if c is None or len(c.params) < 2 or len(call.args) < 2:
            continue
        want = set(c.payload_types)
        arg = call.args[1]
        cfg = pm.cfg(fname)
        n = node_containing(cfg, call)
        got = _constructed_classes(pm, fname, cfg, n, arg)
        if want <= {"str", "List", "Value"} and got is None:
            # on_include(str) / on_using_namespace(List[str]) / on_pragma(Value via _create_value)
            src_ok = _simple_payload_ok(pm, fname, arg, want)
            ctx.ob("R1.3", f"parser:CxxParser.{fname}|{cb} payload", src_ok, msg=f"payload `{short(arg)}` is not a {sorted(want)}", node=call, mod=mod, nontrivial=False)
            continue
        sub_ok = got is not None and all(g in want or _is_subclass(types, g, want) for g in got)
        ctx.ob("R1.3", f"parser:CxxParser.{fname}|{cb} payload", sub_ok,
               msg=f"{cb} declares a {sorted(want)} payload but `{short(arg)}` may be {sorted(got) if got is not None else 'something not constructed here'}", node=call, mod=mod)

    # ---------------------------------------------------------------- R1.4
    ctx.rule("R1.4", "scope correctness: state arguments are of the kind the callee declares", minimum=30)
    killers = pm.closure({"_setup_state", "_pop_state"})
    ka = KindAnalysis(pm, vm.dom, paths=[("self", "state")], killers=killers)
    _kind_obligations(ctx, "R1.4", pm, vm, ka)

    # ---------------------------------------------------------------- R1.5
    ctx.rule("R1.5", "constructor conformance: explicit keywords and **props key sets are fields of the dataclass built", minimum=40)
    dcs = {c for c, node in types.classes() if any(norm(d).startswith("dataclass") for d in node.decorator_list)}
    both = set(F.get("_type_kwd_both"))
    meth = set(F.get("_type_kwd_meth"))
    # literal keys stored into the modifier dicts in _parse_type
    lit_keys: Dict[str, Set[str]] = {"both": set(), "vars": set(), "meths": set()}
    pt = pm.fn("_parse_type")
    for st in walk_local(pt):
        if isinstance(st, ast.Assign) and isinstance(st.targets[0], ast.Subscript) and isinstance(st.targets[0].value, ast.Name) and st.targets[0].value.id in lit_keys:
            k = st.targets[0].slice
            if isinstance(k, ast.Constant):
                lit_keys[st.targets[0].value.id].add(k.value)
            elif isinstance(k, ast.Name):
                # tok_type under `tok_type in self._type_kwd_both/_meth`
                cfg = pm.cfg("_parse_type")
                n = node_containing(cfg, st)
                src = None
                excluded: Set[str] = set()
                for d, lab in cfg.control_deps(n):
                    if not isinstance(d.cond, ast.Compare) or len(d.cond.ops) != 1:
                        continue
                    comp = d.cond.comparators[0]
                    if isinstance(d.cond.ops[0], ast.In) and lab == "T":
                        ch = attr_chain(comp)
                        if ch and ch[0] == "self":
                            src = ch[1]
                    elif lab == "F":
                        # an earlier branch of the same elif chain took these token types
                        if isinstance(d.cond.ops[0], ast.Eq) and isinstance(comp, ast.Constant):
                            excluded.add(comp.value)
                        elif isinstance(d.cond.ops[0], ast.In):
                            ch = attr_chain(comp)
                            try:
                                if ch and ch[0] == "self":
                                    excluded |= set(F.get(ch[1]))
                                elif ch and len(ch) == 1:
                                    excluded |= set(F.get(ch[0].lstrip("_") if False else ch[0]))
                            except AnalysisError:
                                pass
                if src is None:
                    raise AnalysisError("cannot fold the key set of a modifier dict in _parse_type")
                lit_keys[st.targets[0].value.id] |= set(F.get(src)) - excluded
            else:
                raise AnalysisError("modifier dict key shape not modelled")
    keyset = {"both": lit_keys["both"], "vars": lit_keys["vars"], "meths": lit_keys["meths"]}
    ctx.ob("R1.5", "parser:CxxParser._parse_type|modifier key sets", keyset["both"] <= both | {"inline"} and keyset["meths"] == meth and keyset["vars"] == {"mutable"},
           msg=f"modifier keys collected by _parse_type are {keyset}", node=pt, mod=mod, detail={k: sorted(v) for k, v in keyset.items()})
    for fname, fn in pm.methods.items():
        # props variables: dict.fromkeys(mods.X.keys(), True) (+ .update(...), + props["k"] = ...)
        pkeys: Dict[str, Set[str]] = {}
        spread_names = {k.value.id for c in walk_local(fn) if isinstance(c, ast.Call) and isinstance(c.func, ast.Name) and c.func.id in dcs for k in c.keywords if k.arg is None and isinstance(k.value, ast.Name)}
        for st in walk_local(fn):
            # props = <dict built from the modifier dicts>
            if isinstance(st, (ast.Assign, ast.AnnAssign)) and getattr(st, "value", None) is not None:
                tgts = st.targets if isinstance(st, ast.Assign) else [st.target]
                if len(tgts) == 1 and isinstance(tgts[0], ast.Name) and tgts[0].id in spread_names:
                    pkeys.setdefault(tgts[0].id, set()).update(_mods_keys(st.value, keyset))
        for st in walk_local(fn):
            if isinstance(st, ast.Expr) and isinstance(st.value, ast.Call) and isinstance(st.value.func, ast.Attribute) and st.value.func.attr == "update" and isinstance(st.value.func.value, ast.Name) and st.value.func.value.id in pkeys:
                pkeys[st.value.func.value.id] |= _mods_keys(st.value.args[0], keyset)
            if isinstance(st, ast.Assign) and isinstance(st.targets[0], ast.Subscript) and isinstance(st.targets[0].value, ast.Name) and st.targets[0].value.id in pkeys:
                k = st.targets[0].slice
                if isinstance(k, ast.Constant):
                    pkeys[st.targets[0].value.id].add(k.value)
                elif isinstance(k, ast.Name):
                    # for kwd in <iterable over a modifier dict>: props[kwd] = True
                    loop = mod.parent.get(st)
                    while loop is not None and not (isinstance(loop, ast.For) and isinstance(loop.target, ast.Name) and loop.target.id == k.id):
                        loop = mod.parent.get(loop)
                    if loop is None:
                        raise AnalysisError(f"cannot fold the key `{k.id}` stored into {st.targets[0].value.id}")
                    pkeys[st.targets[0].value.id] |= _mods_keys(loop.iter, keyset)
                else:
                    raise AnalysisError("key stored into a ** spread dict is not foldable")
        for c in walk_local(fn):
            if isinstance(c, ast.Call) and isinstance(c.func, ast.Name) and c.func.id in dcs:
                fields = list(dataclass_fields(types, c.func.id))
                bad = [k.arg for k in c.keywords if k.arg is not None and k.arg not in fields]
                too_many = len(c.args) > len(fields)
                spread_bad = []
                for k in c.keywords:
                    if k.arg is None:
                        if isinstance(k.value, ast.Name) and k.value.id in pkeys:
                            # which keys can be present depends on the branch (method keys only for Method)
                            keys = set(pkeys[k.value.id])
                            if c.func.id not in ("Method",):
                                keys -= keyset["meths"] - set(fields)
                            spread_bad = sorted(x for x in keys if x not in fields and (c.func.id, x) not in ILLFORMED_OK)
                        else:
                            raise AnalysisError(f"cannot fold the ** spread `{norm(k.value)}` given to {c.func.id}(...)")
                ctx.ob("R1.5", f"parser:CxxParser.{fname}|{c.func.id}(...) #{_nth(fn, c)}", not bad and not too_many and not spread_bad,
                       msg=f"{c.func.id} is constructed with keywords {bad or spread_bad} that are not fields of the dataclass (or with too many positional arguments): the constructor raises TypeError for a well-formed declaration, or a specifier is silently unrepresentable",
                       node=c, mod=mod, nontrivial=bool(spread_bad) or any(k.arg is None for k in c.keywords))

    # ---------------------------------------------------------------- R1.6
    ctx.rule("R1.6", "param_idx of a promoted abbreviated parameter is its position in the list being built", minimum=1)
    pp = pm.fn("_parse_parameters")
    cfg = pm.cfg("_parse_parameters")
    for c in walk_local(pp):
        if isinstance(c, ast.Call) and isinstance(c.func, ast.Name) and c.func.id == "TemplateNonTypeParam":
            kv = next((k.value for k in c.keywords if k.arg == "param_idx"), None)
            n = node_containing(cfg, c)
            apps = [m for m in cfg.nodes if m.kind == "stmt" and isinstance(m.stmt, ast.Expr) and isinstance(m.stmt.value, ast.Call) and norm(m.stmt.value.func) == "params.append"]
            ok = False
            why = "param_idx is not derived from the length of the parameter list"
            if kv is not None and isinstance(kv, ast.Name) and n is not None:
                # a local holding the index: what matters is where its value was computed
                rd16 = reaching_defs(cfg)
                ds = list(rd16.get(n.id, {}).get(kv.id, ()))
                if len(ds) == 1 and isinstance(cfg.nodes[ds[0]].stmt, ast.Assign) and len(cfg.nodes[ds[0]].stmt.targets) == 1:
                    n = cfg.nodes[ds[0]]
                    kv = n.stmt.value
            if kv is not None and len(apps) == 1 and n is not None:
                before = cfg.dominates(apps[0], n) and not cfg.paths_avoiding(_loop_head(cfg, n), n, lambda x: x is apps[0]) if _loop_head(cfg, n) else cfg.dominates(apps[0], n)
                expr = norm(kv)
                if before:
                    ok = expr == "len(params) - 1"
                    why = f"the parameter has already been appended, so its index is len(params) - 1, not `{expr}`"
                else:
                    ok = expr == "len(params)"
                    why = f"the parameter has not been appended yet, so its index is len(params), not `{expr}`"
            ctx.ob("R1.6", "parser:CxxParser._parse_parameters|TemplateNonTypeParam(param_idx=)", ok, msg=why + ": the synthesized template parameter points at the wrong function parameter", node=c, mod=mod)

    # promoted parameters belong to the declaration's own template header: with several headers
    # (`template <..> template <..> void A<T>::f(auto)`) that is the LAST one of the list - the two promotion
    # sites (abbreviated parameter, abbreviated return type) must agree on it
    sites16 = []
    for fname16, fn16 in pm.methods.items():
        single_defs: Dict[str, List[ast.AST]] = {}
        for st16 in walk_local(fn16):
            if isinstance(st16, ast.Assign) and len(st16.targets) == 1 and isinstance(st16.targets[0], ast.Name):
                single_defs.setdefault(st16.targets[0].id, []).append(st16.value)
        for c in walk_local(fn16):
            if isinstance(c, ast.Call) and isinstance(c.func, ast.Attribute) and c.func.attr in ("append", "extend") and isinstance(c.func.value, ast.Attribute) and c.func.value.attr == "params":
                # the header that receives the parameter: `<list>[i]` directly, or a local bound to one (through a conditional expression)
                leaves: List[ast.AST] = []
                todo = [c.func.value.value]
                hops = 0
                while todo and hops < 8:
                    hops += 1
                    e16 = todo.pop()
                    if isinstance(e16, ast.IfExp):
                        todo += [e16.body, e16.orelse]
                    elif isinstance(e16, ast.Name) and len(single_defs.get(e16.id, [])) == 1 and isinstance(single_defs[e16.id][0], (ast.IfExp, ast.Subscript)):
                        todo.append(single_defs[e16.id][0])
                    else:
                        leaves.append(e16)
                for lf in leaves:
                    if isinstance(lf, ast.Subscript) and isinstance(lf.value, ast.Name):
                        sl = lf.slice
                        idx = -sl.operand.value if isinstance(sl, ast.UnaryOp) and isinstance(sl.op, ast.USub) and isinstance(sl.operand, ast.Constant) else sl.value if isinstance(sl, ast.Constant) else None
                        sites16.append((fname16, c, idx))
    for fname16, c, idx in sites16:
        ctx.ob("R1.6", f"parser:CxxParser.{fname16}|`{short(c, 50)}` adds to the last template header", idx == -1,
               msg=f"`{short(c, 60)}` adds a promoted (abbreviated) template parameter to header [{idx}] of a list of template headers; the declaration's own header is the last one: with 'template <typename T> template <typename U> void A<T>::f(auto x)' the invented parameter is reported on the class's header",
               node=c, mod=mod)
    if len(sites16) < 2:
        raise AnalysisError("anchor vanished: promotion of abbreviated template parameters into a list of template headers")

    # ---------------------------------------------------------------- R1.7
    ctx.rule("R1.7", "per-iteration flags re-initialised; namespace walk starts at the enclosing scope and descends every iteration", minimum=10)
    ctors = {c for c, _ in types.classes()}
    for fname in pm.methods:
        for loop, v, c, ok in loops.sticky_locals(pm, fname, ctors):
            ctx.ob("R1.7", f"parser:CxxParser.{fname}|`{v}` for {c.func.id}(...) re-initialised every iteration", ok,
                   msg=f"`{v}` given to {c.func.id}(...) can keep its value from the previous iteration", node=c, mod=mod)
    from .c12 import run as _c12  # noqa: F401  (namespace-walk obligations are evaluated by the shared helper below)
    _namespace_walk(ctx, "R1.7")

    # ---------------------------------------------------------------- R1.10
    # "#include ... with the same names": the include operand is cut out of the directive text by the handler; that the
    # handler undoes exactly the layout the lexer rule admits is C09's R9.4, evaluated here under this property's id (the
    # finding already listed for C09 - a trailing comment taken into the name - stays keyed under C09 only)
    from . import c09
    from ..report import run_shared
    run_shared(ctx, c09.run, {"R9.4": ("R1.10", "the #include operand is what is written after the directive name, whatever blanks the lexer rule admits"),
                              "R9.8": ("R1.14", "look-ahead accessors compare token types with types and texts with texts (an identifier spelled like a token type stays a name)")},
               {"R9.4|lexer:PlyLexer.t_INCLUDE_DIRECTIVE|trailing comment"})

    # ---------------------------------------------------------------- R1.11
    # "with the same names": a word that is an identifier in C++ stays a NAME.  Every member of the lexer's keyword set gets
    # a token type of its own, and a keyword the parser never asks for cannot be declared, passed or aliased any more
    # (`int module;`).  C02's keyword partition R2.5, evaluated here under this property's id.
    from . import c02 as _c02
    run_shared(ctx, _c02.run, {"R2.5": ("R1.11", "every keyword of the lexer is one the parser knows (or a reasoned expression / unsupported-specifier keyword): an identifier is not turned into a token no declaration form accepts")})

    # ---------------------------------------------------------------- R1.13
    check_specifier_arms(ctx, "R1.13", pm)

    # ---------------------------------------------------------------- R1.12
    # "with the same ... types": a template argument that is a type-id is reported as a type, not as raw tokens.  Which
    # arguments get the trial parse as a type is C02's R2.2 (the guard evaluated for every first token of a type-id, the
    # whole-argument condition), evaluated here under this property's id.
    run_shared(ctx, _c02.run, {"R2.2": ("R1.12", "template arguments that are type-ids are tried as types (trial-parse guard per first token, whole-argument condition)")})

    # ---------------------------------------------------------------- R1.9
    ctx.rule("R1.9", "parsed information is not dropped: no value-bearing local dies unread, every parameter of a parsing method is used", minimum=150)
    from ..cfg import node_defs
    handlers = set(pm.handlers())
    for fname, fn in pm.methods.items():
        cfg = pm.cfg(fname)
        closure_used = set()
        for x in ast.walk(fn):
            if x is not fn and isinstance(x, (ast.Lambda, ast.FunctionDef, ast.GeneratorExp, ast.ListComp, ast.SetComp, ast.DictComp)):
                closure_used |= {y.id for y in ast.walk(x) if isinstance(y, ast.Name) and isinstance(y.ctx, ast.Load)}

        def uses(n):
            u = set(closure_used)
            for x in n.walk():
                if isinstance(x, ast.Name) and isinstance(x.ctx, ast.Load):
                    u.add(x.id)
            if n.kind == "stmt" and isinstance(n.stmt, ast.AugAssign) and isinstance(n.stmt.target, ast.Name):
                u.add(n.stmt.target.id)
            return u

        live_in = {n.id: set() for n in cfg.nodes}
        live_out = {n.id: set() for n in cfg.nodes}
        changed = True
        while changed:
            changed = False
            for n in reversed(cfg.nodes):
                out = set()
                for s_, _ in n.succ:
                    out |= live_in[s_.id]
                inn = uses(n) | (out - node_defs(n))
                if out != live_out[n.id] or inn != live_in[n.id]:
                    live_out[n.id], live_in[n.id] = out, inn
                    changed = True
        first_def = {}
        for n in cfg.nodes:
            for v in node_defs(n):
                if v not in first_def or (n.lineno and n.lineno < first_def[v].lineno):
                    first_def[v] = n
        for n in cfg.nodes:
            st = n.stmt
            if n.kind != "stmt" or not isinstance(st, (ast.Assign, ast.AnnAssign)) or getattr(st, "value", None) is None:
                continue
            for v in node_defs(n):
                if v.startswith("_") or v in live_out[n.id]:
                    ctx.ob("R1.9", f"parser:CxxParser.{fname}|{v} @ `{short(st, 40)}`", True, node=st, mod=mod, nontrivial=False) if v in live_out[n.id] else None
                    continue
                val = st.value
                effectful = any(isinstance(x, ast.Call) for x in ast.walk(val))
                default_init = first_def.get(v) is n and (
                    (isinstance(val, ast.Constant) and val.value in (None, "", 0, False)) or (isinstance(val, (ast.List, ast.Dict, ast.Set, ast.Tuple)) and not getattr(val, "elts", getattr(val, "keys", []))))
                dies = cfg.paths_avoiding(n, cfg.exit, lambda x, v=v: v in node_defs(x)) or any(s_ is cfg.exit for s_, _ in n.succ)
                # a plain copy of another local (`in_class = is_class_block`) holds nothing its source does not
                alias = isinstance(val, ast.Name)
                ok = effectful or default_init or alias or not dies
                ctx.ob("R1.9", f"parser:CxxParser.{fname}|{v} @ `{short(st, 40)}`", ok,
                       msg=f"`{short(st)}` computes `{v}` but no path reads it afterwards: something the parser recognised (a flag, a name, a qualifier) is dropped instead of being reported", node=st, mod=mod)
        sig_handler = fname in handlers or fname.startswith(("_consume_", "_on_", "_process_"))
        used = {x.id for x in ast.walk(fn) if isinstance(x, ast.Name) and isinstance(x.ctx, ast.Load)}
        for a in fn.args.args[1:] + fn.args.kwonlyargs:
            if sig_handler and a.arg in ("tok", "doxygen", "_", "ptok"):
                continue
            ctx.ob("R1.9", f"parser:CxxParser.{fname}|parameter {a.arg}", a.arg in used,
                   msg=f"parameter `{a.arg}` of {fname} is never read: what the caller determined (e.g. a flag such as inline / is_typedef / template) is not reported", node=fn, mod=mod, nontrivial=False)

    # ---------------------------------------------------------------- R1.10
    ctx.rule("R1.10", "every field of every dataclass the parser emits is written somewhere (constructor argument, **props key, attribute store)", minimum=100)
    written: Dict[str, Set[str]] = {c: set() for c in dcs}
    constructed: Set[str] = set()
    attr_stores: Set[str] = set()
    # generic constructors: cls(...) where cls is a TypeVar over dataclasses
    typevars: Dict[str, List[str]] = {}
    for st in mod.tree.body:
        if isinstance(st, ast.Assign) and isinstance(st.value, ast.Call) and norm(st.value.func).endswith("TypeVar"):
            typevars[st.targets[0].id] = [norm(a) for a in st.value.args[1:] if norm(a) in dcs]
    spread_all = keyset["both"] | keyset["meths"] | keyset["vars"] | {"msvc_convention"}
    for fname, fn in pm.methods.items():
        generic: Dict[str, List[str]] = {}
        for a in fn.args.args:
            if a.annotation is not None:
                for tv, classes in typevars.items():
                    if tv in norm(a.annotation):
                        generic[a.arg] = classes
        for x in walk_local(fn):
            if isinstance(x, ast.Call) and isinstance(x.func, ast.Name) and (x.func.id in dcs or x.func.id in generic):
                for cname in ([x.func.id] if x.func.id in dcs else generic[x.func.id]):
                    constructed.add(cname)
                    fields = list(dataclass_fields(types, cname))
                    for i, a in enumerate(x.args):
                        if i < len(fields):
                            written[cname].add(fields[i])
                    for k in x.keywords:
                        if k.arg:
                            written[cname].add(k.arg)
                        else:
                            written[cname] |= spread_all
            if isinstance(x, (ast.Assign, ast.AugAssign)):
                for t in (x.targets if isinstance(x, ast.Assign) else [x.target]):
                    if isinstance(t, ast.Attribute):
                        attr_stores.add(t.attr)
            if isinstance(x, ast.Call) and isinstance(x.func, ast.Name) and x.func.id == "setattr" and len(x.args) == 3:
                cfg = pm.cfg(fname)
                n = node_containing(cfg, x)
                for d, lab in (cfg.control_deps(n) if n is not None else []):
                    if lab == "T" and isinstance(d.cond, ast.Compare) and isinstance(d.cond.ops[0], ast.In) and isinstance(d.cond.comparators[0], (ast.Tuple, ast.Set, ast.List)):
                        attr_stores |= {e.value for e in d.cond.comparators[0].elts if isinstance(e, ast.Constant)}
    constant_by_design = {("AutoSpecifier", "name"): "the placeholder's name is always 'auto'"}
    for cname in sorted(constructed):
        for f in dataclass_fields(types, cname):
            if (cname, f) in constant_by_design:
                continue
            ctx.ob("R1.10", f"types:{cname}.{f}|written by the parser", f in written[cname] or f in attr_stores,
                   msg=f"no construction of {cname} passes `{f}` and nothing stores to `.{f}`: the field always keeps its default, whatever the source says", node=types.cls(cname), mod=types, nontrivial=False)

    # ---------------------------------------------------------------- R1.8
    ctx.rule("R1.8", "token vocabulary: every token type the parser names is one the lexer can deliver", minimum=150)
    seen: Set[Tuple[str, str]] = set()

    def vocab(fname: str, s: str, node: ast.AST, how: str) -> None:
        if (fname, s) in seen:
            return
        seen.add((fname, s))
        ctx.ob("R1.8", f"parser:CxxParser.{fname}|{s!r} ({how})", s in stream,
               msg=f"{s!r} is used as a token type in {fname} ({how}) but no lexer rule, literal or keyword produces it: the comparison can never succeed", node=node, mod=mod, nontrivial=False)

    type_arg_calls = {"token_if", "token_if_not", "token_peek_if", "_next_token_must_be"}
    for fname, fn in pm.methods.items():
        for x in walk_local(fn):
            if isinstance(x, ast.Compare) and len(x.ops) == 1:
                l = norm(x.left)
                if l.endswith(".type") or l in ("tok_type", "tok_type "):
                    comp = x.comparators[0]
                    elts = comp.elts if isinstance(comp, (ast.Tuple, ast.Set, ast.List)) else [comp]
                    for e in elts:
                        if isinstance(e, ast.Constant) and isinstance(e.value, str):
                            vocab(fname, e.value, x, "compared with a token type")
            if isinstance(x, ast.Call):
                r = pm.resolve(fname, x)
                if r and r[1] in type_arg_calls and r[0] in ("lex", "self"):
                    for a in x.args:
                        if isinstance(a, ast.Constant) and isinstance(a.value, str):
                            vocab(fname, a.value, x, f"requested through {r[1]}")
                if r and r[0] == "self" and r[1] in ("_consume_until", "_consume_value_until"):
                    for a in x.args:  # (an accumulator argument, if any, is not a string constant)
                        if isinstance(a, ast.Constant) and isinstance(a.value, str):
                            vocab(fname, a.value, x, "terminator type")
                if r and r[0] == "self" and r[1] == "_discard_contents":
                    for a in x.args:
                        if isinstance(a, ast.Constant):
                            vocab(fname, a.value, x, "bracket type")
    for setname in ("_end_balanced_tokens", "_attribute_specifier_seq_start_types", "_attribute_start_tokens", "_pqname_start_tokens", "_parse_type_ptr_ref_paren",
                    "_class_enum_stage2", "_type_kwd_both", "_type_kwd_meth", "_compound_fundamentals", "_fundamentals", "_base_access_virtual", "_name_compound_start"):
        try:
            vals = F.get(setname)
        except AnalysisError:
            continue
        for s in sorted(vals):
            vocab("<class body>", s, pm.cls, f"member of {setname}")
    bm = F.get("_balanced_token_map")
    for k, v in bm.items():
        vocab("<class body>", k, pm.cls, "opener in _balanced_token_map")
        vocab("<class body>", v, pm.cls, "closer in _balanced_token_map")


def _loop_head(cfg: CFG, n: Node) -> Optional[Node]:
    best = None
    for i in cfg.dominators().get(n.id, ()):
        d = cfg.nodes[i]
        if d.kind == "test" and d.loop is not None and cfg.in_loop(d):
            best = d
    return best


def _nth(fn: ast.AST, call: ast.Call) -> int:
    i = 0
    for c in walk_local(fn):
        if isinstance(c, ast.Call) and norm(c.func) == norm(call.func):
            if c is call:
                return i
            i += 1
    return -1


def _mods_keys(e: ast.AST, keyset: Dict[str, Set[str]]) -> Set[str]:
    """the keys an expression over the modifier dicts can contribute (a dict built from them, or an iterable of their keys)"""
    ch = attr_chain(e.func) if isinstance(e, ast.Call) else attr_chain(e)
    # mods.both.keys() / mods.both / list(mods.both) ...
    if ch and len(ch) == 3 and ch[2] in ("keys", "copy") and ch[1] in keyset and isinstance(e, ast.Call):
        return set(keyset[ch[1]])
    if ch and len(ch) == 2 and ch[1] in keyset and not isinstance(e, ast.Call):
        return set(keyset[ch[1]])
    if isinstance(e, ast.Call):
        f = norm(e.func)
        if f == "dict.fromkeys" and e.args:
            return _mods_keys(e.args[0], keyset)
        if f in ("list", "tuple", "set", "frozenset", "sorted", "dict", "iter", "reversed") and len(e.args) == 1:
            return _mods_keys(e.args[0], keyset)
        if f in ("itertools.chain", "chain"):
            out: Set[str] = set()
            for a in e.args:
                out |= _mods_keys(a, keyset)
            return out
    if isinstance(e, (ast.List, ast.Tuple, ast.Set)):
        out = set()
        for x in e.elts:
            if isinstance(x, ast.Starred):
                out |= _mods_keys(x.value, keyset)
            elif isinstance(x, ast.Constant) and isinstance(x.value, str):
                out.add(x.value)
            else:
                raise AnalysisError(f"cannot fold the key set `{norm(e)}`")
        return out
    if isinstance(e, ast.Dict):
        out = set()
        for k, v in zip(e.keys, e.values):
            if k is None:
                out |= _mods_keys(v, keyset)
            elif isinstance(k, ast.Constant) and isinstance(k.value, str):
                out.add(k.value)
            else:
                raise AnalysisError(f"cannot fold the key set `{norm(e)}`")
        return out
    if isinstance(e, ast.DictComp) and len(e.generators) == 1 and isinstance(e.generators[0].target, ast.Name) and isinstance(e.key, ast.Name) and e.key.id == e.generators[0].target.id and not e.generators[0].ifs:
        return _mods_keys(e.generators[0].iter, keyset)
    if isinstance(e, ast.BinOp) and isinstance(e.op, (ast.BitOr, ast.Add)):
        return _mods_keys(e.left, keyset) | _mods_keys(e.right, keyset)
    raise AnalysisError(f"cannot fold the key set `{norm(e)}`")


def _constructed_classes(pm: ParserModel, fname: str, cfg: CFG, n: Optional[Node], arg: ast.AST) -> Optional[Set[str]]:
    if isinstance(arg, ast.Call) and isinstance(arg.func, ast.Name) and arg.func.id[:1].isupper():
        return {arg.func.id}
    if isinstance(arg, ast.Name) and n is not None:
        rd = reaching_defs(cfg)
        out: Set[str] = set()
        for i in rd.get(n.id, {}).get(arg.id, ()):
            d = cfg.nodes[i]
            v = getattr(d.stmt, "value", None)
            if isinstance(v, ast.Call) and isinstance(v.func, ast.Name) and v.func.id[:1].isupper():
                out.add(v.func.id)
            else:
                return None
        return out or None
    return None


def _simple_payload_ok(pm: ParserModel, fname: str, arg: ast.AST, want: Set[str]) -> bool:
    if "Value" in want:
        return isinstance(arg, ast.Call) and pm.resolve(fname, arg) == ("self", "_create_value")
    if "str" in want:
        return isinstance(arg, ast.Subscript) or isinstance(arg, ast.Name)
    if "List" in want:
        return isinstance(arg, ast.Name)
    return False


def _is_subclass(types, g: str, want: Set[str]) -> bool:
    if not types.has_cls(g):
        return False
    for b in types.cls(g).bases:
        if isinstance(b, ast.Name) and (b.id in want or _is_subclass(types, b.id, want)):
            return True
    return False


def _namespace_walk(ctx: Ctx, rid: str) -> None:
    """The R12.4 / R12.5 obligations, re-evaluated under this property's rule id."""
    from . import c12
    from ..report import SubCtx, run_shared

    run_shared(ctx, c12.run, {"R12.4": (rid, ""), "R12.5": (rid, "")})


def check_specifier_arms(ctx: Ctx, rid: str, pm: ParserModel) -> None:
    """"with the same ... specifiers": the specifier loop of _parse_type fetches the next token after every arm of its
    chain of token-type tests.  An arm that does nothing (`pass`) consumes a specifier without a trace: it is neither
    reported nor can `validate` reject it where it is not allowed.  (Shared with C06 as R6.11.)"""
    mod = pm.mod
    ctx.rule(rid, "every specifier token the type parser's loop consumes leaves a trace (flag, modifier entry, consumed attribute) or ends the loop", minimum=5)
    ptf = pm.fn("_parse_type")
    loops_ = [w for w in walk_local(ptf) if isinstance(w, ast.While)]
    for w in loops_:
        chain = next((st for st in w.body if isinstance(st, ast.If) and any(isinstance(x, ast.Name) and "tok" in x.id for x in ast.walk(st.test))), None)
        while chain is not None:
            eff = [x for b_ in chain.body for x in ast.walk(b_) if isinstance(x, (ast.Assign, ast.AugAssign, ast.AnnAssign, ast.Call, ast.Raise, ast.Break, ast.Return, ast.Continue))]
            ctx.ob(rid, f"parser:CxxParser._parse_type|arm `{short(chain.test, 50)}`", bool(eff),
                   msg=f"the tokens matched by `{short(chain.test, 60)}` are consumed by the specifier loop and nothing is recorded or checked for them: the specifier vanishes from the result, and `validate` cannot reject it where it is not allowed", node=chain, mod=mod, nontrivial=False)
            nxt = chain.orelse
            chain = nxt[0] if len(nxt) == 1 and isinstance(nxt[0], ast.If) else None
