"""C08 -- the lexer partitions the text: nothing lost, lines counted, literals
whole (decided: discarders, token linearity, newline accounting, keywords,
rule-order shadowing, maximal munch of fixed strings, UDL fusion, inclusion of
a reference literal grammar in the token rules)."""
from __future__ import annotations

import ast
from typing import Dict, List, Optional, Set, Tuple

from ..cfg import CFG
from ..lexmodel import LexModel, Rule
from ..model import AnalysisError, attr_chain, norm, short, walk_local
from ..report import Ctx, SubCtx
from .. import fillmodel
from ..rx import Auto, END, not_included, prefix_preempts
from ..tokbuf import FillModel

LEVEL = "static analysis of the lexer rules and of LexerTokenStream._fill_tokbuf"
EXPLANATION = (
    "The PLY rule list (regexes folded from the class body, priority order re-derived from _ply/lex.py) is analysed as automata: "
    "R8.1 which rule functions can discard text; R8.2 every raw token fetched in _fill_tokbuf is buffered or fused before it is "
    "overwritten; R8.3 a rule adds to lineno iff its language contains a newline, by a count of newlines; R8.4 keywords are re-typed "
    "on every path of t_NAME and no earlier rule takes them; R8.5 every fixed-string token that extends another outranks it; R8.6 the "
    "set of ordered rule pairs where an earlier rule pre-empts a later rule's match equals the reasoned reference set; R8.7 UDL fusion "
    "start set, fusion condition, and every buffered token being examined for it; R8.8 language inclusion of a reference literal "
    "grammar (decimal/octal/hex/binary integers with separators and suffixes, decimal and hex floats, character and string literals "
    "with the five encoding prefixes and simple/octal/hex escapes) in the intended rule, with no earlier rule matching a prefix. "
    "Not decided: which of several matches a backtracking regex prefers inside one rule (ordered alternation), and literal forms outside the reference grammar."
)

# pairs (earlier rule, later rule) where the earlier rule can match a prefix of a
# full match of the later one, confirmed by reading on the reference tree
SHADOW_REFERENCE: Dict[Tuple[str, str], str] = {
    ("t_INT_CONST_OCT", "t_INT_CONST_DEC"): "the text '0' is in both; decimal's first alternative is dead, harmless",
    ("t_INT_CONST_CHAR", "t_BAD_CHAR_CONST"): "only on escapes made of non-ASCII decimal digits (\\d vs 0-9): valid rule wins by design",
    ("t_CHAR_CONST", "t_BAD_CHAR_CONST"): "same: the valid character rules are deliberately placed before the error rule",
    ("t_UNMATCHED_QUOTE", "t_BAD_CHAR_CONST"): "both are error rules; which message is raised is immaterial",
    ("t_PRAGMA_DIRECTIVE", "t_PP_DIRECTIVE"): "#pragma is a PP directive handled by its own rule first, by design",
    ("t_INCLUDE_DIRECTIVE", "t_PP_DIRECTIVE"): "#include likewise",
}

SUF = r"([uU](l|L|ll|LL)?|(l|L|ll|LL)[uU]?)?"
ESC = r"""(\\['"?\\abfnrtv]|\\[0-7]{1,3}|\\x[0-9a-fA-F]+)"""
# reference literal grammar: (name, regex, intended rule)
REFERENCE: List[Tuple[str, str, str]] = [
    ("decimal integer", r"[1-9]('?[0-9])*" + SUF, "t_INT_CONST_DEC"),
    ("octal integer", r"0('?[0-7])*" + SUF, "t_INT_CONST_OCT"),
    ("hex integer", r"0[xX][0-9a-fA-F]('?[0-9a-fA-F])*" + SUF, "t_INT_CONST_HEX"),
    ("binary integer", r"0[bB][01]('?[01])*" + SUF, "t_INT_CONST_BIN"),
    ("decimal float", r"(([0-9]*\.[0-9]+|[0-9]+\.)([eE][-+]?[0-9]+)?|[0-9]+[eE][-+]?[0-9]+)[fFlL]?", "t_FLOAT_CONST"),
    ("hex float", r"0[xX]([0-9a-fA-F]+|[0-9a-fA-F]*\.[0-9a-fA-F]+|[0-9a-fA-F]+\.)[pP][-+]?[0-9]+[fFlL]?", "t_HEX_FLOAT_CONST"),
    ("char literal", r"'([^'\\\n]|" + ESC + ")'", "t_CHAR_CONST"),
    ("wchar literal", r"L'([^'\\\n]|" + ESC + ")'", "t_WCHAR_CONST"),
    ("u8 char literal", r"u8'([^'\\\n]|" + ESC + ")'", "t_U8CHAR_CONST"),
    ("u16 char literal", r"u'([^'\\\n]|" + ESC + ")'", "t_U16CHAR_CONST"),
    ("u32 char literal", r"U'([^'\\\n]|" + ESC + ")'", "t_U32CHAR_CONST"),
    # (numeric escapes are left out here: '\\00' is ONE character by maximal munch, so a
    #  reference language with {2,4} numeric escapes would be ambiguous about its own class)
    ("multi-char literal", r"""'([^'\\\n]|\\['"?\\abfnrtv]){2,4}'""", "t_INT_CONST_CHAR"),
    ("string literal", r'"([^"\\\n]|' + ESC + ')*"', "t_STRING_LITERAL"),
    ("wide string literal", r'L"([^"\\\n]|' + ESC + ')*"', "t_WSTRING_LITERAL"),
    ("u8 string literal", r'u8"([^"\\\n]|' + ESC + ')*"', "t_U8STRING_LITERAL"),
    ("u16 string literal", r'u"([^"\\\n]|' + ESC + ')*"', "t_U16STRING_LITERAL"),
    ("u32 string literal", r'U"([^"\\\n]|' + ESC + ')*"', "t_U32STRING_LITERAL"),
    ("identifier", r"[A-Za-z_][A-Za-z0-9_]*", "t_NAME"),
    ("blank run", r"[ \t]+", "t_WHITESPACE"),
    ("newline run", r"\n+", "t_NEWLINE"),
    ("line comment", r"//[^\n]*\n?", "t_COMMENT_SINGLELINE"),
    ("block comment", r"/\*([^*]|\*+[^*/])*\*+/\n?", "t_COMMENT_MULTILINE"),
]
# identifiers that are prefixes of prefixed literals are excluded from the
# pre-emption half for NAME by construction (a literal rule *should* win there)


def run(ctx: Ctx) -> None:
    lm = LexModel(ctx.repo)
    fm = FillModel(ctx.repo)
    lexmod = lm.lexer
    ctx.trusted = ["re._parser", "PLY facts: " + "; ".join(f"{k}={v}" for k, v in lm.facts.items()),
                   "the reference literal grammar in sa/props/c08.py (written from the C++ literal grammar, restricted to the forms the lexer documents)"]
    ctx.undecided = ["choice among several matches inside one rule (ordered alternation / backtracking preference)",
                     "literal forms outside the reference grammar (raw strings, universal character names, separators in floats)"]
    flags = lm.reflags

    # ------------------------------------------------------------------ R8.1
    ctx.rule("R8.1", "only the documented discarders lose text: t_ignore == CR, rule functions returning None are the #line/#warning branches, no rule rewrites t.value", minimum=4)
    ctx.ob("R8.1", "lexer:PlyLexer|t_ignore", lm.ignore == "\r", msg=f"t_ignore is {lm.ignore!r}: characters other than carriage return are dropped without a token", node=lm.cls, mod=lexmod, nontrivial=False)
    for r in lm.rules:
        if r.discards:
            ctx.ob("R8.1", f"lexer:PlyLexer.{r.name}|discarding string rule", False,
                   msg=f"{r.name} = {r.regex!r} drops the text it matches without a token (PLY's t_ignore_ prefix): the token texts no longer reproduce the input, and a newline inside it is not counted", node=r.node, mod=lexmod)
        if r.kind != "fn":
            continue
        if "none" in r.exits:
            ok = r.name == "t_PP_DIRECTIVE"
            if ok:
                ok = _pp_none_sites_ok(lm, r)
            ctx.ob("R8.1", f"lexer:PlyLexer.{r.name}|returns no token", ok,
                   msg=f"{r.name} can finish without returning its token, so the matched text vanishes from the token stream (only #line and #warning directives may be dropped)",
                   node=r.node, mod=lexmod)
        ctx.ob("R8.1", f"lexer:PlyLexer.{r.name}|t.value unchanged", not r.value_stores,
               msg=f"{r.name} rewrites the token's value: token texts no longer reproduce the input", node=r.node, mod=lexmod, nontrivial=False)

    if isinstance(ctx, SubCtx) and set(ctx._map) <= {"R8.1"}:
        return  # evaluated for another property that shares only the rule above
    # ------------------------------------------------------------------ R8.2
    ctx.rule("R8.2", "every raw token fetched in _fill_tokbuf is stamped, then buffered or fused, before its variable is overwritten or the function returns", minimum=3)
    findings = fm.linear()
    for a, v in fm.acq:
        bad = [f for f in findings if f[0] == "drop" and short(a.stmt) in f[2]]
        ctx.ob("R8.2", f"lexer:LexerTokenStream._fill_tokbuf|{v} = {short(a.stmt.value, 30)} #{fm.acq.index((a, v))}", not bad,
               msg=bad[0][2] if bad else "", node=a.stmt, mod=lexmod)
    pops_ok = _pops_ok(fm)
    ctx.ob("R8.2", "lexer:LexerTokenStream._fill_tokbuf|buffer pops", pops_ok,
           msg="_fill_tokbuf removes buffered tokens other than the (backslash, NEWLINE) pair of a line continuation", node=fm.fn, mod=lexmod)

    # ------------------------------------------------------------------ R8.3
    check_nlacc(ctx, "R8.3", lm)

    # ------------------------------------------------------------------ R8.4
    ctx.rule("R8.4", "keywords: re-typed on every returning path of t_NAME, declared as tokens, matched by t_NAME and by no earlier rule", minimum=3)
    name_rule = lm.rule("t_NAME")
    ctx.ob("R8.4", "lexer:PlyLexer.t_NAME|keyword re-typing", _name_retypes(name_rule),
           msg="t_NAME does not set t.type = t.value for members of `keywords` on every path that returns the token", node=name_rule.node, mod=lexmod)
    missing = sorted(lm.keywords - set(lm.tokens))
    ctx.ob("R8.4", "lexer:PlyLexer|keywords declared in tokens", not missing, msg=f"keywords not in tokens: {missing}", node=lm.cls, mod=lexmod, nontrivial=False)
    na = name_rule.auto(flags)
    bad_kw = []
    for kw in sorted(lm.keywords):
        if not na.matches(kw):
            bad_kw.append((kw, "not matched by t_NAME"))
            continue
        for E in lm.rules[: name_rule.prio]:
            for follow in ("", " ", "(", "'", '"'):
                if any(k > 0 for k in E.auto(flags).prefix_lengths(kw + follow)):
                    bad_kw.append((kw, f"prefix taken by {E.name}"))
                    break
    ctx.ob("R8.4", "lexer:PlyLexer|keywords reach t_NAME", not bad_kw, msg=f"keywords that are not lexed by t_NAME: {bad_kw[:5]}", node=name_rule.node, mod=lexmod,
           detail={"keywords": len(lm.keywords)})

    # ------------------------------------------------------------------ R8.5
    ctx.rule("R8.5", "maximal munch: a fixed-string token that extends another fixed-string token has higher priority", minimum=8)
    fixed: List[Tuple[str, str, int]] = []
    for r in lm.rules:
        if r.delivers:
            fs = r.auto(flags).fixed_string()
            if fs is not None:
                fixed.append((fs, r.name, r.prio))
    for l in lm.literals:
        fixed.append((l, f"literal {l!r}", 10 ** 6))
    for s, sn, sp in fixed:
        for t, tn, tp in fixed:
            if s != t and t.startswith(s):
                ctx.ob("R8.5", f"lexer:PlyLexer|{tn} over {sn}", tp < sp,
                       msg=f"{tn} ({t!r}) does not outrank its prefix {sn} ({s!r}): {t!r} is lexed as {s!r} followed by something else",
                       node=lm.cls, mod=lexmod, nontrivial=False)
    # every multi-character fixed token's first character alone must be a token too (nothing becomes an illegal character)

    # ------------------------------------------------------------------ R8.6
    ctx.rule("R8.6", "rule-order shadowing equals the reference set (a new pair means some text changed token class or was split)", minimum=300)
    found: Dict[Tuple[str, str], str] = {}
    for i, E in enumerate(lm.rules):
        for L in lm.rules[i + 1:]:
            w = prefix_preempts(E.auto(flags), L.auto(flags))
            key = (E.name, L.name)
            if w is not None:
                found[key] = w
            ok = w is None or key in SHADOW_REFERENCE
            ctx.ob("R8.6", f"lexer:PlyLexer|{E.name} before {L.name}", ok,
                   msg="" if ok else f"{E.name} (higher priority) matches a prefix of {w!r}, which {L.name} is meant to match: that text is no longer one {L.tokname} token",
                   node=L.node, mod=lexmod, nontrivial=w is not None)
    for key in SHADOW_REFERENCE:
        if key not in found:
            ctx.note(f"reference shadow pair no longer present: {key}")
    ctx.sample({"rule": "R8.6", "pairs": {f"{a}>{b}": w for (a, b), w in found.items()}})

    # ------------------------------------------------------------------ R8.7
    ctx.rule("R8.7", "UDL fusion: start set = literal token types, suffix must be a NAME starting with '_', fused value/type, every buffered token examined", minimum=3)
    lit_types = {r.tokname for r in lm.rules if r.delivers and ("CONST" in r.tokname or "LITERAL" in r.tokname)}
    ctx.ob("R8.7", "lexer:LexerTokenStream|_user_defined_literal_start", lm.udl_start == lit_types,
           msg=f"UDL start set differs from the literal token types: missing {sorted(lit_types - lm.udl_start)}, extra {sorted(lm.udl_start - lit_types)}",
           node=fm.fn, mod=lexmod, nontrivial=False)
    # the buffer fill itself, interpreted over every short script of raw tokens (sa/fillmodel.py): fusion of a literal with
    # its '_' suffix, one physical line per call with line splices removed, every raw token kept once with a location
    fillmodel.obligations(ctx, "R8.7", lexmod, set(lm.udl_start), ("udl", "keep"))
    fillmodel.obligations(ctx, "R8.2", lexmod, set(lm.udl_start), ("line",))

    # ------------------------------------------------------------------ R8.8
    reference_inclusion(ctx, lm)
    ctx.exhaustive = True

    # ------------------------------------------------------------------ R8.9 (bounds depend on the tier)
    _preferred_match(ctx, lm, thorough=ctx.tier == "thorough")

    # ------------------------------------------------------------------ R8.10
    _scan_loop(ctx, lm)

    # ------------------------------------------------------------------ R8.11
    # "partitions the text": what the lexer is given is the input (line ends normalised and nothing else) - a pre-pass that
    # joins or moves lines changes which line a token is counted on.  C09's R9.5, evaluated here under this property's id.
    if not isinstance(ctx, SubCtx):
        from . import c09 as _c09
        from ..report import run_shared as _rs811
        _rs811(ctx, _c09.run, {"R9.5": ("R8.11", "the text handed to the lexer is the input with CR LF read as LF, nothing else rewritten")})


def _scan_loop(ctx: Ctx, lm: LexModel) -> None:
    """R8.10: the rule model (priority order, literal fallback) describes Lexer.token only if nothing in its scanning loop
    hands out a token, or moves on in the text, before the master regular expression was tried at the current position.
    Every `return` inside the loop and every store to the position is dominated by the head of the loop over `self.lexre`,
    except the skip of ignored characters (a store under the test `<char> in <ignore set>` and nothing else)."""
    ply = lm.ply
    fn = ply.func("Lexer.token")
    cfg = CFG(fn)
    ctx.rule("R8.10", "Lexer.token: inside the scanning loop nothing is returned and the position is not moved before the master regular expression was tried there (only ignored characters are skipped)", minimum=4)
    whiles = [n for n in cfg.nodes if n.kind == "test" and isinstance(n.loop, ast.While)]
    fors = [n for n in cfg.nodes if n.kind == "test" and isinstance(n.loop, ast.For) and "lexre" in norm(n.loop.iter)]
    if not whiles or len(fors) != 1:
        raise AnalysisError("PLY anchor changed: Lexer.token scanning loop (one while loop around one loop over self.lexre)")
    outer = whiles[0]
    inside = {id(x) for x in ast.walk(outer.loop)}
    head = fors[0]
    # the local names of the ignore set
    ign = {"self.lexignore"}
    for st in walk_local(fn):
        if isinstance(st, ast.Assign) and norm(st.value) == "self.lexignore":
            ign |= {norm(t) for t in st.targets}
    k = 0
    for n in cfg.nodes:
        if n.kind != "stmt" or n.stmt is None or id(n.stmt) not in inside:
            continue
        st = n.stmt
        if isinstance(st, ast.Return):
            k += 1
            ok = cfg.dominates(head, n)
            ctx.ob("R8.10", f"_ply.lex:Lexer.token|return #{k} `{short(st, 40)}`", ok,
                   msg="a token is returned from the scanning loop on a path that never tried the master regular expression at this position: the rule priority order of the lexer (longer operators, literals, comments first) does not apply to it", node=st, mod=ply)
        elif isinstance(st, (ast.Assign, ast.AugAssign)):
            tg = st.targets if isinstance(st, ast.Assign) else [st.target]
            if not any(norm(t) in ("lexpos", "self.lexpos") for t in tg):
                continue
            if cfg.dominates(head, n):
                continue
            deps = cfg.control_deps(n)
            under_ignore = [d for d, lab in deps if d.cond is not None and isinstance(d.cond, ast.Compare) and len(d.cond.ops) == 1 and isinstance(d.cond.ops[0], ast.In)
                            and norm(d.cond.comparators[0]) in ign and lab == "T"]
            others = [d for d, lab in deps if d is not outer and d not in under_ignore]
            ok = bool(under_ignore) and not others
            ctx.ob("R8.10", f"_ply.lex:Lexer.token|position store `{short(st, 40)}` before the rules are tried", ok,
                   msg="the position in the text is moved before the master regular expression was tried, under a test other than membership in the ignore set: text is skipped or split without a rule having matched it", node=st, mod=ply)

RED_ALPHA = "0178afxXbBeEpPuUlL.+-'\"\\nz_ "


def words(R: Auto, maxlen: int, cap: int):
    """Words of L(R) of length <= maxlen over the reduced alphabet, shortest first."""
    from collections import deque
    alpha = [c for c in RED_ALPHA]
    out = []
    dq = deque([(None, "")])
    seen = {(None, "")}
    while dq and len(out) < cap:
        st, w = dq.popleft()
        if st is not None and R.accepts_at(st, END):
            out.append(w)
        if len(w) >= maxlen:
            continue
        for c in alpha:
            for q in R.step(st, c):
                if q in R.useful() and (q, w + c) not in seen:
                    seen.add((q, w + c))
                    dq.append((q, w + c))
    # one entry per distinct word
    return sorted(set(out), key=lambda x: (len(x), x))


def _preferred_match(ctx: Ctx, lm: LexModel, thorough: bool = True) -> None:
    """R8.9: for every word of the reference literal grammar up to a length bound, the match the
    backtracking engine *prefers* for the intended rule is the whole word (not a shorter alternative),
    and PLY's first matching rule is the intended one.  Bounded-exhaustive over a reduced alphabet."""
    from ..btmatch import match_len
    lexmod = lm.lexer
    flags = lm.reflags
    ctx.rule("R8.9", "leftmost-first preference: every reference literal up to the length bound is taken whole by the intended rule (ordered alternation inside rules)", minimum=15)
    total = 0
    firsts = {r.name: r.auto(flags).can_start_with() for r in lm.rules}
    for name, rx, rname in REFERENCE:
        if name in ("blank run", "newline run", "line comment", "block comment"):
            continue
        R = Auto(rx, 0, name=name)
        if thorough:
            ws = words(R, 7 if "string" not in name and "char" not in name else 6, 4000)
        else:
            ws = words(R, 5, 250)
        rule = lm.rule(rname)
        bad = None
        for w in ws:
            for tail in ("", " ", ";"):
                text = w + tail
                # PLY: first rule in priority order whose regex matches at position 0
                winner = None
                for r in lm.rules:
                    if text[0] not in firsts[r.name]:
                        continue
                    m = match_len(r.regex, flags, text)
                    if m:
                        winner = (r.name, m)
                        break
                total += 1
                if winner != (rname, len(w)):
                    # identifiers that spell a keyword are re-typed, still t_NAME; literal prefixes (u8, L...) are names when no quote follows
                    bad = (w, tail, winner)
                    break
            if bad:
                break
        ctx.ob("R8.9", f"lexer:PlyLexer.{rname}|{name}: preferred match is the whole literal", bad is None,
               msg=("" if bad is None else f"for the {name} {bad[0]!r} (followed by {bad[1]!r}) the lexer's first match is {bad[2]}: the literal is split or mis-classified because an earlier alternative/rule is preferred"),
               node=rule.node, mod=lexmod, detail={"words": len(ws)})
    ctx.extra["preferred_match_evaluations"] = total


def check_nlacc(ctx: Ctx, rid: str, lm: LexModel) -> None:
    """NLACC: newline accounting of every lexer rule (shared with C10)."""
    lexmod = lm.lexer
    flags = lm.reflags
    ctx.rule(rid, "a rule adds to lexer.lineno iff its language can contain a newline, and adds the number of newlines", minimum=30)
    for r in lm.rules:
        a = r.auto(flags)
        has_nl = a.can_contain("\n")
        key = f"lexer:PlyLexer.{r.name}|newline accounting"
        if r.kind == "str":
            ctx.ob(rid, key, not has_nl, msg=f"string rule {r.name} can match a newline but has no function to count it", node=r.node, mod=lexmod)
            continue
        if not r.delivers and "none" not in r.exits:
            # error rule: always raises, the count does not matter afterwards
            ctx.ob(rid, key, True, node=r.node, mod=lexmod, nontrivial=False)
            continue
        ok, why = _lineno_ok(r, a, has_nl)
        ctx.ob(rid, key, ok, msg=why, node=r.node, mod=lexmod, detail={"can_contain_newline": has_nl})
    ctx.ob(rid, "lexer:PlyLexer|literals and ignored characters contain no newline", "\n" not in lm.literals and "\n" not in lm.ignore,
           msg="a newline can be consumed as a literal/ignored character without being counted", node=lm.cls, mod=lexmod, nontrivial=False)
    # nobody else writes lineno
    for qual, fn in lexmod.functions():
        for st in walk_local(fn):
            tg = []
            if isinstance(st, ast.Assign):
                tg = st.targets
            elif isinstance(st, ast.AugAssign):
                tg = [st.target]
            for t in tg:
                ch = attr_chain(t)
                if ch and ch[-1] == "lineno" and not qual.startswith("PlyLexer.t_"):
                    ctx.ob(rid, f"lexer:{qual}|writes lineno", False, msg=f"{qual} assigns a line number outside the token rules: `{short(st)}`", node=st, mod=lexmod)



# ---------------------------------------------------------------------------


def _pp_none_sites_ok(lm: LexModel, r: Rule) -> bool:
    """Each None exit of t_PP_DIRECTIVE sits under the `_line_re` match test or
    the `#warning` prefix test."""
    fn = r.node
    mod = lm.lexer
    # names bound to _line_re.match(...)
    mvars = set()
    for st in walk_local(fn):
        if isinstance(st, ast.Assign) and isinstance(st.value, ast.Call):
            ch = attr_chain(st.value.func)
            if ch and ch[0] == "_line_re" and ch[-1] in ("match", "fullmatch"):
                for t in st.targets:
                    if isinstance(t, ast.Name):
                        mvars.add(t.id)
    for site in r.none_sites:
        p = mod.parent.get(site)
        ok = False
        while p is not None and p is not fn:
            if isinstance(p, ast.If):
                t = p.test
                if isinstance(t, ast.Name) and t.id in mvars and _in_body(p.body, site):
                    ok = True
                if isinstance(t, ast.Compare) and isinstance(t.left, ast.Name) and t.left.id in mvars and _in_body(p.body, site):
                    ok = True
                if isinstance(t, ast.Call) and (attr_chain(t.func) or ("",))[-1] == "startswith" and t.args and isinstance(t.args[0], ast.Constant) and str(t.args[0].value).startswith("#warning") and _in_body(p.body, site):
                    ok = True
            p = mod.parent.get(p)
        if not ok:
            return False
    return bool(r.none_sites)


def _in_body(body, node) -> bool:
    return any(node is x or any(y is node for y in ast.walk(x)) for x in body)


def _pops_ok(fm: FillModel) -> bool:
    if not fm.pops:
        return True
    if len(fm.pops) != 2:
        return False
    # both pops are dominated by a NEWLINE test (T) and a `[-2].type == "\\"` test (T)
    dom = fm.cfg.dominators()
    for p in fm.pops:
        tests = [fm.cfg.nodes[i] for i in dom[p.id] if fm.cfg.nodes[i].kind == "test" and fm.cfg.nodes[i].cond is not None]
        txt = " ".join(norm(t.cond) for t in tests)
        if "NEWLINE" not in txt or "'\\\\'" not in txt:
            return False
    return True


def _lineno_ok(r: Rule, a: Auto, has_nl: bool) -> Tuple[bool, str]:
    fn: ast.FunctionDef = r.node  # type: ignore
    tname = fn.args.args[1].arg
    ups = r.lineno_updates
    if not has_nl:
        for u in ups:
            if not _is_newline_count(u, tname, a):
                return False, f"{r.name} cannot match a newline but changes lineno by `{short(u)}`"
        return True, ""
    if not ups:
        return False, f"{r.name} can match a newline ({a.mandatory_prefix()!r}...) but never adds to lexer.lineno: every later line number is too small"
    for u in ups:
        if not _is_newline_count(u, tname, a):
            return False, f"{r.name}: `{short(u)}` does not add the number of newlines in the matched text"
    # every returning path passes an update
    cfg = CFG(fn)
    upd_nodes = [n for n in cfg.nodes if n.kind == "stmt" and any(n.stmt is u for u in ups)]
    for n in cfg.nodes:
        if n.kind == "stmt" and isinstance(n.stmt, ast.Return) and n.stmt.value is not None:
            if not any(cfg.dominates(u, n) for u in upd_nodes):
                return False, f"{r.name}: a path returns the token without counting its newlines"
    return True, ""


def _is_newline_count(u: ast.AST, tname: str, a: Auto) -> bool:
    if not (isinstance(u, ast.AugAssign) and isinstance(u.op, ast.Add)):
        return False
    v = u.value
    # t.value.count("\n")
    if isinstance(v, ast.Call) and attr_chain(v.func) == (tname, "value", "count") and len(v.args) == 1 and isinstance(v.args[0], ast.Constant) and v.args[0].value == "\n":
        return True
    # len(t.value) when the language is made of newlines only
    if isinstance(v, ast.Call) and isinstance(v.func, ast.Name) and v.func.id == "len" and len(v.args) == 1 and attr_chain(v.args[0]) == (tname, "value"):
        return a.alphabet_used() <= frozenset("\n")
    return False


def _name_retypes(r: Rule) -> bool:
    """On every path of t_NAME on which `t.value in self.keywords` held, the
    token's type is its text when the token is returned (forward dataflow:
    kw = may have passed the T edge, typed = must have stored t.type = t.value
    since)."""
    from ..cfg import solve_forward

    fn: ast.FunctionDef = r.node  # type: ignore
    tname = fn.args.args[1].arg
    cfg = CFG(fn)
    val_alias = {t.id for s2 in walk_local(fn) if isinstance(s2, ast.Assign) and attr_chain(s2.value) == (tname, "value") for t in s2.targets if isinstance(t, ast.Name)}

    def is_value(e) -> bool:
        return attr_chain(e) == (tname, "value") or (isinstance(e, ast.Name) and e.id in val_alias)

    tests = []
    for n in cfg.nodes:
        c = n.cond
        if n.kind == "test" and isinstance(c, ast.Compare) and len(c.ops) == 1 and isinstance(c.ops[0], (ast.In, ast.NotIn)):
            if is_value(c.left) and (attr_chain(c.comparators[0]) or ("",))[-1] == "keywords":
                tests.append(n)
    if not tests:
        return False

    # facts: set of (kw, typed) pairs, one per class of paths (relational, no lossy join)
    def transfer(n, f):
        st = n.stmt
        if n.kind == "stmt" and isinstance(st, ast.Assign) and any(attr_chain(x) == (tname, "type") for x in st.targets):
            typed = is_value(st.value)
            return frozenset((kw, typed) for kw, _ in f)
        return f

    def edge(n, lab, s, f):
        if n in tests and lab in ("T", "F"):
            positive = isinstance(n.cond.ops[0], ast.In)
            if (lab == "T") == positive:
                return frozenset({(True, False)})
            return frozenset((False, t) for _, t in f)
        return f

    IN = solve_forward(cfg, frozenset({(None, False)}), transfer, lambda a, b: a | b, edge=edge, skip_exc=True)
    ok = True
    seen_return = False
    for n in cfg.nodes:
        if n.kind == "stmt" and isinstance(n.stmt, ast.Return) and n.stmt.value is not None and n.id in IN:
            seen_return = True
            for kw, typed in transfer(n, IN[n.id]):
                # kw None = the membership test was never evaluated on this path
                if kw is not False and not typed:
                    ok = False
    return ok and seen_return


def _path_via(cfg, t, label, dst, avoid) -> bool:
    """Is there a path leaving t by `label` reaching dst without passing avoid?"""
    seen = set()
    st = [x for x, lab in t.succ if lab == label]
    while st:
        n = st.pop()
        if n.id in seen or n is avoid:
            continue
        seen.add(n.id)
        if n is dst:
            return True
        st.extend(s for s, lab in n.succ if lab != "exc")
    return False


def _udl_shape(fm: FillModel) -> Tuple[bool, bool]:
    """(condition ok, fused token ok).  Decided by a must-dataflow over the
    facts 'look-ahead is a NAME' and 'look-ahead starts with _' (so the
    if/else, early-continue and nested-if forms are all accepted):
    the fusion stores happen only where both facts hold, and where both hold
    the look-ahead token is not buffered on its own."""
    from ..cfg import solve_forward

    cfg = fm.cfg
    # the look-ahead variables: acquired while another token is pending (inside the UDL branch)
    val_stores = []
    typ_stores = []
    for n in cfg.nodes:
        st = n.stmt
        if n.kind != "stmt":
            continue
        if isinstance(st, ast.Assign) and len(st.targets) == 1:
            ch = attr_chain(st.targets[0])
            v = st.value
            if ch and ch[-1] == "value" and isinstance(v, ast.BinOp) and isinstance(v.op, ast.Add) and attr_chain(v.left) == ch:
                r = attr_chain(v.right)
                if r and len(r) == 2 and r[1] == "value":
                    val_stores.append((n, ch[0], r[0]))
            if ch and ch[-1] == "type":
                ok = False
                if isinstance(v, ast.JoinedStr) and len(v.values) == 2 and isinstance(v.values[0], ast.Constant) and v.values[0].value == "UD_" and isinstance(v.values[1], ast.FormattedValue) and attr_chain(v.values[1].value) == ch:
                    ok = True
                if isinstance(v, ast.BinOp) and isinstance(v.op, ast.Add) and isinstance(v.left, ast.Constant) and v.left.value == "UD_" and attr_chain(v.right) == ch:
                    ok = True
                if ok:
                    typ_stores.append((n, ch[0]))
        if isinstance(st, ast.AugAssign) and isinstance(st.op, ast.Add):
            ch = attr_chain(st.target)
            r = attr_chain(st.value)
            if ch and ch[-1] == "value" and r and len(r) == 2 and r[1] == "value":
                val_stores.append((n, ch[0], r[0]))
    if not val_stores or not typ_stores:
        return False, False
    look = val_stores[0][2]

    def implied(c, truth):
        out = set()
        if isinstance(c, ast.UnaryOp) and isinstance(c.op, ast.Not):
            return implied(c.operand, not truth)
        if isinstance(c, ast.BoolOp):
            if isinstance(c.op, ast.And) and truth or isinstance(c.op, ast.Or) and not truth:
                for v in c.values:
                    out |= implied(v, truth)
            return out
        if isinstance(c, ast.Compare) and len(c.ops) == 1 and isinstance(c.comparators[0], ast.Constant):
            k = c.comparators[0].value
            eq = isinstance(c.ops[0], ast.Eq)
            ne = isinstance(c.ops[0], ast.NotEq)
            if (eq and truth) or (ne and not truth):
                if attr_chain(c.left) == (look, "type") and k == "NAME":
                    out.add("name")
                l = c.left
                if k == "_" and isinstance(l, ast.Subscript) and attr_chain(l.value) == (look, "value"):
                    sl = l.slice
                    if (isinstance(sl, ast.Constant) and sl.value == 0) or (isinstance(sl, ast.Slice) and sl.lower is None and isinstance(sl.upper, ast.Constant) and sl.upper.value == 1):
                        out.add("under")
        if isinstance(c, ast.Call) and attr_chain(c.func) == (look, "value", "startswith") and truth and c.args and isinstance(c.args[0], ast.Constant) and c.args[0].value == "_":
            out.add("under")
        return out

    def transfer(n, f):
        st = n.stmt
        if n.kind == "stmt" and isinstance(st, ast.Assign) and any(isinstance(t, ast.Name) and t.id == look for t in st.targets):
            return frozenset()
        return f

    def edge(n, lab, s, f):
        if lab in ("T", "F") and n.cond is not None:
            return f | frozenset(implied(n.cond, lab == "T"))
        return f

    IN = solve_forward(cfg, frozenset(), transfer, lambda a, b: a & b, edge=edge, skip_exc=True)
    both = frozenset({"name", "under"})
    fuse_ok = all(IN.get(n.id, frozenset()) >= both for n, _, lk in val_stores) and all(IN.get(n.id, frozenset()) >= both for n, _ in typ_stores)
    fuse_ok = fuse_ok and all(lk == look for _, _, lk in val_stores)
    # where both facts hold the look-ahead must not be buffered / become the current token un-fused
    cond_ok = True
    saw_reject = False
    for n in cfg.nodes:
        st = n.stmt
        f = IN.get(n.id)
        if f is None or n.kind != "stmt":
            continue
        separate = False
        if isinstance(st, ast.Expr) and isinstance(st.value, ast.Call) and (attr_chain(st.value.func) or ("",))[-1] == "append" and st.value.args and isinstance(st.value.args[0], ast.Name) and st.value.args[0].id == look:
            separate = True
        if isinstance(st, ast.Assign) and isinstance(st.value, ast.Name) and st.value.id == look and all(isinstance(t, ast.Name) for t in st.targets):
            separate = True
        if separate:
            saw_reject = True
            if f >= both:
                cond_ok = False
    # a suffix-looking NAME must always be fused: every path on which both facts hold reaches the value store
    if not saw_reject:
        cond_ok = False
    return cond_ok, fuse_ok


def reference_inclusion(ctx: Ctx, lm: LexModel) -> None:
    """R8.8 (also evaluated under C14's id): language inclusion of the reference literal grammar in the intended rules."""
    lexmod = lm.lexer
    flags = lm.reflags
    ctx.rule("R8.8", "reference literal grammar is included in the intended rule's language and no earlier rule matches a prefix of a reference literal", minimum=20)
    for name, rx, rname in REFERENCE:
        R = Auto(rx, 0, name=name)
        rule = lm.rule(rname)
        cex = not_included(R, rule.auto(flags))
        ctx.ob("R8.8", f"lexer:PlyLexer.{rname}|accepts every {name}", cex is None,
               msg=f"{name} {cex!r} is not matched as a whole by {rname}", node=rule.node, mod=lexmod, detail={"reference": rx})
        for E in lm.rules[: rule.prio]:
            w = prefix_preempts(E.auto(flags), R)
            if w is not None and rname == "t_NAME":
                # an identifier that spells a literal prefix followed by a quote is not an identifier
                continue
            ctx.ob("R8.8", f"lexer:PlyLexer.{rname}|{name} not pre-empted by {E.name}", w is None,
                   msg=f"{E.name} has priority and matches a prefix of the {name} {w!r}", node=E.node, mod=lexmod, nontrivial=False)
        ctx.sample({"rule": "R8.8", "class": name, "reference": rx, "intended": rname, "counterexample": cex}) if name in ("hex float", "char literal") else None
