"""C11 -- documentation comments attach to the declaration they adjoin, and
only to it."""
from __future__ import annotations

import ast
from typing import Dict, List, Optional, Set, Tuple

from ..cfg import CFG, Node, solve_forward
from ..kinds import node_containing
from ..model import AnalysisError, Unfoldable, attr_chain, norm, short, walk_local
from ..pmodel import LEX_CONSUME, ParserModel
from ..report import Ctx

LEVEL = "linear-use / who-may-call / must-pass-through rules on the pending doc text"
EXPLANATION = (
    "R11.1 a doc text (a `doxygen` parameter or the result of get_doxygen*) flows into at most one consuming construction per path unless "
    "rebound in between (call-graph summaries, return-correlated). R11.2 in parse() the pending text is reset after every dispatch "
    "unless the token type is in _keep_doxygen, which must be a subset of the attribute-introducing token types whose handlers ignore "
    "their doxygen parameter. R11.3 get_doxygen() is called only by the top-level loop and the enumerator loop; get_doxygen_after() only "
    "under `doxygen is None`, only in the field/variable and enumerator parsers. R11.4 _extract_comments accepts exactly the four doc "
    "prefixes and only extends its accumulator. R11.5 in both scans every comment token is recorded (so a plain comment still delimits), "
    "a NEWLINE clears the leading scan, a real token is pushed back and ends it; the trailing scan re-queues every non-comment token. "
    "Not decided: the exact text of the doc string."
)

DOC_PREFIXES = {"///", "//!", "/**", "/*!"}


def doc_params(fn: ast.FunctionDef) -> List[str]:
    return [a.arg for a in fn.args.args + fn.args.kwonlyargs if a.arg == "doxygen"]


def run(ctx: Ctx) -> None:
    pm = ParserModel(ctx.repo)
    mod = pm.mod
    lex = ctx.repo.mod("lexer")
    types = ctx.repo.mod("types")
    ctx.trusted = ["dataclass field tables of types.py (which classes carry `doxygen`)"]
    ctx.undecided = ["the exact text of the attached comment (string values)"]
    doc_classes = set()
    for cname, cnode in types.classes():
        for st in cnode.body:
            if isinstance(st, ast.AnnAssign) and isinstance(st.target, ast.Name) and st.target.id == "doxygen":
                doc_classes.add(cname)
    # inherited (Method(Function))
    changed = True
    while changed:
        changed = False
        for cname, cnode in types.classes():
            if cname not in doc_classes and any(isinstance(b, ast.Name) and b.id in doc_classes for b in cnode.bases):
                doc_classes.add(cname)
                changed = True
    if len(doc_classes) < 10:
        raise AnalysisError("anchor vanished: dataclasses with a doxygen field")

    # ---------------------------------------------------------------- consumption summaries
    # may_consume[m] : m's doxygen parameter can flow into a doc-carrying constructor (directly or via callees)
    direct: Dict[str, bool] = {}
    for fname, fn in pm.methods.items():
        if not doc_params(fn):
            continue
        direct[fname] = any(_ctor_consumes(c, "doxygen", doc_classes) for c in walk_local(fn) if isinstance(c, ast.Call))
    may = dict(direct)
    changed = True
    while changed:
        changed = False
        for fname, fn in pm.methods.items():
            if fname not in may or may[fname]:
                continue
            for c in walk_local(fn):
                if isinstance(c, ast.Call):
                    r = pm.resolve(fname, c)
                    if r and r[0] == "self" and may.get(r[1]) and _passes(pm, c, r[1], "doxygen"):
                        may[fname] = True
                        changed = True
    # falsy-return summary: methods that never consume on a path that returns False
    no_consume_when_false: Set[str] = set()
    for fname in may:
        fn = pm.fn(fname)
        cfg = pm.cfg(fname)
        IN = _count_flow(pm, fname, cfg, may, doc_classes, no_consume_when_false, {"doxygen"})
        rets_false = [n for n in cfg.nodes if n.kind == "stmt" and isinstance(n.stmt, ast.Return) and isinstance(n.stmt.value, ast.Constant) and n.stmt.value.value is False]
        if rets_false and all(IN.get(n.id, {}).get("doxygen", 0) == 0 for n in rets_false):
            no_consume_when_false.add(fname)

    # ---------------------------------------------------------------- R11.1
    ctx.rule("R11.1", "a doc text is consumed at most once per path unless rebound in between", minimum=15)
    for fname, fn in pm.methods.items():
        if fname == "parse":
            continue
        vars_ = set(doc_params(fn))
        for st in walk_local(fn):
            if isinstance(st, ast.Assign) and isinstance(st.value, ast.Call):
                r = pm.resolve(fname, st.value)
                if r and r[0] == "lex" and r[1] in ("get_doxygen", "get_doxygen_after"):
                    for t in st.targets:
                        if isinstance(t, ast.Name):
                            vars_.add(t.id)
        if not vars_:
            continue
        cfg = pm.cfg(fname)
        IN = _count_flow(pm, fname, cfg, may, doc_classes, no_consume_when_false, vars_)
        worst = {}
        site = {}
        for n in cfg.nodes:
            if n.id not in IN:
                continue
            out = _apply(pm, fname, n, dict(IN[n.id]), may, doc_classes, vars_)
            for v, k in out.items():
                if k >= 2 and worst.get(v, 0) < 2:
                    worst[v] = k
                    site[v] = n
        for v in sorted(vars_):
            ctx.ob("R11.1", f"parser:CxxParser.{fname}|{v}", worst.get(v, 0) < 2,
                   msg=f"`{v}` can be handed to two consuming constructions on one path (second at `{short(site[v].stmt) if v in site else ''}`): one comment would be attributed to two declarations",
                   node=site[v].stmt if v in site else fn, mod=mod)

    # ---------------------------------------------------------------- R11.2
    ctx.rule("R11.2", "parse(): pending doc text reset after every dispatch except for attribute-introducing tokens whose handlers ignore it", minimum=4)
    parse = pm.fn("parse")
    keep = None
    for st in walk_local(parse):
        if isinstance(st, ast.Assign) and len(st.targets) == 1 and isinstance(st.targets[0], ast.Name) and st.targets[0].id == "_keep_doxygen":
            try:
                keep = set(ctx.repo.folder("parser", "CxxParser").ev(st.value))
            except Unfoldable:
                keep = None
    attr_start = set(ctx.repo.folder("parser", "CxxParser").get("_attribute_start_tokens"))
    ctx.ob("R11.2", "parser:CxxParser.parse|_keep_doxygen is a set of attribute introducers", keep is not None and keep <= attr_start,
           msg=f"_keep_doxygen = {sorted(keep) if keep is not None else '?'} contains token types that do not introduce an attribute ({sorted((keep or set()) - attr_start)}): a doc comment above such a construct leaks to the next declaration",
           node=parse, mod=mod)
    for k in sorted(keep or ()):
        h = pm.dispatch.get(k)
        ok = h is not None and h != "<lambda>"
        if ok:
            hf = pm.fn(h)
            uses = [x for x in walk_local(hf) if isinstance(x, ast.Name) and x.id == "doxygen" and isinstance(x.ctx, ast.Load)]
            ok = not uses
        ctx.ob("R11.2", f"parser:CxxParser.parse|handler of kept type {k} ignores doxygen", ok,
               msg=f"the handler for {k} uses its doxygen argument although the pending text is kept for the next declaration (double attribution)", node=parse, mod=mod, nontrivial=False)
    # structure of the loop: after fn(tok, doxygen): `if tok.type not in _keep_doxygen: doxygen = None`; after _parse_declarations: doxygen = None
    cfg = pm.cfg("parse")
    ok, why = _parse_loop_resets(pm, cfg)
    ctx.ob("R11.2", "parser:CxxParser.parse|reset after dispatch", ok, msg=why, node=parse, mod=mod)

    # ---------------------------------------------------------------- R11.3
    ctx.rule("R11.3", "who may ask for doc text: get_doxygen in parse/_parse_enumerator_list; get_doxygen_after only under `doxygen is None` in the field and enumerator parsers", minimum=4)
    for fname, fn in pm.methods.items():
        cfg = pm.cfg(fname)
        for n in cfg.nodes:
            for c, r in pm.node_calls(fname, n):
                if r == ("lex", "get_doxygen"):
                    ctx.ob("R11.3", f"parser:CxxParser.{fname}|get_doxygen()", fname in ("parse", "_parse_enumerator_list"),
                           msg=f"{fname} fetches a leading doc block itself: declarators other than the first, or constructs that are not declarations, would receive comments", node=c, mod=mod, nontrivial=False)
                if r == ("lex", "get_doxygen_after"):
                    guarded = _under_none_test(cfg, n, "doxygen")
                    ctx.ob("R11.3", f"parser:CxxParser.{fname}|get_doxygen_after()", fname in ("_parse_field", "_parse_enumerator_list") and guarded,
                           msg="the trailing-comment scan is used outside the field/enumerator parsers or without the `doxygen is None` guard (a leading block must win)", node=c, mod=mod)
    # ---------------------------------------------------------------- R11.6
    # The trailing scan looks at what is left of the current line.  It finds the comment
    # that trails the declaration only if the declaration's own tokens have been consumed:
    # a token-consuming call between the lookup and the construction of the documented
    # object means the rest of the declaration (initializer, value) can push the comment
    # onto a later line, where the scan does not look and the next declaration picks it up.
    ctx.rule("R11.6", "the trailing-doc lookup comes after the declaration's last own token: no consuming call between it and the documented object", minimum=2)
    mayc = pm.may_consume()
    for fname, fn in pm.methods.items():
        cfg = pm.cfg(fname)
        for n in cfg.nodes:
            for c, r in pm.node_calls(fname, n):
                if r != ("lex", "get_doxygen_after"):
                    continue
                tgt = [t.id for t in getattr(n.stmt, "targets", []) if isinstance(t, ast.Name)]
                var = tgt[0] if tgt else "doxygen"
                # forward walk until the variable is consumed by a documented object (or rebound)
                offenders = []
                seen = set()
                st = [s for s, lab in n.succ if lab != "exc"]
                while st:
                    x = st.pop()
                    if x.id in seen:
                        continue
                    seen.add(x.id)
                    if x.kind == "stmt" and isinstance(x.stmt, ast.Raise):
                        continue  # an error path documents nothing
                    calls = pm.node_calls(fname, x)
                    uses = any(_ctor_consumes(cc, var, doc_classes) for cc, _ in calls)
                    for cc, rr in calls:
                        if rr is not None and ((rr[0] == "lex" and rr[1] in LEX_CONSUME) or (rr[0] == "self" and rr[1] in mayc)):
                            offenders.append(cc)
                    if uses or x is n:
                        continue
                    if x.kind == "stmt" and isinstance(x.stmt, ast.Assign) and any(isinstance(t, ast.Name) and t.id == var for t in x.stmt.targets):
                        continue
                    st.extend(s for s, lab in x.succ if lab != "exc")
                uniq = sorted({short(o, 40) for o in offenders})
                ctx.ob("R11.6", f"parser:CxxParser.{fname}|tokens consumed after get_doxygen_after()", not uniq,
                       msg=f"{fname} keeps consuming the declaration's tokens after the trailing-doc lookup ({', '.join(uniq[:4])}): a comment that trails the declaration on a later line than the lookup point is missed and falls to the next declaration",
                       node=c, mod=mod)
    # aliases of the getters are only called where they are bound (parse binds get_doxygen locally) - covered by resolve()

    # ---------------------------------------------------------------- R11.4
    ctx.rule("R11.4", "_extract_comments: exactly the four doc prefixes; the accumulator is only extended", minimum=2)
    ex = lex.func("LexerTokenStream._extract_comments")
    prefixes = set()
    for c in walk_local(ex):
        if isinstance(c, ast.Call) and isinstance(c.func, ast.Attribute) and c.func.attr == "startswith" and c.args:
            a = c.args[0]
            elts = a.elts if isinstance(a, ast.Tuple) else [a]
            for e in elts:
                if isinstance(e, ast.Constant) and isinstance(e.value, str):
                    prefixes.add(e.value)
    ctx.ob("R11.4", "lexer:LexerTokenStream._extract_comments|prefix set", prefixes == DOC_PREFIXES,
           msg=f"documentation prefixes are {sorted(prefixes)}, expected {sorted(DOC_PREFIXES)}", node=ex, mod=lex, nontrivial=False)
    loops = [l for l in walk_local(ex) if isinstance(l, ast.For)]
    acc = None
    for st in ex.body:
        if isinstance(st, (ast.Assign, ast.AnnAssign)) and isinstance(getattr(st, "value", None), ast.List):
            t = st.targets[0] if isinstance(st, ast.Assign) else st.target
            if isinstance(t, ast.Name):
                acc = t.id
    rebound = []
    if acc and loops:
        for l in loops:
            for st in ast.walk(l):
                if isinstance(st, ast.Assign) and any(isinstance(t, ast.Name) and t.id == acc for t in st.targets):
                    rebound.append(st)
                # anything but append / extend / += shrinks or reorders what was collected so far
                if isinstance(st, ast.Call) and isinstance(st.func, ast.Attribute) and isinstance(st.func.value, ast.Name) and st.func.value.id == acc and st.func.attr not in ("append", "extend"):
                    rebound.append(st)
                if isinstance(st, ast.Delete) and any(acc in {x.id for x in ast.walk(t) if isinstance(x, ast.Name)} for t in st.targets):
                    rebound.append(st)
                if isinstance(st, ast.Assign) and any(isinstance(t, ast.Subscript) and isinstance(t.value, ast.Name) and t.value.id == acc for t in st.targets):
                    rebound.append(st)
    ctx.ob("R11.4", "lexer:LexerTokenStream._extract_comments|accumulator only extended", acc is not None and not rebound,
           msg=f"`{short(rebound[0]) if rebound else ''}` rebinds, clears or edits the list of doc lines inside the loop: lines collected from earlier comments of the same block are lost", node=rebound[0] if rebound else ex, mod=lex)

    # ---------------------------------------------------------------- R11.5
    ctx.rule("R11.5", "comment scans: every comment token recorded, NEWLINE clears the leading scan, real tokens are kept", minimum=5)
    # the leading scan, per class of token (one iteration of the loop that empties the front of the buffer)
    from ..scanloop import leading_walks, REPRESENTATIVES as _REPS
    gd = lex.func("LexerTokenStream.get_doxygen")
    Fts = ctx.repo.folder("lexer", "TokenStream")
    consts_ = {}
    for k_ in ("_discard_types", "_discard_types_except_newline"):
        if Fts.has(k_):
            consts_[f"self.{k_}"] = tuple(sorted(Fts.get(k_)))
    lws = leading_walks(lex, consts=consts_)
    lby: Dict[str, list] = {}
    for w in lws:
        lby.setdefault(w.cls, []).append(w)
    ctx.extra["leading_scan_walks"] = {k: sorted({(w.popped, w.outcome, w.recorded, w.cleared, w.pushed_back) for w in v}) for k, v in lby.items()}
    for cname, v in sorted(lby.items()):
        ttype, value = _REPS[cname]
        if ttype in ("COMMENT_SINGLELINE", "COMMENT_MULTILINE"):
            bad = [w for w in v if not (w.popped and w.recorded and not w.cleared and w.outcome == "continue")]
            ctx.ob("R11.5", f"lexer:LexerTokenStream.get_doxygen|{cname} recorded, scan goes on", not bad,
                   msg=f"the leading scan does not record a {cname} and go on (tests at lines {bad[0].trail if bad else ()}): a comment in front of a declaration is lost, detaches what was collected, or stops the scan", node=gd, mod=lex)
        elif ttype == "NEWLINE":
            bad = [w for w in v if not (w.popped and w.cleared and w.outcome == "continue")]
            ctx.ob("R11.5", "lexer:LexerTokenStream.get_doxygen|blank line detaches", not bad,
                   msg="a NEWLINE token no longer clears the pending comments: a detached block attaches across a blank line", node=gd, mod=lex)
        elif ttype == "WHITESPACE":
            bad = [w for w in v if w.cleared or w.recorded or w.outcome != "continue"]
            ctx.ob("R11.5", "lexer:LexerTokenStream.get_doxygen|blanks change nothing", not bad,
                   msg="a WHITESPACE token clears or joins the pending comments, or stops the scan", node=gd, mod=lex, nontrivial=False)
        else:
            bad = [w for w in v if w.recorded or w.cleared or w.outcome != "leave" or (w.popped and not w.pushed_back)]
            ctx.ob("R11.5", f"lexer:LexerTokenStream.get_doxygen|{cname} stays in the buffer and ends the scan", not bad,
                   msg=f"the first real token is not left (or put back) at the front of the buffer, or the scan goes past it (tests at lines {bad[0].trail if bad else ()})", node=gd, mod=lex)
    ga = lex.func("LexerTokenStream.get_doxygen_after")
    from ..scanloop import walks, REPRESENTATIVES
    ws, _, _ = walks(lex)
    by: Dict[str, list] = {}
    for w in ws:
        by.setdefault(w.cls, []).append(w)
    ctx.extra["trailing_scan_walks"] = {k: sorted({(w.outcome, w.recorded, w.kept) for w in v}) for k, v in by.items()}
    for cname, v in sorted(by.items()):
        ttype, value = REPRESENTATIVES[cname]
        if ttype == "NEWLINE":
            bad = [w for w in v if w.outcome != "leave"]
            ctx.ob("R11.5", "lexer:LexerTokenStream.get_doxygen_after|a line end stops the scan", not bad,
                   msg="the trailing scan continues past a NEWLINE token: a doc comment on a following line is attributed to the finished declaration", node=ga, mod=lex)
        elif cname.startswith("doc"):
            bad = [w for w in v if not w.recorded]
            ctx.ob("R11.5", f"lexer:LexerTokenStream.get_doxygen_after|{cname} recorded", not bad,
                   msg=f"the trailing scan can pass a {cname} without recording it (tests at lines {bad[0].trail if bad else ()}): the trailing documentation is lost", node=ga, mod=lex)
        elif cname.startswith("plain"):
            bad = [w for w in v if w.outcome == "continue" and not w.recorded]
            ctx.ob("R11.5", f"lexer:LexerTokenStream.get_doxygen_after|{cname} recorded or ends the scan", not bad,
                   msg=f"the trailing scan continues past a {cname} without recording it", node=ga, mod=lex, nontrivial=False)
        elif cname.startswith("real"):
            bad = [w for w in v if not w.kept]
            ctx.ob("R11.5", f"lexer:LexerTokenStream.get_doxygen_after|{cname} re-queued", not bad,
                   msg=f"the trailing scan can drop a {cname}", node=ga, mod=lex)
    from ..scanloop import kept_restored
    ctx.ob("R11.5", "lexer:LexerTokenStream.get_doxygen_after|rest of the buffer re-queued", kept_restored(ga),
           msg="the trailing scan does not put the unscanned rest of the buffer back", node=ga, mod=lex, nontrivial=False)

    # a plain comment inside the line changes nothing: the scan goes on to the doc comment that follows on the same line
    for cname, v in sorted(by.items()):
        ttype, value = REPRESENTATIVES[cname]
        if cname.startswith("plain") and not value.endswith("\n"):
            bad = [w for w in v if w.outcome != "continue"]
            ctx.ob("R11.5", f"lexer:LexerTokenStream.get_doxygen_after|{cname} does not stop the scan", not bad,
                   msg=f"the trailing scan stops at a {cname} (tests at lines {bad[0].trail if bad else ()}): in 'int x; /* note */ ///< doc' the documentation after the plain comment is no longer found for x and falls to the next declaration",
                   node=ga, mod=lex)

    # ---------------------------------------------------------------- R11.7
    ctx.rule("R11.7", "the trailing scan crosses a line end only through a documentation comment", minimum=2)
    for cname, v in sorted(by.items()):
        ttype, value = REPRESENTATIVES[cname]
        if cname.startswith("plain") and value.endswith("\n"):
            bad = [w for w in v if w.outcome == "continue"]
            ctx.ob("R11.7", f"lexer:LexerTokenStream.get_doxygen_after|{cname}", not bad,
                   msg=f"comment tokens carry their line end, so after a {cname} the trailing scan goes on into the next line (tests at lines {bad[0].trail if bad else ()}): the doc block above the NEXT declaration is attributed to the finished one, which a non-documentation comment must never cause",
                   node=ga, mod=lex)
    first = ga.body[0] if not (isinstance(ga.body[0], ast.Expr) and isinstance(ga.body[0].value, ast.Constant)) else ga.body[1]
    early = [s for s in walk_local(ga) if isinstance(s, ast.If) and norm(s.test) in ("not tokbuf", "not self.tokbuf")]
    ctx.ob("R11.5", "lexer:LexerTokenStream.get_doxygen_after|nothing after a line end", bool(early), msg="the trailing scan no longer stops when the statement is followed directly by a line end", node=ga, mod=lex, nontrivial=False)


# ---------------------------------------------------------------------------


def _ctor_consumes(c: ast.Call, var: str, doc_classes: Set[str]) -> bool:
    if not (isinstance(c.func, ast.Name) and c.func.id in doc_classes):
        return False
    for a in c.args:
        if isinstance(a, ast.Name) and a.id == var:
            return True
    for k in c.keywords:
        if isinstance(k.value, ast.Name) and k.value.id == var:
            return True
    return False


def _passes(pm: ParserModel, c: ast.Call, callee: str, var: str) -> bool:
    """Does call c pass `var` in the position of the callee's doxygen parameter?"""
    fn = pm.fn(callee)
    names = [a.arg for a in fn.args.args[1:]]
    for i, a in enumerate(c.args):
        if isinstance(a, ast.Name) and a.id == var and i < len(names) and names[i] == "doxygen":
            return True
    for k in c.keywords:
        if k.arg == "doxygen" and isinstance(k.value, ast.Name) and k.value.id == var:
            return True
    return False


def _apply(pm: ParserModel, fname: str, n: Node, f: Dict[str, int], may, doc_classes, vars_) -> Dict[str, int]:
    for c, r in pm.node_calls(fname, n):
        for v in vars_:
            hit = _ctor_consumes(c, v, doc_classes) or (r is not None and r[0] == "self" and may.get(r[1]) and _passes(pm, c, r[1], v))
            if hit:
                f[v] = min(2, f.get(v, 0) + 1)
    st = n.stmt
    if n.kind == "stmt" and isinstance(st, ast.Assign):
        for t in st.targets:
            if isinstance(t, ast.Name) and t.id in vars_:
                f[t.id] = 0
    return f


def _count_flow(pm: ParserModel, fname: str, cfg: CFG, may, doc_classes, ncwf: Set[str], vars_: Set[str]):
    def transfer(n: Node, f):
        return tuple(sorted(_apply(pm, fname, n, dict(f), may, doc_classes, vars_).items()))

    def edge(n: Node, lab, s, f):
        # a test whose last operand is a call that never consumes when it returns False
        if lab == "F" and n.kind == "test" and n.cond is not None:
            d = dict(f)
            for c, r in pm.node_calls(fname, n):
                if r and r[0] == "self" and r[1] in ncwf:
                    for v in vars_:
                        if _passes(pm, c, r[1], v):
                            d[v] = max(0, d.get(v, 0) - 1)
            return tuple(sorted(d.items()))
        return f

    def join(a, b):
        da, db = dict(a), dict(b)
        return tuple(sorted({k: max(da.get(k, 0), db.get(k, 0)) for k in set(da) | set(db)}.items()))

    IN = solve_forward(cfg, tuple(), transfer, join, edge=edge, skip_exc=True)
    return {i: dict(f) for i, f in IN.items()}


def _under_none_test(cfg: CFG, n: Node, var: str) -> bool:
    dom = cfg.dominators().get(n.id, set())
    for i in dom:
        t = cfg.nodes[i]
        c = t.cond
        if t.kind == "test" and isinstance(c, ast.Compare) and isinstance(c.left, ast.Name) and c.left.id == var and len(c.ops) == 1 and isinstance(c.ops[0], ast.Is) and isinstance(c.comparators[0], ast.Constant) and c.comparators[0].value is None:
            # n must be on the T side: every path t -> n leaves t through T
            tsucc = [s for s, lab in t.succ if lab == "F"]
            if not any(s is n or cfg.paths_avoiding(s, n, lambda x: x is t) or s is n for s in tsucc):
                return True
    return False


def _reaches_without(cfg: CFG, start: Node, stops: List[Node]) -> bool:
    """From start, can a loop head / exit be reached without passing a stop node?"""
    seen = set()
    st = [start]
    while st:
        x = st.pop()
        if x.id in seen or x in stops:
            continue
        seen.add(x.id)
        if x is cfg.exit or (x.kind == "test" and x.loop is not None):
            return True
        st.extend(s for s, lab in x.succ if lab != "exc")
    return False


def _parse_loop_resets(pm: ParserModel, cfg: CFG) -> Tuple[bool, str]:
    """After the dispatch call `fn(tok, doxygen)` the variable is rebound to None unless
    `tok.type in _keep_doxygen`; after _parse_declarations it is always rebound to None."""
    resets = [n for n in cfg.nodes if n.kind == "stmt" and isinstance(n.stmt, ast.Assign) and any(isinstance(t, ast.Name) and t.id == "doxygen" for t in n.stmt.targets)
              and isinstance(n.stmt.value, ast.Constant) and n.stmt.value.value is None]
    acq = [n for n in cfg.nodes if n.kind == "stmt" and isinstance(n.stmt, ast.Assign) and any(isinstance(t, ast.Name) and t.id == "doxygen" for t in n.stmt.targets) and isinstance(n.stmt.value, ast.Call)]
    disp = []
    decl = []
    for n in cfg.nodes:
        for c in n.calls():
            if isinstance(c.func, ast.Name) and any(isinstance(a, ast.Name) and a.id == "doxygen" for a in c.args):
                disp.append(n)
            r = pm.resolve("parse", c)
            if r == ("self", "_parse_declarations"):
                decl.append(n)
    merged = False
    if len(disp) == 1 and not decl and acq:
        # `fn = table.get(tok.type, <declarations parser>)`: one call serves both; the fallback runs for the token types
        # that are not table keys, so "always reset after the fallback" holds iff no kept type is missing from the table
        fn_parse = pm.fn("parse")
        default_decl = False
        for x in walk_local(fn_parse):
            if isinstance(x, ast.Call) and isinstance(x.func, ast.Attribute) and x.func.attr == "get" and len(x.args) == 2:
                d = x.args[1]
                target = None
                if isinstance(d, ast.Attribute) and isinstance(d.value, ast.Name) and d.value.id == "self":
                    target = d.attr
                elif isinstance(d, ast.Name):
                    for y in walk_local(fn_parse):
                        if isinstance(y, ast.Assign) and any(isinstance(t, ast.Name) and t.id == d.id for t in y.targets) and isinstance(y.value, ast.Attribute) and isinstance(y.value.value, ast.Name) and y.value.value.id == "self":
                            target = y.value.attr
                if target == "_parse_declarations":
                    default_decl = True
        keep = None
        for x in walk_local(fn_parse):
            if isinstance(x, (ast.Assign, ast.AnnAssign)) and any(isinstance(t, ast.Name) and t.id == "_keep_doxygen" for t in (x.targets if isinstance(x, ast.Assign) else [x.target])) and isinstance(x.value, (ast.Set, ast.Tuple, ast.List)):
                keep = {e.value for e in x.value.elts if isinstance(e, ast.Constant)}
        if not default_decl or keep is None:
            return False, "dispatch / declaration call anchors in the parse loop vanished"
        if not keep <= set(pm.dispatch):
            return False, f"token types {sorted(keep - set(pm.dispatch))} keep the pending doc text but have no handler: the declaration parsed for them would leave its doc text pending"
        merged = True
        decl = disp
    if len(disp) != 1 or len(decl) != 1 or not acq:
        return False, "dispatch / declaration call anchors in the parse loop vanished"
    loop_heads = [n for n in cfg.nodes if n.kind == "test" and n.loop is not None]
    keep_tests = [n for n in cfg.nodes if n.kind == "test" and n.cond is not None and "_keep_doxygen" in norm(n.cond)]
    # from the declaration call: every path to the next acquisition test passes a reset
    from ..booleval import UNKNOWN as _UNK, ev as _bev
    # the variable holding the looked-up handler: falsy where the declarations parser is called, a function where it is dispatched
    fn_var = None
    for c in disp[0].calls():
        if isinstance(c.func, ast.Name) and any(isinstance(a_, ast.Name) and a_.id == "doxygen" for a_ in c.args):
            fn_var = c.func.id
    for start, allow_keep in (((disp[0], True),) if merged else ((decl[0], False), (disp[0], True))):
        env_fn = {fn_var: (None if (start is decl[0] and not merged) else "<handler>")} if fn_var else {}
        seen = set()
        st = [(s, False) for s, lab in start.succ if lab != "exc"]
        while st:
            x, kept = st.pop()
            if (x.id, kept) in seen or x in resets:
                continue
            seen.add((x.id, kept))
            if x in loop_heads or x is cfg.exit:
                if not (allow_keep and kept):
                    return False, f"after `{short(start.stmt)}` the loop can continue with the old doc text pending"
                continue
            decided = _bev(x.cond, dict(env_fn), lambda e_: None) if (x.kind == "test" and x.cond is not None and env_fn) else _UNK
            for s, lab in x.succ:
                if lab == "exc":
                    continue
                if decided is not _UNK and lab in ("T", "F") and bool(decided) != (lab == "T"):
                    continue  # not taken with this handler value
                k = kept
                if x in keep_tests:
                    # on which edge is the token type one of the kept ones?
                    if _membership_holds(x.cond, lab == "T"):
                        k = True
                st.append((s, k))
    return True, ""


def _membership_holds(cond: ast.AST, truth: bool) -> bool:
    """does `cond == truth` imply `tok.type in _keep_doxygen`?"""
    if isinstance(cond, ast.UnaryOp) and isinstance(cond.op, ast.Not):
        return _membership_holds(cond.operand, not truth)
    if isinstance(cond, ast.Compare) and len(cond.ops) == 1 and "_keep_doxygen" in norm(cond.comparators[0]):
        if isinstance(cond.ops[0], ast.In):
            return truth
        if isinstance(cond.ops[0], ast.NotIn):
            return not truth
    if isinstance(cond, ast.BoolOp):
        conj = isinstance(cond.op, ast.And)
        if conj == truth:
            return any(_membership_holds(v, truth) for v in cond.values)
        return all(_membership_holds(v, truth) for v in cond.values)
    return False
