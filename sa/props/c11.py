"""C11 -- documentation comments attach to the declaration they adjoin, and
only to it."""
from __future__ import annotations

import ast
from typing import Any, Dict, List, Optional, Set, Tuple

from ..cfg import CFG, Node, solve_forward
from ..kinds import node_containing
from ..model import AnalysisError, Unfoldable, attr_chain, norm, short, walk_local
from ..pmodel import LEX_CONSUME, ParserModel
from ..report import Ctx

LEVEL = "linear-use / who-may-call / must-pass-through rules on the pending doc text"
EXPLANATION = (
    "R11.1 a doc text (a `doxygen` parameter or the result of get_doxygen*) flows into at most one consuming construction per path unless "
    "rebound in between (call-graph summaries, return-correlated). R11.2 in parse() the pending text is reset after every dispatch "
    "unless the token type is in _keep_doxygen, which must be a subset of the attribute-introducing token types whose handlers ignore "
    "their doxygen parameter. R11.3 get_doxygen() is called only by the top-level loop and the enumerator loop; get_doxygen_after() only "
    "under `doxygen is None`, only in the field/variable and enumerator parsers. R11.4 _extract_comments accepts exactly the four doc "
    "prefixes and only extends its accumulator. R11.5 in both scans every comment token is recorded (so a plain comment still delimits), "
    "a NEWLINE clears the leading scan, a real token is pushed back and ends it; the trailing scan re-queues every non-comment token. "
    "Not decided: the exact text of the doc string."
)

DOC_PREFIXES = {"///", "//!", "/**", "/*!"}


def doc_params(fn: ast.FunctionDef) -> List[str]:
    return [a.arg for a in fn.args.args + fn.args.kwonlyargs if a.arg == "doxygen"]


def run(ctx: Ctx) -> None:
    pm = ParserModel(ctx.repo)
    mod = pm.mod
    lex = ctx.repo.mod("lexer")
    types = ctx.repo.mod("types")
    ctx.trusted = ["dataclass field tables of types.py (which classes carry `doxygen`)"]
    ctx.undecided = ["the exact text of the attached comment (string values)"]
    doc_classes = set()
    for cname, cnode in types.classes():
        for st in cnode.body:
            if isinstance(st, ast.AnnAssign) and isinstance(st.target, ast.Name) and st.target.id == "doxygen":
                doc_classes.add(cname)
    # inherited (Method(Function))
    changed = True
    while changed:
        changed = False
        for cname, cnode in types.classes():
            if cname not in doc_classes and any(isinstance(b, ast.Name) and b.id in doc_classes for b in cnode.bases):
                doc_classes.add(cname)
                changed = True
    if len(doc_classes) < 10:
        raise AnalysisError("anchor vanished: dataclasses with a doxygen field")

    # ---------------------------------------------------------------- consumption summaries
    # may_consume[m] : m's doxygen parameter can flow into a doc-carrying constructor (directly or via callees)
    direct: Dict[str, bool] = {}
    for fname, fn in pm.methods.items():
        if not doc_params(fn):
            continue
        direct[fname] = any(_ctor_consumes(c, "doxygen", doc_classes) for c in walk_local(fn) if isinstance(c, ast.Call))
    may = dict(direct)
    changed = True
    while changed:
        changed = False
        for fname, fn in pm.methods.items():
            if fname not in may or may[fname]:
                continue
            for c in walk_local(fn):
                if isinstance(c, ast.Call):
                    r = pm.resolve(fname, c)
                    if r and r[0] == "self" and may.get(r[1]) and _passes(pm, c, r[1], "doxygen"):
                        may[fname] = True
                        changed = True
    # falsy-return summary: methods that never consume on a path that returns False
    no_consume_when_false: Set[str] = set()
    for fname in may:
        fn = pm.fn(fname)
        cfg = pm.cfg(fname)
        IN = _count_flow(pm, fname, cfg, may, doc_classes, no_consume_when_false, {"doxygen"})
        rets_false = [n for n in cfg.nodes if n.kind == "stmt" and isinstance(n.stmt, ast.Return) and isinstance(n.stmt.value, ast.Constant) and n.stmt.value.value is False]
        if rets_false and all(IN.get(n.id, {}).get("doxygen", 0) == 0 for n in rets_false):
            no_consume_when_false.add(fname)

    # ---------------------------------------------------------------- R11.1
    ctx.rule("R11.1", "a doc text is consumed at most once per path unless rebound in between", minimum=15)
    for fname, fn in pm.methods.items():
        if fname == "parse":
            continue
        vars_ = set(doc_params(fn))
        for st in walk_local(fn):
            if isinstance(st, ast.Assign) and isinstance(st.value, ast.Call):
                r = pm.resolve(fname, st.value)
                if r and r[0] == "lex" and r[1] in ("get_doxygen", "get_doxygen_after"):
                    for t in st.targets:
                        if isinstance(t, ast.Name):
                            vars_.add(t.id)
        if not vars_:
            continue
        cfg = pm.cfg(fname)
        IN = _count_flow(pm, fname, cfg, may, doc_classes, no_consume_when_false, vars_)
        worst = {}
        site = {}
        for n in cfg.nodes:
            if n.id not in IN:
                continue
            out = _apply(pm, fname, n, dict(IN[n.id]), may, doc_classes, vars_)
            for v, k in out.items():
                if k >= 2 and worst.get(v, 0) < 2:
                    worst[v] = k
                    site[v] = n
        for v in sorted(vars_):
            ctx.ob("R11.1", f"parser:CxxParser.{fname}|{v}", worst.get(v, 0) < 2,
                   msg=f"`{v}` can be handed to two consuming constructions on one path (second at `{short(site[v].stmt) if v in site else ''}`): one comment would be attributed to two declarations",
                   node=site[v].stmt if v in site else fn, mod=mod)

    # ---------------------------------------------------------------- R11.2
    ctx.rule("R11.2", "parse(): pending doc text reset after every dispatch except for attribute-introducing tokens whose handlers ignore it", minimum=4)
    parse = pm.fn("parse")
    attr_start = set(ctx.repo.folder("parser", "CxxParser").get("_attribute_start_tokens"))
    walks = _dispatch_walks(ctx, pm)
    kept = {t: [w for w in ws if not w[1]] for t, ws in walks.items()}
    kept = {t: ws for t, ws in kept.items() if ws}
    stray = sorted(t for t in kept if t != OTHER and t not in attr_start)
    ctx.ob("R11.2", "parser:CxxParser.parse|_keep_doxygen is a set of attribute introducers", not stray,
           msg=f"after the handlers of {stray} the loop continues with the pending doc text although these token types do not introduce an attribute: a doc comment above such a construct leaks to the next declaration",
           node=parse, mod=mod, detail=f"{len(walks)} token classes walked; kept after {sorted(kept)}")
    for k in sorted(t for t in kept if t != OTHER):
        handlers = sorted({h for called, _ in kept[k] for h in called})
        ok = bool(handlers) and "<lambda>" not in handlers and "_parse_declarations" not in handlers
        if ok:
            for h in handlers:
                hf = pm.fn(h)
                params = [a_.arg for a_ in hf.args.args]
                dparam = params[2] if len(params) > 2 else None
                uses = [x for x in walk_local(hf) if isinstance(x, ast.Name) and x.id == dparam and isinstance(x.ctx, ast.Load)]
                ok = ok and not uses
        ctx.ob("R11.2", f"parser:CxxParser.parse|handler of kept type {k} ignores doxygen", ok,
               msg=f"for a token of type {k} the pending doc text is handed to {handlers or 'no dedicated handler'} and also kept for the next declaration (double attribution)", node=parse, mod=mod, nontrivial=False)
    ok = OTHER not in kept and all(ws for ws in walks.values())
    ctx.ob("R11.2", "parser:CxxParser.parse|reset after dispatch", ok,
           msg="after the declarations parser the loop can continue with the old doc text pending: the comment is attributed to the next declaration as well" if OTHER in kept else
               f"no complete path through one iteration of the loop for {sorted(t for t, ws in walks.items() if not ws)}", node=parse, mod=mod)

    # ---------------------------------------------------------------- R11.3
    ctx.rule("R11.3", "who may ask for doc text: get_doxygen in parse/_parse_enumerator_list; get_doxygen_after only under `doxygen is None` in the field and enumerator parsers", minimum=4)
    for fname, fn in pm.methods.items():
        cfg = pm.cfg(fname)
        for n in cfg.nodes:
            for c, r in pm.node_calls(fname, n):
                if r == ("lex", "get_doxygen"):
                    ctx.ob("R11.3", f"parser:CxxParser.{fname}|get_doxygen()", fname in ("parse", "_parse_enumerator_list"),
                           msg=f"{fname} fetches a leading doc block itself: declarators other than the first, or constructs that are not declarations, would receive comments", node=c, mod=mod, nontrivial=False)
                if r == ("lex", "get_doxygen_after"):
                    guarded = _under_none_test(cfg, n, "doxygen")
                    ctx.ob("R11.3", f"parser:CxxParser.{fname}|get_doxygen_after()", fname in ("_parse_field", "_parse_enumerator_list") and guarded,
                           msg="the trailing-comment scan is used outside the field/enumerator parsers or without the `doxygen is None` guard (a leading block must win)", node=c, mod=mod)
    # ---------------------------------------------------------------- R11.6
    # The trailing scan looks at what is left of the current line.  It finds the comment
    # that trails the declaration only if the declaration's own tokens have been consumed:
    # a token-consuming call between the lookup and the construction of the documented
    # object means the rest of the declaration (initializer, value) can push the comment
    # onto a later line, where the scan does not look and the next declaration picks it up.
    ctx.rule("R11.6", "the trailing-doc lookup comes after the declaration's last own token: no consuming call between it and the documented object", minimum=2)
    mayc = pm.may_consume()
    for fname, fn in pm.methods.items():
        cfg = pm.cfg(fname)
        for n in cfg.nodes:
            for c, r in pm.node_calls(fname, n):
                if r != ("lex", "get_doxygen_after"):
                    continue
                tgt = [t.id for t in getattr(n.stmt, "targets", []) if isinstance(t, ast.Name)]
                var = tgt[0] if tgt else "doxygen"
                # forward walk until the variable is consumed by a documented object (or rebound)
                offenders = []
                seen = set()
                st = [s for s, lab in n.succ if lab != "exc"]
                while st:
                    x = st.pop()
                    if x.id in seen:
                        continue
                    seen.add(x.id)
                    if x.kind == "stmt" and isinstance(x.stmt, ast.Raise):
                        continue  # an error path documents nothing
                    calls = pm.node_calls(fname, x)
                    uses = any(_ctor_consumes(cc, var, doc_classes) for cc, _ in calls)
                    for cc, rr in calls:
                        if rr is not None and ((rr[0] == "lex" and rr[1] in LEX_CONSUME) or (rr[0] == "self" and rr[1] in mayc)):
                            offenders.append(cc)
                    if uses or x is n:
                        continue
                    if x.kind == "stmt" and isinstance(x.stmt, ast.Assign) and any(isinstance(t, ast.Name) and t.id == var for t in x.stmt.targets):
                        continue
                    st.extend(s for s, lab in x.succ if lab != "exc")
                uniq = sorted({short(o, 40) for o in offenders})
                ctx.ob("R11.6", f"parser:CxxParser.{fname}|tokens consumed after get_doxygen_after()", not uniq,
                       msg=f"{fname} keeps consuming the declaration's tokens after the trailing-doc lookup ({', '.join(uniq[:4])}): a comment that trails the declaration on a later line than the lookup point is missed and falls to the next declaration",
                       node=c, mod=mod)
    # ... and before anything beyond the declaration is consumed: fetching the separator (',' ';' '}') discards the
    # comments in front of it, so a lookup placed after it finds nothing (the last enumerator loses its comment)
    from ..typefacts import TypeFacts
    SEPS = {",", ";", "}"}
    for fname, fn in pm.methods.items():
        cfg = pm.cfg(fname)
        looks = [n for n in cfg.nodes for c, r in pm.node_calls(fname, n) if r == ("lex", "get_doxygen_after")]
        if not looks:
            continue
        tf = TypeFacts(cfg, resolve=lambda c, _f=fname: pm.resolve(_f, c))
        for n in looks:
            offenders = []
            seen = set()
            st = [p_ for p_, lab in n.pred if lab != "exc"]
            while st:
                x = st.pop()
                if x.id in seen or x is cfg.entry:
                    continue
                seen.add(x.id)
                calls = pm.node_calls(fname, x)
                if any(r == ("lex", "get_doxygen") for _, r in calls):
                    continue  # the start of this declaration
                for cc, rr in calls:
                    if rr is None or not ((rr[0] == "lex" and rr[1] in LEX_CONSUME) or rr == ("self", "_next_token_must_be")):
                        continue
                    asked = {a.value for a in cc.args if isinstance(a, ast.Constant) and isinstance(a.value, str)} & SEPS
                    if not asked:
                        continue
                    tv = x.stmt.targets[0].id if isinstance(x.stmt, ast.Assign) and len(x.stmt.targets) == 1 and isinstance(x.stmt.targets[0], ast.Name) and x.stmt.value is cc else None
                    if tv is not None:
                        k, S = tf.at(n, tv)
                        # the token that call returned is known not to be a separator where the lookup happens
                        if (k == "in" and not (set(S) & SEPS)) or (k == "notin" and asked <= set(S)):
                            continue
                    offenders.append(cc)
                st.extend(p_ for p_, lab in x.pred if lab != "exc")
            uniq = sorted({short(o, 50) for o in offenders})
            ctx.ob("R11.6", f"parser:CxxParser.{fname}|no separator consumed before get_doxygen_after()", not uniq,
                   msg=f"{fname} consumes the token that ends the declaration ({', '.join(uniq[:3])}) before it looks for the trailing comment: fetching that token discards the comment, so a declaration that is "
                       "followed by the closing brace on the next line loses its same-line documentation", node=n.stmt, mod=mod)
    # once a body has been skipped the declaration is over: a token accessor called after that - even one that "only
    # looks", like token_if(';') - fetches the next real token and throws away the comments in front of it, i.e. the doc
    # block of the next declaration
    for fname, fn in pm.methods.items():
        if fname == "_discard_ctor_initializer":
            continue  # there '{' also opens a braced member initializer; that the body skip is followed by `return` is R13.6
        cfg = pm.cfg(fname)
        for n in cfg.nodes:
            for c, r in pm.node_calls(fname, n):
                if r != ("self", "_discard_contents") or not (c.args and isinstance(c.args[0], ast.Constant) and c.args[0].value == "{"):
                    continue
                late = []
                seen = set()
                st = [s_ for s_, lab in n.succ if lab != "exc"]
                while st:
                    x = st.pop()
                    if x.id in seen or x is cfg.exit:
                        continue
                    seen.add(x.id)
                    if x.kind == "test" and x.loop is not None:
                        continue  # back in a loop of the caller's making: the next element is its own business
                    for cc, rr in pm.node_calls(fname, x):
                        if rr is not None and rr[0] == "lex" and (rr[1] in LEX_CONSUME or rr[1].startswith("token")):
                            late.append(short(cc, 40))
                    st.extend(s_ for s_, lab in x.succ if lab != "exc")
                ctx.ob("R11.6", f"parser:CxxParser.{fname}|nothing is fetched after the body has been skipped #{_nth_call(pm, fname, c)}", not late,
                       msg=f"after the body is skipped {fname} calls {sorted(set(late))[:3]}: the accessor fetches the next real token and drops the comments before it - the documentation of the declaration that follows a function body is lost",
                       node=c, mod=mod)
    # aliases of the getters are only called where they are bound (parse binds get_doxygen locally) - covered by resolve()

    # ---------------------------------------------------------------- R11.4
    ctx.rule("R11.4", "_extract_comments: exactly the four doc prefixes; the accumulator is only extended", minimum=2)
    ex = lex.func("LexerTokenStream._extract_comments")
    prefixes = set()
    for c in walk_local(ex):
        if isinstance(c, ast.Call) and isinstance(c.func, ast.Attribute) and c.func.attr == "startswith" and c.args:
            a = c.args[0]
            elts = a.elts if isinstance(a, ast.Tuple) else [a]
            for e in elts:
                if isinstance(e, ast.Constant) and isinstance(e.value, str):
                    prefixes.add(e.value)
    ctx.ob("R11.4", "lexer:LexerTokenStream._extract_comments|prefix set", prefixes == DOC_PREFIXES,
           msg=f"documentation prefixes are {sorted(prefixes)}, expected {sorted(DOC_PREFIXES)}", node=ex, mod=lex, nontrivial=False)
    loops = [l for l in walk_local(ex) if isinstance(l, ast.For)]
    acc = None
    for st in ex.body:
        if isinstance(st, (ast.Assign, ast.AnnAssign)) and isinstance(getattr(st, "value", None), ast.List):
            t = st.targets[0] if isinstance(st, ast.Assign) else st.target
            if isinstance(t, ast.Name):
                acc = t.id
    rebound = []
    if acc and loops:
        for l in loops:
            for st in ast.walk(l):
                if isinstance(st, ast.Assign) and any(isinstance(t, ast.Name) and t.id == acc for t in st.targets):
                    rebound.append(st)
                # anything but append / extend / += shrinks or reorders what was collected so far
                if isinstance(st, ast.Call) and isinstance(st.func, ast.Attribute) and isinstance(st.func.value, ast.Name) and st.func.value.id == acc and st.func.attr not in ("append", "extend"):
                    rebound.append(st)
                if isinstance(st, ast.Delete) and any(acc in {x.id for x in ast.walk(t) if isinstance(x, ast.Name)} for t in st.targets):
                    rebound.append(st)
                if isinstance(st, ast.Assign) and any(isinstance(t, ast.Subscript) and isinstance(t.value, ast.Name) and t.value.id == acc for t in st.targets):
                    rebound.append(st)
    ctx.ob("R11.4", "lexer:LexerTokenStream._extract_comments|accumulator only extended", acc is not None and not rebound,
           msg=f"`{short(rebound[0]) if rebound else ''}` rebinds, clears or edits the list of doc lines inside the loop: lines collected from earlier comments of the same block are lost", node=rebound[0] if rebound else ex, mod=lex)

    # ---------------------------------------------------------------- R11.5
    ctx.rule("R11.5", "comment scans: every comment token recorded, NEWLINE clears the leading scan, real tokens are kept", minimum=5)
    # the leading scan, per class of token (one iteration of the loop that empties the front of the buffer)
    from ..scanloop import leading_walks, REPRESENTATIVES as _REPS
    gd = lex.func("LexerTokenStream.get_doxygen")
    Fts = ctx.repo.folder("lexer", "TokenStream")
    consts_ = {}
    for k_ in ("_discard_types", "_discard_types_except_newline"):
        if Fts.has(k_):
            consts_[f"self.{k_}"] = tuple(sorted(Fts.get(k_)))
    lws = leading_walks(lex, consts=consts_)
    lby: Dict[str, list] = {}
    for w in lws:
        lby.setdefault(w.cls, []).append(w)
    ctx.extra["leading_scan_walks"] = {k: sorted({(w.popped, w.outcome, w.recorded, w.cleared, w.pushed_back) for w in v}) for k, v in lby.items()}
    for cname, v in sorted(lby.items()):
        ttype, value = _REPS[cname]
        if ttype in ("COMMENT_SINGLELINE", "COMMENT_MULTILINE"):
            bad = [w for w in v if not (w.popped and w.recorded and not w.cleared and w.outcome == "continue")]
            ctx.ob("R11.5", f"lexer:LexerTokenStream.get_doxygen|{cname} recorded, scan goes on", not bad,
                   msg=f"the leading scan does not record a {cname} and go on (tests at lines {bad[0].trail if bad else ()}): a comment in front of a declaration is lost, detaches what was collected, or stops the scan", node=gd, mod=lex)
        elif ttype == "NEWLINE":
            bad = [w for w in v if not (w.popped and w.cleared and w.outcome == "continue")]
            ctx.ob("R11.5", "lexer:LexerTokenStream.get_doxygen|blank line detaches", not bad,
                   msg="a NEWLINE token no longer clears the pending comments: a detached block attaches across a blank line", node=gd, mod=lex)
        elif ttype == "WHITESPACE":
            bad = [w for w in v if w.cleared or w.recorded or w.outcome != "continue"]
            ctx.ob("R11.5", "lexer:LexerTokenStream.get_doxygen|blanks change nothing", not bad,
                   msg="a WHITESPACE token clears or joins the pending comments, or stops the scan", node=gd, mod=lex, nontrivial=False)
        else:
            bad = [w for w in v if w.recorded or w.cleared or w.outcome != "leave" or (w.popped and not w.pushed_back)]
            ctx.ob("R11.5", f"lexer:LexerTokenStream.get_doxygen|{cname} stays in the buffer and ends the scan", not bad,
                   msg=f"the first real token is not left (or put back) at the front of the buffer, or the scan goes past it (tests at lines {bad[0].trail if bad else ()})", node=gd, mod=lex)
    ga = lex.func("LexerTokenStream.get_doxygen_after")
    from ..scanloop import walks, REPRESENTATIVES
    ws, _, _ = walks(lex)
    by: Dict[str, list] = {}
    for w in ws:
        by.setdefault(w.cls, []).append(w)
    ctx.extra["trailing_scan_walks"] = {k: sorted({(w.outcome, w.recorded, w.kept) for w in v}) for k, v in by.items()}
    for cname, v in sorted(by.items()):
        ttype, value = REPRESENTATIVES[cname]
        if ttype == "NEWLINE":
            bad = [w for w in v if w.outcome != "leave"]
            ctx.ob("R11.5", "lexer:LexerTokenStream.get_doxygen_after|a line end stops the scan", not bad,
                   msg="the trailing scan continues past a NEWLINE token: a doc comment on a following line is attributed to the finished declaration", node=ga, mod=lex)
        elif cname.startswith("doc"):
            bad = [w for w in v if not w.recorded]
            ctx.ob("R11.5", f"lexer:LexerTokenStream.get_doxygen_after|{cname} recorded", not bad,
                   msg=f"the trailing scan can pass a {cname} without recording it (tests at lines {bad[0].trail if bad else ()}): the trailing documentation is lost", node=ga, mod=lex)
        elif cname.startswith("plain"):
            bad = [w for w in v if w.outcome == "continue" and not w.recorded]
            ctx.ob("R11.5", f"lexer:LexerTokenStream.get_doxygen_after|{cname} recorded or ends the scan", not bad,
                   msg=f"the trailing scan continues past a {cname} without recording it", node=ga, mod=lex, nontrivial=False)
        elif cname.startswith("real"):
            bad = [w for w in v if not w.kept]
            ctx.ob("R11.5", f"lexer:LexerTokenStream.get_doxygen_after|{cname} re-queued", not bad,
                   msg=f"the trailing scan can drop a {cname}", node=ga, mod=lex)
    from ..scanloop import kept_restored
    ctx.ob("R11.5", "lexer:LexerTokenStream.get_doxygen_after|rest of the buffer re-queued", kept_restored(ga),
           msg="the trailing scan does not put the unscanned rest of the buffer back", node=ga, mod=lex, nontrivial=False)

    # a plain comment inside the line changes nothing: the scan goes on to the doc comment that follows on the same line
    for cname, v in sorted(by.items()):
        ttype, value = REPRESENTATIVES[cname]
        if cname.startswith("plain") and not value.endswith("\n"):
            bad = [w for w in v if w.outcome != "continue"]
            ctx.ob("R11.5", f"lexer:LexerTokenStream.get_doxygen_after|{cname} does not stop the scan", not bad,
                   msg=f"the trailing scan stops at a {cname} (tests at lines {bad[0].trail if bad else ()}): in 'int x; /* note */ ///< doc' the documentation after the plain comment is no longer found for x and falls to the next declaration",
                   node=ga, mod=lex)

    # ---------------------------------------------------------------- R11.7
    ctx.rule("R11.7", "the trailing scan crosses a line end only through a documentation comment", minimum=2)
    for cname, v in sorted(by.items()):
        ttype, value = REPRESENTATIVES[cname]
        if cname.startswith("plain") and value.endswith("\n"):
            bad = [w for w in v if w.outcome == "continue"]
            ctx.ob("R11.7", f"lexer:LexerTokenStream.get_doxygen_after|{cname}", not bad,
                   msg=f"comment tokens carry their line end, so after a {cname} the trailing scan goes on into the next line (tests at lines {bad[0].trail if bad else ()}): the doc block above the NEXT declaration is attributed to the finished one, which a non-documentation comment must never cause",
                   node=ga, mod=lex)
    first = ga.body[0] if not (isinstance(ga.body[0], ast.Expr) and isinstance(ga.body[0].value, ast.Constant)) else ga.body[1]
    early = [s for s in walk_local(ga) if isinstance(s, ast.If) and norm(s.test) in ("not tokbuf", "not self.tokbuf")]
    ctx.ob("R11.5", "lexer:LexerTokenStream.get_doxygen_after|nothing after a line end", bool(early), msg="the trailing scan no longer stops when the statement is followed directly by a line end", node=ga, mod=lex, nontrivial=False)

    # ---------------------------------------------------------------- R11.8
    # The two scans read the buffer: what they see is what the buffer fill put there.  A comment token that the fill
    # re-types, rewrites or drops (a plain comment turned into a line end detaches the doc block above it; a doc comment
    # turned into a blank is lost) never reaches them.  The fill is interpreted over every short script of raw tokens,
    # a plain line comment among them (sa/fillmodel.py): every raw token is buffered once, in order, unchanged.
    ctx.rule("R11.8", "the buffer the comment scans read holds every raw token, comments included, unchanged and in order", minimum=1)
    from .. import fillmodel as _fillmodel
    from ..lexmodel import LexModel as _LexModel
    _fillmodel.obligations(ctx, "R11.8", lex, set(_LexModel(ctx.repo).udl_start), ("keep",))


# ---------------------------------------------------------------------------


def _ctor_consumes(c: ast.Call, var: str, doc_classes: Set[str]) -> bool:
    if not (isinstance(c.func, ast.Name) and c.func.id in doc_classes):
        return False
    for a in c.args:
        if isinstance(a, ast.Name) and a.id == var:
            return True
    for k in c.keywords:
        if isinstance(k.value, ast.Name) and k.value.id == var:
            return True
    return False


def _passes(pm: ParserModel, c: ast.Call, callee: str, var: str) -> bool:
    """Does call c pass `var` in the position of the callee's doxygen parameter?"""
    fn = pm.fn(callee)
    names = [a.arg for a in fn.args.args[1:]]
    for i, a in enumerate(c.args):
        if isinstance(a, ast.Name) and a.id == var and i < len(names) and names[i] == "doxygen":
            return True
    for k in c.keywords:
        if k.arg == "doxygen" and isinstance(k.value, ast.Name) and k.value.id == var:
            return True
    return False


def _apply(pm: ParserModel, fname: str, n: Node, f: Dict[str, int], may, doc_classes, vars_) -> Dict[str, int]:
    for c, r in pm.node_calls(fname, n):
        for v in vars_:
            hit = _ctor_consumes(c, v, doc_classes) or (r is not None and r[0] == "self" and may.get(r[1]) and _passes(pm, c, r[1], v))
            if hit:
                f[v] = min(2, f.get(v, 0) + 1)
    st = n.stmt
    if n.kind == "stmt" and isinstance(st, ast.Assign):
        for t in st.targets:
            if isinstance(t, ast.Name) and t.id in vars_:
                f[t.id] = 0
    return f


def _count_flow(pm: ParserModel, fname: str, cfg: CFG, may, doc_classes, ncwf: Set[str], vars_: Set[str]):
    def transfer(n: Node, f):
        return tuple(sorted(_apply(pm, fname, n, dict(f), may, doc_classes, vars_).items()))

    def edge(n: Node, lab, s, f):
        # a test whose last operand is a call that never consumes when it returns False
        if lab == "F" and n.kind == "test" and n.cond is not None:
            d = dict(f)
            for c, r in pm.node_calls(fname, n):
                if r and r[0] == "self" and r[1] in ncwf:
                    for v in vars_:
                        if _passes(pm, c, r[1], v):
                            d[v] = max(0, d.get(v, 0) - 1)
            return tuple(sorted(d.items()))
        return f

    def join(a, b):
        da, db = dict(a), dict(b)
        return tuple(sorted({k: max(da.get(k, 0), db.get(k, 0)) for k in set(da) | set(db)}.items()))

    IN = solve_forward(cfg, tuple(), transfer, join, edge=edge, skip_exc=True)
    return {i: dict(f) for i, f in IN.items()}


def _under_none_test(cfg: CFG, n: Node, var: str) -> bool:
    dom = cfg.dominators().get(n.id, set())
    for i in dom:
        t = cfg.nodes[i]
        c = t.cond
        if t.kind == "test" and isinstance(c, ast.Compare) and isinstance(c.left, ast.Name) and c.left.id == var and len(c.ops) == 1 and isinstance(c.ops[0], ast.Is) and isinstance(c.comparators[0], ast.Constant) and c.comparators[0].value is None:
            # n must be on the T side: every path t -> n leaves t through T
            tsucc = [s for s, lab in t.succ if lab == "F"]
            if not any(s is n or cfg.paths_avoiding(s, n, lambda x: x is t) or s is n for s in tsucc):
                return True
    return False


def _reaches_without(cfg: CFG, start: Node, stops: List[Node]) -> bool:
    """From start, can a loop head / exit be reached without passing a stop node?"""
    seen = set()
    st = [start]
    while st:
        x = st.pop()
        if x.id in seen or x in stops:
            continue
        seen.add(x.id)
        if x is cfg.exit or (x.kind == "test" and x.loop is not None):
            return True
        st.extend(s for s, lab in x.succ if lab != "exc")
    return False


def _nth_call(pm: ParserModel, fname: str, call: ast.Call) -> int:
    i = 0
    for c in walk_local(pm.fn(fname)):
        if isinstance(c, ast.Call) and pm.resolve(fname, c) == ("self", "_discard_contents"):
            if c is call:
                return i
            i += 1
    return -1


OTHER = "<any other token>"


def _dispatch_walks(ctx: Ctx, pm: ParserModel) -> Dict[str, List[Tuple[Tuple[str, ...], bool]]]:
    """One iteration of the top-level loop of parse(), walked for every token type that has a dedicated handler and for
    "any other token": which handler(s) receive the pending doc text, and whether the pending text is reset before the
    next iteration.  Tests on the token type, on the looked-up handler and on local constant sets are decided."""
    from ..booleval import UNKNOWN as _UNK, ev as _bev
    from ..model import Unfoldable as _Unf
    fn = pm.fn("parse")
    cfg = pm.cfg("parse")
    folder = ctx.repo.folder("parser", "CxxParser")
    heads = [n for n in cfg.nodes if n.kind == "test" and isinstance(n.loop, ast.While)]
    if len(heads) != 1:
        raise AnalysisError("parse(): expected exactly one while loop")
    head = heads[0]
    inside = {id(x) for x in ast.walk(head.loop)}
    fetch = [n for n in cfg.nodes if n.kind == "stmt" and isinstance(n.stmt, ast.Assign) and id(n.stmt) in inside and isinstance(n.stmt.value, ast.Call)
             and pm.resolve("parse", n.stmt.value) in (("lex", "token_eof_ok"), ("lex", "token")) and len(n.stmt.targets) == 1 and isinstance(n.stmt.targets[0], ast.Name)]
    if len(fetch) != 1:
        raise AnalysisError("anchor vanished: the single token fetch of the top-level loop of parse()")
    tokv = fetch[0].stmt.targets[0].id
    getdox = [n for n in cfg.nodes if n.kind == "stmt" and isinstance(n.stmt, ast.Assign) and isinstance(n.stmt.value, ast.Call) and pm.resolve("parse", n.stmt.value) == ("lex", "get_doxygen")
              and len(n.stmt.targets) == 1 and isinstance(n.stmt.targets[0], ast.Name)]
    if not getdox:
        raise AnalysisError("anchor vanished: the pending doc text of parse() (`<var> = self.lex.get_doxygen()`)")
    doxv = getdox[0].stmt.targets[0].id
    # the dispatch table and the local constants
    table_vars = {t.id for st in walk_local(fn) if isinstance(st, (ast.Assign, ast.AnnAssign)) and getattr(st, "value", None) is pm.dispatch_node
                  for t in (st.targets if isinstance(st, ast.Assign) else [st.target]) if isinstance(t, ast.Name)}
    consts: Dict[str, Any] = {}
    ndefs: Dict[str, int] = {}
    for st in walk_local(fn):
        if isinstance(st, (ast.Assign, ast.AnnAssign, ast.AugAssign, ast.For)):
            for t in (st.targets if isinstance(st, ast.Assign) else [st.target]):
                for x in ast.walk(t):
                    if isinstance(x, ast.Name):
                        ndefs[x.id] = ndefs.get(x.id, 0) + 1
    for st in walk_local(fn):
        if isinstance(st, ast.Assign) and len(st.targets) == 1 and isinstance(st.targets[0], ast.Name) and ndefs.get(st.targets[0].id) == 1 and id(st) not in inside:
            try:
                v = folder.ev(st.value)
            except (_Unf, AnalysisError, KeyError, TypeError):
                if isinstance(st.value, ast.Attribute) and isinstance(st.value.value, ast.Name) and st.value.value.id == "self":
                    try:
                        v = folder.get(st.value.attr)
                    except Exception:
                        continue
                else:
                    continue
            if isinstance(v, (set, frozenset, tuple, list)) and all(isinstance(x, str) for x in v):
                consts[st.targets[0].id] = frozenset(v)

    def handler_of(e: ast.AST) -> Optional[str]:
        ch = pm.chain("parse", e)
        if ch and len(ch) == 2 and ch[0] == "self" and ch[1] in pm.methods:
            return ch[1]
        return None

    out: Dict[str, List[Tuple[Tuple[str, ...], bool]]] = {}
    for T in sorted(pm.dispatch) + [OTHER]:
        results: List[Tuple[Tuple[str, ...], bool]] = []
        env0: Dict[str, Any] = dict(consts)
        env0[tokv] = "<token>"

        lookups: Dict[str, Any] = {}

        def entry_for() -> Any:
            h = "handler:" + pm.dispatch[T]
            return (h,) + tuple(pm.dispatch_extra[T]) if T in pm.dispatch_extra else h

        def default_entry(d: ast.AST) -> Any:
            if isinstance(d, ast.Tuple) and d.elts:
                h0 = handler_of(d.elts[0])
                rest = [x.value if isinstance(x, ast.Constant) else _UNK for x in d.elts[1:]]
                return (("handler:" + h0) if h0 else _UNK,) + tuple(rest)
            h0 = handler_of(d)
            return ("handler:" + h0) if h0 else _UNK

        def sym(e: ast.AST) -> Optional[str]:
            if norm(e) == f"{tokv}.type":
                return "@type"
            # a lookup of the token type in the dispatch table, wherever it is written
            if isinstance(e, ast.Call) and isinstance(e.func, ast.Attribute) and e.func.attr == "get" and isinstance(e.func.value, ast.Name) and e.func.value.id in table_vars \
                    and e.args and norm(e.args[0]) == f"{tokv}.type":
                k = "@lookup:" + norm(e)
                if k not in lookups:
                    lookups[k] = entry_for() if T in pm.dispatch else (default_entry(e.args[1]) if len(e.args) == 2 else None)
                return k
            if isinstance(e, ast.Subscript) and isinstance(e.value, ast.Name) and e.value.id in table_vars and norm(e.slice) == f"{tokv}.type" and T in pm.dispatch:
                k = "@lookup:" + norm(e)
                lookups[k] = entry_for()
                return k
            return None

        env0["@type"] = T
        stack: List[Tuple[Node, Tuple[Tuple[str, Any], ...], Tuple[str, ...], bool]] = [(s_, tuple(sorted(env0.items(), key=lambda kv: kv[0])), (), False) for s_, lab in fetch[0].succ if lab != "exc"]
        seen = set()
        while stack:
            n, envt, called, reset = stack.pop()
            if n is head:
                results.append((called, reset))
                continue
            if n is cfg.exit or n is cfg.raise_exit or (n.stmt is not None and id(n.stmt) not in inside):
                continue  # leaves the loop
            key = (n.id, envt, called, reset)
            if key in seen:
                continue
            seen.add(key)
            env = dict(envt)
            st = n.stmt
            # calls that receive the pending text
            if n.kind in ("stmt", "test"):
                for c in n.calls():
                    if not any(isinstance(a_, ast.Name) and a_.id == doxv for a_ in list(c.args) + [k_.value for k_ in c.keywords]):
                        continue
                    if isinstance(c.func, ast.Name) and isinstance(env.get(c.func.id), str) and env[c.func.id].startswith("handler:"):
                        called = called + (env[c.func.id][8:],)
                    else:
                        h = handler_of(c.func)
                        if h is None and isinstance(c.func, (ast.Call, ast.Subscript)):
                            # the looked-up handler is called where it is looked up: `table.get(tok.type, default)(tok, doxygen)`
                            k_l = sym(c.func)
                            e_l = lookups.get(k_l) if k_l else None
                            if isinstance(e_l, tuple) and e_l:
                                e_l = e_l[0]
                            if isinstance(e_l, str) and e_l.startswith("handler:"):
                                h = e_l[8:]
                        called = called + ((h or norm(c.func)),)
            if n.kind == "stmt" and isinstance(st, ast.Assign) and len(st.targets) == 1 and isinstance(st.targets[0], (ast.Name, ast.Tuple)):
                v = st.value
                val: Any = _UNK
                dead = False

                if isinstance(v, ast.Subscript) and isinstance(v.value, ast.Name) and v.value.id in table_vars and norm(v.slice) == f"{tokv}.type" and T not in pm.dispatch:
                    dead = True  # KeyError: this path is not taken by such a token
                elif isinstance(v, ast.Name) and v.id in env:
                    val = env[v.id]
                else:
                    for x in ast.walk(v):
                        sym(x)
                    env.update({k_: v_ for k_, v_ in lookups.items() if v_ is not _UNK})
                    val = _bev(v, env, sym)
                if dead:
                    continue
                tg = st.targets[0]
                if isinstance(tg, ast.Name):
                    pairs = [(tg.id, val)]
                elif isinstance(val, tuple) and len(val) == len(tg.elts) and all(isinstance(x, ast.Name) for x in tg.elts):
                    pairs = [(x.id, y) for x, y in zip(tg.elts, val)]
                else:
                    pairs = [(x.id, _UNK) for x in ast.walk(tg) if isinstance(x, ast.Name)]
                for tv, vv in pairs:
                    if tv == doxv:
                        reset = isinstance(v, ast.Constant) and v.value is None
                    if vv is _UNK:
                        env.pop(tv, None)
                    else:
                        env[tv] = vv
            decided: Any = _UNK
            if n.kind == "test" and n.cond is not None:
                cond = n.cond
                # membership of the token type in the dispatch table itself
                if isinstance(cond, ast.Compare) and len(cond.ops) == 1 and norm(cond.left) == f"{tokv}.type" and isinstance(cond.comparators[0], ast.Name) and cond.comparators[0].id in table_vars:
                    decided = (T in pm.dispatch) == isinstance(cond.ops[0], ast.In)
                else:
                    for x in ast.walk(cond):
                        sym(x)
                    env.update({k_: v_ for k_, v_ in lookups.items() if v_ is not _UNK})
                    decided = _bev(cond, env, sym)
            envt2 = tuple(sorted(env.items(), key=lambda kv: kv[0]))
            for s_, lab in n.succ:
                if lab == "exc":
                    continue
                if decided is not _UNK and lab in ("T", "F") and bool(decided) != (lab == "T"):
                    continue
                stack.append((s_, envt2, called, reset))
        out[T] = results
    return out


