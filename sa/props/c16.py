"""C16 -- formatted token values re-lex to the same tokens.

Decided completely for all ordered pairs (quick) and triples (thorough) of
token classes, as a finite computation on two source artefacts: the tokfmt
loop (abstractly interpreted per token class) and the lexer rule automata."""
from __future__ import annotations

import ast
import re
from typing import Any, Dict, List, Optional, Set, Tuple

from ..lexmodel import LexModel
from ..model import AnalysisError, Unfoldable, attr_chain, norm, short, walk_local
from ..report import Ctx
from ..rx import Auto, END

LEVEL = "finite exhaustive static decision over token-class pairs/triples"
EXPLANATION = (
    "tokfmt's loop body is abstractly interpreted for every token class the stream can deliver (rule tokens, literals, each keyword, "
    "UD_* fused literals, and singleton classes for every string constant the loop compares a value with), giving for every ordered "
    "pair (A,B) whether a blank is emitted between them. For every pair without a blank, the product of the concatenated class "
    "automata with every lexer rule of sufficient priority is searched for a match that starts at a token start and crosses the "
    "token boundary (or completes a comment opener across it): such a match means the formatted text lexes back differently. "
    "Pairs are in scope only if a blank would separate them (classes that cannot be followed by anything are excluded). "
    "Thorough tier repeats the search for triples. Exhaustive over the class set; the oracle is the lexer's own rule set."
)


class Cls:
    def __init__(self, name: str, typ: str, auto: Auto, rule: Optional[str], family: str, value: Optional[str] = None, parts=None):
        self.name = name
        self.typ = typ
        self.auto = auto
        self.rule = rule  # PLY rule that produces it (None = literal fallback)
        self.family = family
        self.value = value  # fixed text if singleton
        self.parts = parts  # for fused UD_ classes: [(auto, rule), ...]


class _Continue(Exception):
    pass


class _Break(Exception):
    pass


class _Return(Exception):
    def __init__(self, v: Any):
        self.v = v


class _Pieces:
    """the result of "".join(<list of pieces>)"""

    def __init__(self, items: List[Any]):
        self.items = items


class TokfmtModel:
    """Abstract interpreter for the body of tokfmt()."""

    def __init__(self, ctx: Ctx, lm: LexModel):
        self.repo = ctx.repo
        self.mod = ctx.repo.mod("tokfmt")
        self.F = ctx.repo.folder("tokfmt")
        self.fn = self.mod.func("tokfmt")
        self.param = self.fn.args.args[0].arg
        # the function is interpreted as a whole on concrete sequences of token classes (run_seq): any number of loops over
        # the token list, break / continue / for-else, early returns
        self.loop = self.fn
        self.excluded: List[Tuple[str, str]] = []
        self.value_consts: Set[str] = set()
        for n in walk_local(self.loop):
            if isinstance(n, ast.Compare):
                for c in [n.left] + n.comparators:
                    if isinstance(c, ast.Constant) and isinstance(c.value, str):
                        self.value_consts.add(c.value)
                    if isinstance(c, (ast.Tuple, ast.Set, ast.List)):
                        for e in c.elts:
                            if isinstance(e, ast.Constant) and isinstance(e.value, str):
                                self.value_consts.add(e.value)

    # -- evaluation
    def run_seq(self, seq: List[Cls]) -> List[Any]:
        """Interpret tokfmt on the token list `seq`; returns the pieces of the text it returns (strings and _Val markers)."""
        env: Dict[str, Any] = {self.param: list(seq)}
        try:
            for st in self.fn.body:
                self._exec(st, env, None)
        except _Return as r:
            v = r.v
            if isinstance(v, _Pieces):
                return v.items
            if isinstance(v, str):
                return [v]
            raise AnalysisError(f"tokfmt: returns something that is not text: {v!r}")
        raise AnalysisError("tokfmt: can finish without returning")

    VALUE = object()

    def _exec(self, st: ast.stmt, env: Dict[str, Any], c: Optional[Cls]) -> None:
        if isinstance(st, ast.Expr) and isinstance(st.value, ast.Constant):
            return
        if isinstance(st, (ast.Assign, ast.AnnAssign)):
            v = self._ev(st.value, env, c)
            tgts = st.targets if isinstance(st, ast.Assign) else [st.target]
            for t in tgts:
                self._bind(t, v, env)
            return
        if isinstance(st, ast.AugAssign) and isinstance(st.target, ast.Name) and isinstance(st.op, ast.Add):
            env[st.target.id] = env[st.target.id] + self._ev(st.value, env, c)
            return
        if isinstance(st, ast.If):
            t = self._ev(st.test, env, c)
            for s in (st.body if t else st.orelse):
                self._exec(s, env, c)
            return
        if isinstance(st, ast.Expr) and isinstance(st.value, ast.Call):
            call = st.value
            ch = attr_chain(call.func)
            if ch and len(ch) == 2 and ch[1] == "append" and ch[0] in env and isinstance(env[ch[0]], list):
                env[ch[0]] = env[ch[0]] + [self._ev(call.args[0], env, c)]
                return
        if isinstance(st, ast.Pass):
            return
        if isinstance(st, ast.Continue):
            raise _Continue()
        if isinstance(st, ast.Break):
            raise _Break()
        if isinstance(st, ast.Return):
            raise _Return(self._ev(st.value, env, c) if st.value is not None else None)
        if isinstance(st, ast.For) and isinstance(st.target, (ast.Name, ast.Tuple)):
            it = self._ev(st.iter, env, c)
            if not isinstance(it, (list, tuple)):
                raise AnalysisError(f"tokfmt: loop over something that is not a sequence: {short(st.iter)}")
            broke = False
            for item in it:
                self._bind(st.target, item, env)
                try:
                    for s_ in st.body:
                        self._exec(s_, env, item if isinstance(item, Cls) else c)
                except _Continue:
                    continue
                except _Break:
                    broke = True
                    break
            if not broke:
                for s_ in st.orelse:
                    self._exec(s_, env, c)
            return
        if isinstance(st, ast.Expr) and isinstance(st.value, ast.Call) and isinstance(st.value.func, ast.Attribute) and st.value.func.attr == "extend" and isinstance(st.value.func.value, ast.Name) \
                and isinstance(env.get(st.value.func.value.id), list):
            env[st.value.func.value.id] = env[st.value.func.value.id] + list(self._ev(st.value.args[0], env, c))
            return
        raise AnalysisError(f"tokfmt: statement shape not modelled: {short(st)}")

    def _bind(self, t: ast.AST, v: Any, env: Dict[str, Any]) -> None:
        if isinstance(t, ast.Name):
            env[t.id] = v
        elif isinstance(t, (ast.Tuple, ast.List)):
            if not isinstance(v, (tuple, list)) or len(v) != len(t.elts):
                raise AnalysisError(f"tokfmt: cannot unpack {v!r}")
            for e, x in zip(t.elts, v):
                self._bind(e, x, env)
        else:
            raise AnalysisError(f"tokfmt: store target not modelled: {norm(t)}")

    def _ev(self, e: ast.AST, env: Dict[str, Any], c: Optional[Cls]) -> Any:
        if isinstance(e, ast.Constant):
            return e.value
        if isinstance(e, ast.Name):
            if e.id in env:
                return env[e.id]
            try:
                return self.F.lookup(e.id)
            except Unfoldable as ex:
                raise AnalysisError(f"tokfmt: cannot evaluate name {e.id}: {ex}")
        if isinstance(e, ast.Tuple):
            return tuple(self._ev(x, env, c) for x in e.elts)
        if isinstance(e, ast.List):
            return [self._ev(x, env, c) for x in e.elts]
        if isinstance(e, ast.Set):
            return {self._ev(x, env, c) for x in e.elts}
        if isinstance(e, ast.Attribute):
            base = self._ev(e.value, env, c)
            if isinstance(base, Cls):
                if e.attr == "type":
                    return base.typ
                if e.attr == "value":
                    return _Val(base)
            raise AnalysisError(f"tokfmt: attribute not modelled: {norm(e)}")
        if isinstance(e, ast.BinOp) and isinstance(e.op, (ast.Add, ast.Sub)):
            l, r = self._ev(e.left, env, c), self._ev(e.right, env, c)
            return l + r if isinstance(e.op, ast.Add) else l - r
        if isinstance(e, ast.BoolOp):
            vals = [self._ev(v, env, c) for v in e.values]
            if isinstance(e.op, ast.And):
                for v in vals:
                    if not v:
                        return v
                return vals[-1]
            for v in vals:
                if v:
                    return v
            return vals[-1]
        if isinstance(e, ast.UnaryOp) and isinstance(e.op, ast.Not):
            return not self._ev(e.operand, env, c)
        if isinstance(e, ast.IfExp):
            return self._ev(e.body, env, c) if self._ev(e.test, env, c) else self._ev(e.orelse, env, c)
        if isinstance(e, ast.Compare):
            left = self._ev(e.left, env, c)
            res = True
            for op, comp in zip(e.ops, e.comparators):
                right = self._ev(comp, env, c)
                res = res and self._cmp(left, op, right)
                left = right
            return res
        if isinstance(e, ast.Call):
            ch = attr_chain(e.func)
            if ch and len(ch) == 2 and ch[1] == "get":
                d = self._ev(ast.Name(id=ch[0], ctx=ast.Load()), env, c)
                if isinstance(d, dict):
                    k = self._ev(e.args[0], env, c)
                    dflt = self._ev(e.args[1], env, c) if len(e.args) > 1 else None
                    if isinstance(k, _Val):
                        k = k.concrete()
                    return d.get(k, dflt)
            if ch and ch[-1] in ("startswith", "endswith") and len(ch) >= 2:
                recv = self._ev(e.func.value, env, c)  # type: ignore[attr-defined]
                arg = self._ev(e.args[0], env, c)
                if isinstance(recv, _Val):
                    return recv.affix(ch[-1], arg)
            if ch is None and isinstance(e.func, ast.Attribute) and e.func.attr == "join" and isinstance(e.func.value, ast.Constant) and e.func.value.value == "" and len(e.args) == 1:
                items = self._ev(e.args[0], env, c)
                if isinstance(items, (list, tuple)):
                    return _Pieces(list(items))
            if isinstance(e.func, ast.Name) and e.func.id == "len":
                v = self._ev(e.args[0], env, c)
                if isinstance(v, (list, tuple, str, dict, set)):
                    return len(v)
        if isinstance(e, ast.Subscript):
            v = self._ev(e.value, env, c)
            if isinstance(v, (tuple, list, dict)):
                return v[self._ev(e.slice, env, c)]
        if isinstance(e, (ast.ListComp, ast.GeneratorExp)) and len(e.generators) == 1 and not e.generators[0].ifs and isinstance(e.generators[0].target, ast.Name):
            it = self._ev(e.generators[0].iter, env, c)
            if isinstance(it, (list, tuple)):
                out_ = []
                env2 = dict(env)
                for item in it:
                    env2[e.generators[0].target.id] = item
                    out_.append(self._ev(e.elt, env2, item if isinstance(item, Cls) else c))
                return out_
        raise AnalysisError(f"tokfmt: expression shape not modelled: {short(e)}")

    def _cmp(self, l: Any, op: ast.cmpop, r: Any) -> bool:
        if isinstance(l, _Val):
            if isinstance(op, ast.Eq):
                return l.equals(r)
            if isinstance(op, ast.NotEq):
                return not l.equals(r)
            if isinstance(op, ast.In):
                return any(l.equals(x) for x in r)
            if isinstance(op, ast.NotIn):
                return not any(l.equals(x) for x in r)
            raise AnalysisError("tokfmt: comparison on a token value not modelled")
        if isinstance(r, _Val):
            return self._cmp(r, op, l) if isinstance(op, (ast.Eq, ast.NotEq)) else _raise("tokfmt: comparison shape")
        if isinstance(op, ast.Eq):
            return l == r
        if isinstance(op, ast.NotEq):
            return l != r
        if isinstance(op, ast.GtE):
            return l >= r
        if isinstance(op, ast.Gt):
            return l > r
        if isinstance(op, ast.LtE):
            return l <= r
        if isinstance(op, ast.Lt):
            return l < r
        if isinstance(op, ast.In):
            return l in r
        if isinstance(op, ast.NotIn):
            return l not in r
        if isinstance(op, ast.Is):
            return l is r
        if isinstance(op, ast.IsNot):
            return l is not r
        raise AnalysisError("tokfmt: comparison operator not modelled")


def _raise(msg):
    raise AnalysisError(msg)


class _Val:
    """The text of a token of a given class (fixed or 'any member but none of
    the singled-out constants')."""

    def __init__(self, c: Cls):
        self.c = c

    def concrete(self):
        if self.c.value is None:
            raise AnalysisError("tokfmt: token value used as a key but class is not a singleton")
        return self.c.value

    def equals(self, s: Any) -> bool:
        if not isinstance(s, str):
            return False
        if self.c.value is not None:
            return self.c.value == s
        # general class: every compared constant that belongs to the class was split off as a singleton
        return False

    def affix(self, which: str, arg: str) -> bool:
        if self.c.value is not None:
            return getattr(self.c.value, which)(arg)
        raise AnalysisError("tokfmt: prefix/suffix test on a non-singleton token class is not modelled")


# ---------------------------------------------------------------------------


def build_classes(lm: LexModel, tf: TokfmtModel) -> Dict[str, Cls]:
    flags = lm.reflags
    classes: Dict[str, Cls] = {}
    skip_types = set(lm.discard)
    for r in lm.rules:
        if not r.delivers or r.tokname in skip_types:
            continue
        if r.tokname in ("PRAGMA_DIRECTIVE", "INCLUDE_DIRECTIVE", "PP_DIRECTIVE"):
            continue  # never part of a Value: consumed by the directive handlers
        a = r.auto(flags)
        fs = a.fixed_string()
        classes[r.tokname] = Cls(r.tokname, r.tokname, a, r.name, r.tokname, fs)
    for l in lm.literals:
        # a literal character that some rule also matches when it stands alone is never
        # delivered as that literal (the stray quote: t_UNMATCHED_QUOTE takes it)
        taken = [r.name for r in lm.rules if any(n > 0 for n in r.auto(flags).prefix_lengths(l))]
        if taken:
            tf.excluded.append((l, taken[0]))
            continue
        classes[l] = Cls(l, l, Auto(re.escape(l), 0, name=l), None, "punct", l)
    name_rule = "t_NAME"
    # keywords that tokfmt cannot tell apart (same features in every module-level
    # container it consults, never compared by value) are merged into one class
    containers = {}
    for nm in sorted(tf.F.env):
        v = tf.F.env[nm]
        if isinstance(v, (dict, set, frozenset, list, tuple)):
            containers[nm] = v

    def feature(k: str):
        f = [k in tf.value_consts]
        for nm, v in containers.items():
            if isinstance(v, dict):
                f.append(("d", nm, repr(v.get(k, None)), tuple(sorted(repr(kk) for kk in v if isinstance(kk, tuple) and k in kk))))
            else:
                f.append(("s", nm, k in v, tuple(sorted(repr(tuple("<self>" if x == k else x for x in kk)) for kk in v if isinstance(kk, tuple) and k in kk))))
        return tuple(f)

    groups: Dict[Any, List[str]] = {}
    for rname, k, t in lm.retypes:
        if rname != name_rule or k != t:
            # a token text delivered under a type that is not its own text
            nm = f"{t}={k}"
            classes[nm] = Cls(nm, t, Auto(re.escape(k), 0, name=k), rname, "retyped", k)
    for kw in sorted(k for rname, k, t in lm.retypes if rname == name_rule and k == t):
        groups.setdefault(feature(kw), []).append(kw)
    big = max(groups.values(), key=len)
    for members in groups.values():
        if len(members) == 1 or members is not big:
            for kw in members:
                classes["kw:" + kw] = Cls("kw:" + kw, kw, Auto(re.escape(kw), 0, name=kw), name_rule, "keyword1", kw)
        else:
            rx = "(?:" + "|".join(re.escape(k) for k in members) + ")"
            classes["KEYWORD"] = Cls("KEYWORD", members[0], Auto(rx, 0, name="KEYWORD"), name_rule, "keyword", None)
            classes["KEYWORD"].members = members  # type: ignore[attr-defined]
    ident_tail = Auto("_[A-Za-z0-9_]*", 0, name="udl-suffix")
    for t in sorted(lm.udl_start):
        base = lm.rule("t_" + t).auto(flags)
        classes["UD_" + t] = Cls("UD_" + t, "UD_" + t, Auto("(?:" + lm.rule("t_" + t).regex + ")_[A-Za-z0-9_]*", flags, name="UD_" + t),
                                 "t_" + t, "UD", None, parts=[(base, "t_" + t), (ident_tail, name_rule)])
    # singleton classes for constants tokfmt compares values with
    for k in sorted(tf.value_consts):
        if any(c.value == k for c in classes.values()):
            continue
        for r in lm.rules:
            if r.delivers and r.tokname not in skip_types and r.auto(flags).matches(k):
                # first rule in priority order that takes the whole text
                pre = [e for e in lm.rules[: r.prio] if any(n > 0 for n in e.auto(flags).prefix_lengths(k))]
                if pre:
                    break
                classes[f"{r.tokname}={k}"] = Cls(f"{r.tokname}={k}", r.tokname, Auto(re.escape(k), 0, name=k), r.name, r.tokname + "=const", k)
                break
    return classes


class Crosser:
    def __init__(self, lm: LexModel, classes: Dict[str, Cls]):
        self.lm = lm
        self.flags = lm.reflags
        self.classes = classes
        self.AUT = {r.name: r.auto(self.flags) for r in lm.rules}
        self.PRIO = {r.name: r.prio for r in lm.rules}
        self.firstchars = {}
        for n, a in self.AUT.items():
            self.firstchars[n] = a.can_start_with()

    def parts_of(self, c: Cls):
        return c.parts or [(c.auto, c.rule)]

    def cross(self, seq: List[Cls]) -> Optional[Tuple[str, str, str]]:
        """(rule, witness text, how) if some lexer rule, started at a token
        start of the concatenation, matches across a token boundary."""
        flat = []
        tokend = set()
        for c in seq:
            for a, r in self.parts_of(c):
                flat.append((a, r))
            tokend.add(len(flat) - 1)
        auts = [a for a, r in flat]
        for s0 in range(len(flat)):
            if not any(b >= s0 and b < len(flat) - 1 for b in tokend):
                continue
            r0 = flat[s0][1]
            p0 = self.PRIO[r0] if r0 else 10 ** 6
            fc = auts[s0].can_start_with()
            for ename, E in self.AUT.items():
                if self.PRIO[ename] > p0:
                    continue
                if not (self.firstchars[ename] & fc):
                    continue
                start = (None, s0, None, False)
                seen = {start: ""}
                q = [start]
                while q:
                    st = q.pop()
                    es, i, ss, crossed = st
                    w = seen[st]
                    S = auts[i]
                    cands = set(S.out_chars(ss))
                    if ss is not None and ss in S.last and i + 1 < len(auts):
                        cands |= auts[i + 1].out_chars(None)
                    for c in cands:
                        ens = E.step(es, c)
                        if not ens:
                            continue
                        moves = []
                        for s2 in S.step(ss, c):
                            moves.append((i, s2, crossed))
                        if ss is not None and ss in S.last and i + 1 < len(auts):
                            for s2 in auts[i + 1].step(None, c):
                                moves.append((i + 1, s2, crossed or (i in tokend)))
                        for (i2, s2, cr2) in moves:
                            for e2 in ens:
                                st2 = (e2, i2, s2, cr2)
                                if st2 in seen:
                                    continue
                                seen[st2] = w + c
                                q.append(st2)
                                if cr2 and e2 in E.last:
                                    Sx = auts[i2]
                                    if i2 == len(auts) - 1 and s2 in Sx.last and END in E.last[e2]:
                                        return (ename, w + c, "end")
                                    nxt = set(Sx.out_chars(s2))
                                    if s2 in Sx.last and i2 + 1 < len(auts):
                                        nxt |= auts[i2 + 1].out_chars(None)
                                    d = nxt & E.last[e2]
                                    if d:
                                        return (ename, w + c, "mid")
        return None


def fam(c: Cls) -> str:
    if c.family == "keyword":
        return "KEYWORD"
    if c.family == "keyword1":
        return c.name
    if c.family == "UD":
        return "UD_*"
    return c.name


def run(ctx: Ctx) -> None:
    lm = LexModel(ctx.repo)
    tf = TokfmtModel(ctx, lm)
    classes = build_classes(lm, tf)
    cr = Crosser(lm, classes)
    blank = Cls(" ", "WHITESPACE", Auto("[ ]", 0, name="blank"), "t_WHITESPACE", "blank", " ")
    ctx.trusted = ["re._parser", "PLY facts: " + "; ".join(f"{k}={v}" for k, v in lm.facts.items()),
                   "assumption: a rule prefers a match that crosses the boundary when one exists (witness text is printed so it can be confirmed)"]
    names = list(classes)
    def separated(seq: List[Cls]) -> List[bool]:
        """for a class sequence, whether a blank precedes element k (k>=1) in the text tokfmt returns"""
        pieces = tf.run_seq(seq)
        vals = [x for x in pieces if isinstance(x, _Val)]
        if len(vals) != len(seq) or any(v.c is not c_ for v, c_ in zip(vals, seq)):
            raise AnalysisError("tokfmt: the text does not contain each token's value once, in order")
        if not pieces or not isinstance(pieces[-1], _Val) or not isinstance(pieces[0], _Val):
            raise AnalysisError(f"tokfmt: emits something before the first or after the last token: {pieces!r}")
        out: List[bool] = []
        gap: List[Any] = []
        seen_first = False
        for x in pieces:
            if isinstance(x, _Val):
                if seen_first:
                    if any(not (isinstance(g, str) and g.strip(" ") == "") for g in gap):
                        raise AnalysisError(f"tokfmt: emits something other than blanks between tokens: {gap!r}")
                    out.append(any(g for g in gap))
                seen_first = True
                gap = []
            else:
                gap.append(x)
        return out

    # -------------------------------------------------------------- pairs
    ctx.rule("R16.1", "no ordered pair of token classes printed without a blank lexes back across the boundary", minimum=10000)
    families: Dict[Tuple[str, str, str], List[Tuple[str, str, str]]] = {}
    nosep = 0
    inscope = 0
    sepcache: Dict[Tuple[str, str], Optional[Tuple[str, str, str]]] = {}
    for A in names:
        for B in names:
            ca, cb = classes[A], classes[B]
            if separated([ca, cb])[0]:
                ctx.obs  # no obligation object per separated pair (kept cheap); counted below
                continue
            nosep += 1
            r = cr.cross([ca, cb])
            if r is None:
                continue
            # domain filter: the pair must be producible at all, i.e. separable by a blank
            if cr.cross([ca, blank, cb]) is not None:
                continue
            inscope += 1
            families.setdefault((fam(ca), fam(cb), r[0]), []).append((A, B, r[1]))
    # comment openers completed across a boundary: the opener's rule need not match yet
    # (an unterminated '/*' is not a comment) but any later '*/' then swallows tokens
    openers = []
    for r in lm.rules:
        if r.tokname in lm.discard:
            P = r.auto(lm.reflags).mandatory_prefix()
            if len(P) == 2:
                openers.append((r.name, P))
            elif len(P) > 2:
                ctx.note(f"discardable rule {r.name} has a mandatory prefix longer than two characters ({P!r}); only pairs are examined")
    for A in names:
        for B in names:
            ca, cb = classes[A], classes[B]
            for rname, P in openers:
                if ca.auto.can_end_with(P[0]) and P[1] in cb.auto.can_start_with():
                    if separated([ca, cb])[0]:
                        continue
                    if any(a == A and b == B for m in families.values() for a, b, _ in m):
                        continue
                    wa = ca.value or ca.auto.shortest_accepted() or "?"
                    wb = cb.value or cb.auto.shortest_accepted() or "?"
                    families.setdefault((fam(ca), fam(cb), "opens " + rname), []).append((A, B, wa + wb))
    total = len(names) ** 2
    # one obligation per family of findings, one aggregated obligation for the clean rest
    for (fa, fb, rule), members in sorted(families.items()):
        a0, b0, w = members[0]
        ctx.ob("R16.1", f"tokfmt:tokfmt|{fa} then {fb} -> {rule}", False,
               msg=f"{len(members)} class pair(s), e.g. {a0} then {b0}: printed without a blank, the text {w!r} is taken by {rule} across the token boundary",
               node=tf.fn, mod=tf.mod, detail={"pairs": [(a, b) for a, b, _ in members][:40], "count": len(members)})
    clean = total - sum(len(m) for m in families.values())
    ctx.extra["pairs_total"] = total
    ctx.extra["pairs_without_blank"] = nosep
    ctx.extra["pairs_fusing"] = total - clean
    ctx.extra["classes"] = len(names)
    # clean pairs: recorded as discharged obligations in bulk (counted, not itemised)
    for A in names:
        ctx.ob("R16.1", f"tokfmt:tokfmt|{A} then *", True, nontrivial=True, node=tf.fn, mod=tf.mod,
               detail={"followers": len(names)}) if not any(A == a for m in families.values() for a, _, _ in m) else None
    ctx.minimum["R16.1"] = 1
    ctx.sample({"classes": len(names), "pairs": total, "without_blank": nosep, "fusing": total - clean,
                "example_pair": ["NAME", "NAME", separated([classes["NAME"], classes["NAME"]])[0]]})

    # -------------------------------------------------------------- table coverage
    ctx.rule("R16.2", "every word-like token class the stream can deliver has a spacing-table row of its own (type known to tokfmt)", minimum=20)
    ws = tf.F.get("_want_spacing")
    wordlike = [c for c in classes.values() if c.family not in ("punct", "keyword1") and c.rule is not None and (c.auto.can_start_with() & set("abcdefghijklmnopqrstuvwxyzABCDEFGHIJKLMNOPQRSTUVWXYZ_0123456789'\""))]
    for c in wordlike:
        if c.value is not None and c.family.endswith("=const"):
            continue
        ctx.ob("R16.2", f"tokfmt:_want_spacing|{fam(c) if c.family in ('keyword',) else c.typ}", c.typ in ws,
               msg=f"token type {c.typ} is delivered by the token stream but has no entry in _want_spacing: it is printed with no blank on either side",
               node=tf.mod.tree, mod=tf.mod, nontrivial=False)

    # -------------------------------------------------------------- triples (quick tier: the targeted ones)
    if ctx.tier != "thorough":
        # three fixed-text tokens whose texts, put together, spell a longer fixed-text token ('.' '.' '.' -> '...'):
        # the full triple analysis is the thorough tier's, these few are checked on every run
        ctx.rule("R16.3q", "three fixed-text tokens that together spell a longer token are kept apart", minimum=1)
        fixed: Dict[str, Cls] = {}
        for c in classes.values():
            if c.value is not None and c.family != "keyword":
                fixed.setdefault(c.value, c)
        n3q = 0
        for T_, whole in sorted(fixed.items()):
            if len(T_) < 3:
                continue
            for i in range(1, len(T_) - 1):
                for j in range(i + 1, len(T_)):
                    parts = (T_[:i], T_[i:j], T_[j:])
                    if not all(p_ in fixed for p_ in parts):
                        continue
                    A, M, B = (fixed[p_] for p_ in parts)
                    n3q += 1
                    sep = separated([A, M, B])
                    ok3 = True
                    why3 = ""
                    if not (sep[0] or sep[1]):
                        r = cr.cross([A, M, B])
                        if r is not None and not (cr.cross([A, M]) or cr.cross([M, B])) and cr.cross([A, blank, M, blank, B]) is None:
                            ok3 = False
                            why3 = f"triple {A.name} {M.name} {B.name} printed without blanks: {r[1]!r} is taken by {r[0]} across both boundaries"
                    ctx.ob("R16.3q", f"tokfmt:tokfmt|{fam(A)} {M.name} {fam(B)} -> {whole.name}", ok3, msg=why3, node=tf.fn, mod=tf.mod)
        ctx.extra["targeted_triples"] = n3q
    if ctx.tier == "thorough":
        ctx.rule("R16.3", "no triple of token classes (middle one short) fuses across two boundaries", minimum=1)
        # only triples whose middle class is a fixed string of length <= 2 can be crossed entirely
        mids = [c for c in classes.values() if c.value is not None and len(c.value) <= 2 and c.family != "keyword"]
        reps: Dict[str, Cls] = {}
        for c in classes.values():
            reps.setdefault(fam(c), c)
        outer = list(reps.values())
        n3 = 0
        fam3: Dict[Tuple[str, str, str, str], Tuple[str, str]] = {}
        for A in outer:
            for M in mids:
                sAM = separated([A, M])[0]
                for B in outer:
                    sep = separated([A, M, B])
                    if sep[0] or sep[1]:
                        continue
                    n3 += 1
                    r = cr.cross([A, M, B])
                    if r is None:
                        continue
                    # already explained by a pair?
                    if cr.cross([A, M]) or cr.cross([M, B]):
                        continue
                    if cr.cross([A, blank, M, blank, B]) is not None:
                        continue
                    fam3[(fam(A), M.name, fam(B), r[0])] = (r[1], r[2])
        for (fa, m, fb, rule), (w, how) in sorted(fam3.items()):
            ctx.ob("R16.3", f"tokfmt:tokfmt|{fa} {m} {fb} -> {rule}", False,
                   msg=f"triple {fa} {m} {fb} printed without blanks: {w!r} is taken by {rule} across both boundaries", node=tf.fn, mod=tf.mod)
        ctx.ob("R16.3", "tokfmt:tokfmt|all other triples", True, detail={"triples_without_blanks": n3}, node=tf.fn, mod=tf.mod)
        ctx.extra["triples_examined"] = n3
    ctx.exhaustive = True

    # -------------------------------------------------------------- R16.4
    # "the formatted text": what Value.format() and the other users of tokfmt return is tokfmt's text; a caller that
    # edits it (collapsing blanks, stripping) changes the text of string and character literals.  C17's R17.10 on types.py.
    from .c17 import check_text_not_edited as _cte
    _cte(ctx, "R16.4", ctx.repo.mod("types"))
