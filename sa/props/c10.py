"""C10 -- reported line numbers and file names are the real ones."""
from __future__ import annotations

import ast
from typing import Dict, List, Optional, Set, Tuple

from ..cfg import CFG, Node, must_forward, reaching_defs
from ..kinds import node_containing
from ..lexmodel import LexModel
from ..model import AnalysisError, attr_chain, is_self_attr, norm, short, walk_local
from ..pmodel import LEX_CONSUME, ParserModel
from ..report import Ctx, SubCtx, run_shared
from ..rx import Auto, sre_c, sre_parse
from ..tokbuf import FillModel
from ..vmodel import VisitorModel
from .c08 import check_nlacc

LEVEL = "must-pass-through / linear-form rules on the location plumbing"
EXPLANATION = (
    "R10.1 newline accounting of every lexer rule (a rule counts newlines iff its language contains one). R10.2 every buffered token is "
    "stamped from current_location() evaluated after the token was fetched; current_location() is file name and lineno minus line_offset. "
    "R10.3 the #line branch stores line_offset = physical lineno - N + 1 (linear-form normalisation) and the file name from the quoted "
    "group of the same match, and the directive rule cannot consume its own newline. R10.4 at every non-block callback site the state's "
    "location has been stored since the current declaration began (forward must-fact over CFG + call-site meet; cleared at every "
    "dispatch handler entry, at _parse_declarations entry and at every block push/pop); block states get the location through their "
    "constructor. R10.6 a location peeked with current_location() is followed by the consumption of a token before it is reported (so it "
    "denotes a token of the declaration, not the one after it)."
)


def linear_form(e: ast.AST, atoms: Dict[str, int], sign: int = 1) -> bool:
    """Accumulate e as an integer linear form over normalised atom texts."""
    if isinstance(e, ast.BinOp) and isinstance(e.op, ast.Add):
        return linear_form(e.left, atoms, sign) and linear_form(e.right, atoms, sign)
    if isinstance(e, ast.BinOp) and isinstance(e.op, ast.Sub):
        return linear_form(e.left, atoms, sign) and linear_form(e.right, atoms, -sign)
    if isinstance(e, ast.UnaryOp) and isinstance(e.op, ast.USub):
        return linear_form(e.operand, atoms, -sign)
    if isinstance(e, ast.Constant) and isinstance(e.value, int):
        atoms["1"] = atoms.get("1", 0) + sign * e.value
        return True
    atoms[norm(e)] = atoms.get(norm(e), 0) + sign
    return True


def run(ctx: Ctx) -> None:
    pm = ParserModel(ctx.repo)
    vm = VisitorModel(ctx.repo)
    lm = LexModel(ctx.repo)
    fm = FillModel(ctx.repo)
    lex = lm.lexer
    mod = pm.mod
    ctx.trusted = ["PLY stamps tok.lineno before the rule function runs (anchor checked in _ply/lex.py)"]
    ctx.undecided = ["#line directives placed inside a declaration (value-level)", "which line of a multi-line declaration is reported (any line of its extent satisfies the statement)"]

    # ---------------------------------------------------------------- R10.1
    check_nlacc(ctx, "R10.1", lm)

    # ---------------------------------------------------------------- R10.2
    ctx.rule("R10.2", "tokens are stamped from a current_location() evaluated after they were fetched; current_location() = (filename, lineno - line_offset)", minimum=4)
    stamp = [f for f in fm.linear() if f[0] == "stamp"]
    for n, v in fm.appends:
        bad = [f for f in stamp if f[1] is n.stmt]
        ctx.ob("R10.2", f"lexer:LexerTokenStream._fill_tokbuf|`{short(n.stmt)}` stamped", not bad, msg=bad[0][2] if bad else "", node=n.stmt, mod=lex)
    cl = lex.func("PlyLexer.current_location")
    rets = [s for s in walk_local(cl) if isinstance(s, ast.Return)]
    ok = len(rets) == 1 and isinstance(rets[0].value, ast.Call) and norm(rets[0].value.func) == "Location"
    if ok:
        # positional or by field name (Location is the (filename, lineno) named tuple)
        call_ = rets[0].value
        byname = {k.arg: k.value for k in call_.keywords}
        a0 = call_.args[0] if len(call_.args) > 0 else byname.get("filename")
        a1 = call_.args[1] if len(call_.args) > 1 else byname.get("lineno")
        ok = a0 is not None and a1 is not None and len(call_.args) + len(call_.keywords) == 2
    if ok:
        atoms: Dict[str, int] = {}
        linear_form(a1, atoms)
        atoms = {k: v for k, v in atoms.items() if v != 0}
        ok = is_self_attr(a0, "filename") and atoms == {"self.lex.lineno": 1, "self.line_offset": -1}
    ctx.ob("R10.2", "lexer:PlyLexer.current_location|file name and lineno - line_offset", ok,
           msg="PlyLexer.current_location no longer returns Location(self.filename, self.lex.lineno - self.line_offset)", node=cl, mod=lex)
    scl = lex.func("LexerTokenStream.current_location")
    txt = norm(scl)
    ok = "self.tokbuf[0].location" in txt and "self._lex.current_location()" in txt
    ctx.ob("R10.2", "lexer:LexerTokenStream.current_location|next buffered token, else the lexer position", ok,
           msg="LexerTokenStream.current_location no longer reports the location of the next buffered token", node=scl, mod=lex, nontrivial=False)
    # the only writers of filename / line_offset
    for qual, fn in lex.functions():
        for st in walk_local(fn):
            tg = st.targets if isinstance(st, ast.Assign) else ([st.target] if isinstance(st, (ast.AugAssign, ast.AnnAssign)) else [])
            for t in tg:
                ch = attr_chain(t)
                if ch and ch[0] == "self" and ch[-1] in ("line_offset", "filename") and qual.startswith("PlyLexer."):
                    ctx.ob("R10.2", f"lexer:{qual}|writes {ch[-1]}", qual in ("PlyLexer.__init__", "PlyLexer.t_PP_DIRECTIVE"),
                           msg=f"{qual} changes {ch[-1]} outside the constructor and the #line branch", node=st, mod=lex, nontrivial=False)

    # ---------------------------------------------------------------- R10.3
    ctx.rule("R10.3", "#line: line_offset = physical lineno - N + 1, filename from the quoted group of the same match, directive does not eat its newline", minimum=4)
    pp = lm.rule("t_PP_DIRECTIVE")
    fn = pp.node
    offs = [s for s in walk_local(fn) if isinstance(s, ast.Assign) and any(attr_chain(t) == ("self", "line_offset") for t in s.targets)]
    names = [s for s in walk_local(fn) if isinstance(s, ast.Assign) and any(attr_chain(t) == ("self", "filename") for t in s.targets)]
    mvars = {t.id for s in walk_local(fn) if isinstance(s, ast.Assign) and isinstance(s.value, ast.Call) and (attr_chain(s.value.func) or ("",))[0] == "_line_re" for t in s.targets if isinstance(t, ast.Name)}
    # which groups of _line_re are the number and the quoted name (whatever their numbers are)
    lr = ctx.repo.folder("lexer").get("_line_re")
    gnum = gname = None
    gnames: Dict[int, str] = {}
    try:
        tree = sre_parse.parse(lr.pattern, lr.flags)
        gnames = {idx: nm for nm, idx in getattr(tree.state, "groupdict", {}).items()}
        last = None
        for op, av in tree:
            if op == sre_c.SUBPATTERN and av[0] is not None:
                body = list(av[3])
                if len(body) == 1 and body[0][0] == sre_c.MAX_REPEAT and body[0][1][2][0][0] == sre_c.IN and any(o == sre_c.CATEGORY and a_ == sre_c.CATEGORY_DIGIT for o, a_ in body[0][1][2][0][1]):
                    gnum = av[0]
                if last == (sre_c.LITERAL, ord('"')):
                    gname = av[0]
            last = (op, av)
    except Exception:
        pass
    gok = gnum is not None and gname is not None and gnum != gname
    ok = len(offs) == 1 and len(mvars) == 1
    why = "the #line branch no longer has exactly one line_offset store from a _line_re match"
    if ok:
        m = next(iter(mvars))
        atoms = {}
        linear_form(offs[0].value, atoms)
        atoms = {k: v for k, v in atoms.items() if v != 0}
        refs = [f"{m}.group({gnum})"] + ([f"{m}.group('{gnames[gnum]}')", f"{m}['{gnames[gnum]}']"] if gnum in gnames else []) + [f"{m}[{gnum}]"]
        ok = any(atoms == {"1": 1, "self.lex.lineno": 1, f"int({r_})": -1} for r_ in refs)
        why = f"line_offset is computed as {norm(offs[0].value)}: with current_location() = lineno - line_offset the line after '#line N' must report N, which needs physical lineno - N + 1 (N = group {gnum} of the match)"
    ctx.ob("R10.3", "lexer:PlyLexer.t_PP_DIRECTIVE|line_offset arithmetic", ok, msg=why, node=offs[0] if offs else fn, mod=lex)
    mv_ = next(iter(mvars)) if mvars else "?"
    name_refs = [f"{mv_}.group({gname})", f"{mv_}[{gname}]"] + ([f"{mv_}.group('{gnames[gname]}')", f"{mv_}['{gnames[gname]}']"] if gname in gnames else [])
    ok = len(names) == 1 and len(mvars) == 1 and norm(names[0].value) in name_refs
    same = ok and offs and lex.parent.get(names[0]) is lex.parent.get(offs[0])
    ctx.ob("R10.3", "lexer:PlyLexer.t_PP_DIRECTIVE|file name from the quoted group, same branch", bool(same),
           msg=f"the file name is not taken from the quoted group ({gname}) of the same #line match, or not on the branch that re-bases the line", node=names[0] if names else fn, mod=lex)
    ctx.ob("R10.3", "lexer:_line_re|one group is the number, another the quoted name", gok, msg=f"_line_re = {lr.pattern!r} no longer has a (digits) group and a quoted group", node=lex.tree, mod=lex)
    ctx.ob("R10.3", "lexer:PlyLexer.t_PP_DIRECTIVE|directive does not consume its newline", not pp.auto(lm.reflags).can_contain("\n"),
           msg="the directive rule can match a newline: the line after '#line N' would be counted from the wrong line", node=fn, mod=lex)

    # ---------------------------------------------------------------- R10.4
    ctx.rule("R10.4", "state.location is stored after the current declaration began, before every non-block callback", minimum=20)
    killers = pm.closure({"_setup_state", "_pop_state"})
    entries = set(pm.handlers()) | {"_parse_declarations"}

    def is_loc_store(fname: str):
        def gen(n: Node) -> bool:
            st = n.stmt
            if n.kind != "stmt" or not isinstance(st, ast.Assign):
                return False
            for t in st.targets:
                if isinstance(t, ast.Attribute) and t.attr == "location":
                    base = t.value
                    if is_self_attr(base, "state") or isinstance(base, ast.Name):
                        if _location_like(pm, fname, st.value):
                            return True
            return False
        return gen

    def is_kill(fname: str):
        def kill(n: Node) -> bool:
            for c, r in pm.node_calls(fname, n):
                if r and r[0] == "self" and r[1] in ("_setup_state", "_pop_state"):
                    return True
                if r and r[0] == "self" and r[1] in killers and r[1] not in ("parse",):
                    return True
            return False
        return kill

    entry: Dict[str, bool] = {n: (n not in entries) for n in pm.methods}
    entry["parse"] = False
    entry["__init__"] = False
    facts: Dict[str, Dict[int, bool]] = {}
    for _ in range(20):
        changed = False
        site_facts: Dict[str, List[bool]] = {}
        for fname in pm.methods:
            IN = must_forward(pm.cfg(fname), entry[fname], is_loc_store(fname), is_kill(fname))
            facts[fname] = IN
            cfg = pm.cfg(fname)
            for n in cfg.nodes:
                if n.id not in IN:
                    continue
                for c, r in pm.node_calls(fname, n):
                    if r and r[0] == "self" and r[1] in pm.methods:
                        site_facts.setdefault(r[1], []).append(IN[n.id])
        for callee, fs in site_facts.items():
            v = all(fs) and callee not in entries and callee not in ("parse", "__init__")
            if v != entry[callee]:
                entry[callee] = v
                changed = True
        if not changed:
            break
    for fname, call, cb in pm.callback_sites():
        if cb.endswith("_start") or cb == "on_parse_start":
            continue
        cfg = pm.cfg(fname)
        n = node_containing(cfg, call)
        fresh = n is not None and facts[fname].get(n.id, False)
        ctx.ob("R10.4", f"parser:CxxParser.{fname}|{cb}", fresh,
               msg=f"{cb} is delivered on a path on which state.location has not been set since the declaration began: the visitor sees the line of an earlier declaration",
               node=call, mod=mod)
    # block states: the location argument of the constructor flows from a token
    for fname, fn in pm.methods.items():
        for c in walk_local(fn):
            if isinstance(c, ast.Call) and isinstance(c.func, ast.Name) and c.func.id in vm.ctor_params:
                idx = vm.ctor_params[c.func.id].index("location") if "location" in vm.ctor_params[c.func.id] else None
                arg = c.args[idx] if idx is not None and idx < len(c.args) else None
                ctx.ob("R10.4", f"parser:CxxParser.{fname}|{c.func.id}(location)", arg is not None and _location_like(pm, fname, arg),
                       msg=f"the location given to {c.func.id} does not come from a token or from current_location()", node=c, mod=mod)

    # ---------------------------------------------------------------- R10.7
    ctx.rule("R10.7", "in a declarator loop the location handed on is re-assigned on every cycle (each declarator reports its own line)", minimum=2)
    for fname, fn in pm.methods.items():
        cfg = pm.cfg(fname)
        for h in [n for n in cfg.nodes if n.kind == "test" and n.loop is not None]:
            inside = {id(x) for x in ast.walk(h.loop)}
            for n in cfg.nodes:
                if n.stmt is None or id(n.stmt) not in inside:
                    continue
                for c, r in pm.node_calls(fname, n):
                    if not (r and r[0] == "self"):
                        continue
                    callee = pm.fn(r[1])
                    pnames = [a.arg for a in callee.args.args[1:]]
                    for i, a in enumerate(c.args):
                        if i < len(pnames) and pnames[i] == "location" and isinstance(a, ast.Name):
                            defs = [m for m in cfg.nodes if m.kind == "stmt" and isinstance(m.stmt, ast.Assign) and any(isinstance(t, ast.Name) and t.id == a.id for t in m.stmt.targets) and id(m.stmt) in inside]
                            ok = bool(defs) and not cfg.paths_avoiding(h, h, lambda x: x in defs)
                            ctx.ob("R10.7", f"parser:CxxParser.{fname}|`{a.id}` for {r[1]}(...) refreshed every iteration", ok,
                                   msg=f"the loop in {fname} can start another declarator with the `{a.id}` of the previous one: the second declarator of 'int a,\\n b;' reports the first one's line",
                                   node=c, mod=mod)

    # ---------------------------------------------------------------- R10.6
    ctx.rule("R10.6", "a peeked current_location() is followed by the consumption of a token before it is reported", minimum=2)
    may = pm.may_consume()
    for fname, fn in pm.methods.items():
        if fname == "__init__":
            continue
        cfg = pm.cfg(fname)
        for n in cfg.nodes:
            peeks = [c for c, r in pm.node_calls(fname, n) if r == ("lex", "current_location")]
            if not peeks:
                continue

            def consumes(x: Node, fname=fname) -> bool:
                for c, r in pm.node_calls(fname, x):
                    if r and ((r[0] == "lex" and r[1] in LEX_CONSUME) or (r[0] == "self" and r[1] in may)):
                        return True
                return False
            # uses: callback sites / location stores reachable from the peek without a consuming call in between
            bad = []
            if _stores_location_directly(n):
                # the peek is evaluated in the store itself: nothing can be consumed in between
                # -> fine only if a consuming call follows before the callback
                pass
            for m in cfg.nodes:
                cbs = [r for c, r in pm.node_calls(fname, m) if r and r[0] == "visitor"]
                if cbs and (m is n or cfg.paths_avoiding(n, m, consumes)) and not consumes(n):
                    # consumption inside the callback node's own arguments does not count
                    if m is n or not consumes(m) or True:
                        bad.append(cbs[0][1])
            ctx.ob("R10.6", f"parser:CxxParser.{fname}|`{short(n.stmt, 50)}`", not bad,
                   msg=f"current_location() is read and {bad[:1]} is delivered without any token being consumed in between: the location is that of the token after the declaration",
                   node=n.stmt, mod=mod)

    # ---------------------------------------------------------------- R10.9 / R10.10
    # "error messages begin with the file and line of the failing token": the handler's message text is C06's R6.1m;
    # "each callback reports its own line": a location parked on the parser for a later declaration to pick up outlives
    # the declaration it belongs to -- C12's OWN rule R12.1 (which attributes the parser may carry between declarations).
    if not isinstance(ctx, SubCtx):
        from . import c06 as _c06, c12 as _c12
        run_shared(ctx, _c06.run, {"R6.1m": ("R10.9", "error message: file name, then the line of the token the error is about")})
        run_shared(ctx, _c12.run, {"R12.1": ("R10.10", "nothing is carried on the parser from one declaration to the next (a parked location would be reported for a later declaration)")})

    # ---------------------------------------------------------------- R10.8
    # "the real ones": the lexer counts "\n"; what the text goes through before it is lexed must not change how many line
    # ends a line has (CRLF turned into two line ends counts every line twice).  C09's carriage-return rule R9.5,
    # evaluated here under this property's id.
    if not isinstance(ctx, SubCtx):
        from . import c09 as _c09
        run_shared(ctx, _c09.run, {"R9.5": ("R10.8", "line-end normalisation before lexing keeps one line end per line (CR LF becomes one LF; nothing else is turned into a line end)")})


def _stores_location_directly(n: Node) -> bool:
    st = n.stmt
    return n.kind == "stmt" and isinstance(st, ast.Assign) and any(isinstance(t, ast.Attribute) and t.attr == "location" for t in st.targets)


def _location_like(pm: ParserModel, fname: str, e: ast.AST, depth: int = 0) -> bool:
    if isinstance(e, ast.Attribute) and e.attr == "location":
        return True
    if isinstance(e, ast.Call):
        ch = pm.chain(fname, e.func)
        return ch is not None and ch[-1] == "current_location"
    if isinstance(e, ast.Name) and depth < 4:
        fn = pm.fn(fname)
        for a in fn.args.args + fn.args.kwonlyargs:
            if a.arg == e.id:
                return a.annotation is not None and "Location" in norm(a.annotation)
        defs = [st for st in walk_local(fn) if isinstance(st, ast.Assign) and any(isinstance(t, ast.Name) and t.id == e.id for t in st.targets)]
        return bool(defs) and all(_location_like(pm, fname, d.value, depth + 1) for d in defs)
    return False
