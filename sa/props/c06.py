"""C06 -- every input ends in a result or a CxxParseError that says where."""
from __future__ import annotations

import ast
from typing import List, Optional, Set, Tuple

from ..cfg import CFG, Node, reaching_defs
from ..kinds import KindAnalysis, node_containing
from ..lexmodel import LexModel
from ..model import AnalysisError, attr_chain, is_self_attr, norm, short, walk_local
from ..pmodel import ParserModel
from ..report import Ctx, SubCtx
from .. import balanced
from ..tokbuf import FillModel
from ..vmodel import VisitorModel
from .. import swap
from .c04 import _always_raises, _kind_obligations, _parent_none_guard, check_exception_discipline

LEVEL = "exception-discipline and guard-dominance rules over parser.py / lexer.py"
EXPLANATION = (
    "R6.1 everything that consumes tokens runs inside the catch-all of parse(), whose every path raises CxxParseError chained to the "
    "caught exception, with a message that starts with the file name (and the token's line on the token branch). R6.2 every token that "
    "can reach the handler has a location: tokens are stamped before they are buffered, LexError tokens are stamped in _error, and the "
    "location-less placeholder is confined to the trial parse. R6.3 lexer error rules never return. R6.4 the enumerated structural "
    "checks exist and dominate the effect they protect: block-kind guards (access specifier, friend, namespace, concept, extern, "
    "using-directive), '{' without owner, unbalanced '}', bracket mismatch, modifier validation after every _parse_type. "
    "R6.5 no token regex matches the empty string. Not decided: that every ill-formed input is rejected (the README disclaims it)."
)


def run(ctx: Ctx) -> None:
    pm = ParserModel(ctx.repo)
    vm = VisitorModel(ctx.repo)
    lm = LexModel(ctx.repo)
    fm = FillModel(ctx.repo)
    mod = pm.mod
    lex = lm.lexer
    ctx.trusted = ["Python exception semantics: `except Exception` catches every non-exit exception", "call graph resolution of parser.py"]
    ctx.undecided = ["that every ill-formed input is rejected (only the enumerated structural checks are decided)",
                     "that the reported line 'exists in the input' (a value; its provenance is decided under C10)"]

    # ---------------------------------------------------------------- R6.1
    check_exception_discipline(ctx, "R6.1", pm)
    ctx.rule("R6.1m", "error message: starts with the file name, then the token's line when a token is known", minimum=2)
    parse = pm.fn("parse")
    handlers = [h for t in walk_local(parse) if isinstance(t, ast.Try) for h in t.handlers]
    msgs = []
    cfg = pm.cfg("parse")
    rd = reaching_defs(cfg, skip_exc=False)
    # every message text that can reach a `raise CxxParseError(<text>)` of the handler: written in place or through a local
    def leading(e: ast.AST, at, holder, depth: int = 0):
        """the format strings the text of `e` can begin with"""
        if isinstance(e, ast.JoinedStr):
            return [(holder, e)]
        if isinstance(e, ast.Call) and isinstance(e.func, ast.Attribute) and e.func.attr == "format" and isinstance(e.func.value, ast.Constant) and isinstance(e.func.value.value, str) and not e.keywords:
            # "{}:{}: ...".format(a, b, ...) with automatic numbering is the f-string with those values; a starred
            # argument stands for as many leading items of it as fields are left
            tmpl = e.func.value.value
            pieces = tmpl.split("{}")
            if "{" not in "".join(pieces) and "}" not in "".join(pieces):
                nfields = len(pieces) - 1
                plain = [a for a in e.args if not isinstance(a, ast.Starred)]
                stars = [a for a in e.args if isinstance(a, ast.Starred)]
                vals: List[ast.AST] = []
                if len(stars) <= 1 and nfields >= len(plain):
                    for a in e.args:
                        if isinstance(a, ast.Starred):
                            vals += [ast.Subscript(value=a.value, slice=ast.Constant(value=i_), ctx=ast.Load()) for i_ in range(nfields - len(plain))]
                        else:
                            vals.append(a)
                    if len(vals) == nfields:
                        parts: List[ast.AST] = []
                        for i_, pc in enumerate(pieces):
                            if pc:
                                parts.append(ast.Constant(value=pc))
                            if i_ < nfields:
                                parts.append(ast.FormattedValue(value=vals[i_], conversion=-1, format_spec=None))
                        return [(holder, ast.fix_missing_locations(ast.copy_location(ast.JoinedStr(values=parts), e)))]
        if isinstance(e, ast.BinOp) and isinstance(e.op, ast.Add):
            return leading(e.left, at, holder, depth)
        if isinstance(e, ast.Name) and at is not None and depth < 4:
            out = []
            for di in rd.get(at.id, {}).get(e.id, ()):
                dn = cfg.nodes[di]
                ds = dn.stmt
                if isinstance(ds, ast.Assign) and len(ds.targets) == 1 and isinstance(ds.targets[0], ast.Name):
                    out += leading(ds.value, dn, ds, depth + 1)
                else:
                    out.append((holder, None))
            return out or [(holder, None)]
        return [(holder, None)]

    for h in handlers:
        for st in ast.walk(h):
            if isinstance(st, ast.Raise) and isinstance(st.exc, ast.Call) and norm(st.exc.func) == "CxxParseError" and st.exc.args:
                for holder, js_ in leading(st.exc.args[0], node_containing(cfg, st), st):
                    msgs.append((h, holder, js_))
    for h, st, js in msgs:
        if js is None:
            ctx.ob("R6.1m", f"parser:CxxParser.parse|message `{short(st, 60)}`", False, msg="the error message is not a format string that starts with the file name", node=st, mod=mod)
            continue
        vals = js.values
        ok = False
        why = "the message does not start with a file name"
        n = node_containing(cfg, st)
        if vals and isinstance(vals[0], ast.FormattedValue):
            first = vals[0].value
            if isinstance(first, ast.Attribute) and first.attr == "filename" and isinstance(first.value, ast.Attribute) and first.value.attr == "location":
                # f"{tok.location.filename}:{tok.location.lineno}: ..." (the fields of the same location)
                ok = len(vals) >= 3 and isinstance(vals[1], ast.Constant) and vals[1].value == ":" and isinstance(vals[2], ast.FormattedValue) and isinstance(vals[2].value, ast.Attribute) \
                    and vals[2].value.attr == "lineno" and norm(vals[2].value.value) == norm(first.value)
                why = "" if ok else "the message is not `<file of tok.location>:<line of tok.location>:`"
            elif isinstance(first, ast.Subscript) and isinstance(first.value, ast.Attribute) and first.value.attr == "location" and isinstance(first.slice, ast.Constant) and first.slice.value == 0:
                # the location unpacked by position: (file name, line)
                ok = len(vals) >= 3 and isinstance(vals[1], ast.Constant) and vals[1].value == ":" and isinstance(vals[2], ast.FormattedValue) and isinstance(vals[2].value, ast.Subscript) \
                    and norm(vals[2].value.value) == norm(first.value) and isinstance(vals[2].value.slice, ast.Constant) and vals[2].value.slice.value == 1
                why = "" if ok else "the message is not `<file of tok.location>:<line of tok.location>:`"
            elif is_self_attr(first, "filename"):
                ok = len(vals) > 1 and isinstance(vals[1], ast.Constant) and str(vals[1].value).startswith(":")
                why = "" if ok else "file name is not followed by ':'"
            elif isinstance(first, ast.Name) and n is not None:
                defs = [cfg.nodes[i] for i in rd.get(n.id, {}).get(first.id, ())]
                # tuple unpack of <tok>.location, first element
                good = bool(defs)
                second = None
                for d in defs:
                    s = d.stmt
                    if isinstance(s, ast.Assign) and isinstance(s.targets[0], (ast.Tuple, ast.List)) and isinstance(s.value, ast.Attribute) and s.value.attr == "location":
                        names = [e.id for e in s.targets[0].elts if isinstance(e, ast.Name)]
                        if not names or names[0] != first.id:
                            good = False
                        else:
                            second = names[1] if len(names) > 1 else None
                    else:
                        good = False
                if good and second and len(vals) >= 3 and isinstance(vals[1], ast.Constant) and vals[1].value == ":" and isinstance(vals[2], ast.FormattedValue) and isinstance(vals[2].value, ast.Name) and vals[2].value.id == second:
                    ok = True
                    why = ""
                else:
                    why = "the message is not `<file of tok.location>:<line of tok.location>:`"
        ctx.ob("R6.1m", f"parser:CxxParser.parse|message `{short(st, 60)}`", ok, msg=why, node=st, mod=mod)

    # "once any token has been read, a line number": the handler takes the line from the exception's token or, failing that,
    # from the loop's current token.  An error raised by parse() itself inside the try must therefore carry a token that is
    # known to exist where it is raised - at the end of input the loop's token variable is None again
    from .c04 import _known_not_none
    pfn = pm.fn("parse")
    pcfg = pm.cfg("parse")
    prd = reaching_defs(pcfg, skip_exc=False)
    handlers_ = [h for t_ in walk_local(pfn) if isinstance(t_, ast.Try) for h in t_.handlers]
    in_handler = {id(x) for h in handlers_ for x in ast.walk(h)}
    n_raise = 0
    for n in pcfg.nodes:
        if n.kind != "stmt" or not isinstance(n.stmt, ast.Raise) or id(n.stmt) in in_handler or n.stmt.exc is None:
            continue
        n_raise += 1
        exc = n.stmt.exc
        tokarg = None
        if isinstance(exc, ast.Call):
            fch = attr_chain(exc.func) or ("",)
            if fch[-1] in ("CxxParseError", "LexError") and len(exc.args) >= 2:
                tokarg = exc.args[1]
            elif fch[-1] == "_parse_error" and exc.args:
                tokarg = exc.args[0]
        okr = isinstance(tokarg, ast.Name) and _known_not_none(pcfg, prd, n, tokarg.id)
        ctx.ob("R6.1m", f"parser:CxxParser.parse|`{short(n.stmt, 50)}` carries a token", okr,
               msg=f"`{short(n.stmt, 70)}` is raised inside parse()'s own loop without a token that is known to exist there: the handler has no line to report although tokens have been read (e.g. at the end of input, where the loop's token is None)",
               node=n.stmt, mod=mod)
    ctx.ob("R6.1m", "parser:CxxParser.parse|errors raised by the loop itself", True, node=pfn, mod=mod, nontrivial=False, detail={"raise statements in the try body": n_raise})

    if isinstance(ctx, SubCtx) and set(ctx._map) <= {"R6.1m", "R6.1"}:
        return  # evaluated for another property that shares only the rules above
    # ---------------------------------------------------------------- R6.2
    ctx.rule("R6.2", "every token that can reach the error handler carries a location", minimum=3)
    stamp = [f for f in fm.linear() if f[0] == "stamp"]
    for n, v in fm.appends:
        bad = [f for f in stamp if f[1] is n.stmt]
        ctx.ob("R6.2", f"lexer:LexerTokenStream._fill_tokbuf|`{short(n.stmt)}` stamped", not bad, msg=bad[0][2] if bad else "", node=n.stmt, mod=lex)
    # every LexError / CxxParseError built around a token in lexer.py: the token was stamped with a location before, in
    # the same function; the error is raised there, or returned to callers that raise it at once (an error factory)
    factories = set()
    built = 0
    for qual, fn_ in lex.functions():
        ctors = [c for c in walk_local(fn_) if isinstance(c, ast.Call) and isinstance(c.func, ast.Name) and c.func.id in ("LexError", "CxxParseError") and len(c.args) >= 2]
        if not ctors:
            continue
        hcfg = CFG(fn_)
        for c in ctors:
            built += 1
            tokx = c.args[1]
            n = node_containing(hcfg, c)
            stamps = [m for m in hcfg.nodes if m.kind == "stmt" and isinstance(m.stmt, ast.Assign) and isinstance(tokx, ast.Name) and any(attr_chain(t) == (tokx.id, "location") for t in m.stmt.targets)]
            stamped = n is not None and any(hcfg.dominates(s_, n) and s_ is not n for s_ in stamps)
            par = lex.parent.get(c)
            raised = isinstance(par, ast.Raise) and par.exc is c
            returned = isinstance(par, ast.Return)
            if returned:
                factories.add(fn_.name)
            ctx.ob("R6.2", f"lexer:{qual}|{c.func.id}(msg, tok) stamped first, then raised", stamped and (raised or returned),
                   msg=f"{qual} builds a {c.func.id} around a token " + ("that has no location yet (the handler in parse() reads tok.location)" if not stamped else "without raising it: the malformed text is accepted"), node=c, mod=lex)
    if not built:
        raise AnalysisError("anchor vanished: no LexError is built around a token in lexer.py")
    for qual, fn_ in lex.functions():
        for c in walk_local(fn_):
            ch_ = attr_chain(c.func) if isinstance(c, ast.Call) else None
            if ch_ and len(ch_) == 2 and ch_[0] == "self" and ch_[1] in factories:
                par = lex.parent.get(c)
                ctx.ob("R6.2", f"lexer:{qual}|`{short(c, 40)}` is raised", isinstance(par, ast.Raise) and par.exc is c,
                       msg=f"the error built by {ch_[1]} is not raised where it is built: the malformed text is accepted", node=c, mod=lex, nontrivial=False)
    swap.phony_confined(ctx, "R6.2", pm)

    # ---------------------------------------------------------------- R6.3
    ctx.rule("R6.3", "lexer error rules never return a token or None: they reach _error on every path", minimum=5)
    for r in lm.rules:
        if r.kind == "fn" and ("BAD" in r.name or "UNMATCHED" in r.name):
            ctx.ob("R6.3", f"lexer:PlyLexer.{r.name}|always raises", r.exits == {"raise"},
                   msg=f"{r.name} can finish normally ({sorted(r.exits)}): the malformed text is silently dropped or accepted", node=r.node, mod=lex)
    te = lm.error_rule
    ok = te is not None
    if ok:
        tcfg = CFG(te)
        ok = False
        preds = [p for p, _ in tcfg.exit.pred]
        ok = bool(preds) and all(p.kind == "stmt" and isinstance(p.stmt, ast.Expr) and isinstance(p.stmt.value, ast.Call) and (attr_chain(p.stmt.value.func) or ("", ""))[0] == "self" and (attr_chain(p.stmt.value.func) or ("", ""))[-1] in lm.noreturn_methods() for p in preds)
        ok = ok or tcfg.exit.id not in tcfg.reachable()
    ctx.ob("R6.3", "lexer:PlyLexer.t_error|always raises", ok, msg="t_error is missing or can return: an illegal character would be skipped", node=te or lm.cls, mod=lex)
    pp = lm.rule("t_PP_DIRECTIVE")
    ctx.ob("R6.3", "lexer:PlyLexer.t_PP_DIRECTIVE|unsupported directives raise", "raise" in pp.exits and "token" not in pp.exits,
           msg="t_PP_DIRECTIVE no longer reaches _error for unprocessed directives", node=pp.node, mod=lex)

    # ---------------------------------------------------------------- R6.4
    ctx.rule("R6.4", "enumerated structural checks dominate the effect they protect", minimum=35)
    killers = pm.closure({"_setup_state", "_pop_state"})
    ka = KindAnalysis(pm, vm.dom, paths=[("self", "state")], killers=killers)
    _kind_obligations(ctx, "R6.4", pm, vm, ka)
    # _set_access only on a class block
    for fname, fn in pm.methods.items():
        cfgf = pm.cfg(fname)
        for n in cfgf.nodes:
            for c in n.calls():
                if isinstance(c.func, ast.Attribute) and c.func.attr == "_set_access":
                    have = ka.kinds_at(fname, n, c.func.value)
                    ctx.ob("R6.4", f"parser:CxxParser.{fname}|_set_access receiver", have <= frozenset({"ClassBlockState"}),
                           msg=f"an access specifier is applied to a state that may be {sorted(have)}: outside a class it must be a parse error", node=c, mod=mod)
    # friend only in a class
    fr = pm.fn("_parse_friend_decl")
    fcfg = pm.cfg("_parse_friend_decl")
    for n in fcfg.nodes:
        for c, r in pm.node_calls("_parse_friend_decl", n):
            if r == ("self", "_parse_declarations"):
                have = ka.kinds_at("_parse_friend_decl", n, ast.Attribute(value=ast.Name(id="self", ctx=ast.Load()), attr="state", ctx=ast.Load()))
                ctx.ob("R6.4", "parser:CxxParser._parse_friend_decl|friend only inside a class", have <= frozenset({"ClassBlockState"}),
                       msg="a friend declaration is parsed although the current block may not be a class", node=c, mod=mod)
    eb = pm.fn("_on_empty_block_start")
    ecf = pm.cfg("_on_empty_block_start")
    ctx.ob("R6.4", "parser:CxxParser._on_empty_block_start|'{' without owner always raises", ecf.exit.id not in ecf.reachable() and pm.dispatch.get("{") == "_on_empty_block_start",
           msg="a '{' that belongs to no declaration is accepted", node=eb, mod=mod)
    pcfg = pm.cfg("_pop_state")
    recv = None
    for n in pcfg.nodes:
        st = n.stmt
        if n.kind == "stmt" and isinstance(st, ast.Assign) and is_self_attr(st.value, "state") and isinstance(st.targets[0], ast.Name):
            recv = st.targets[0].id
    guard = _parent_none_guard(pcfg, recv) if recv else None
    ctx.ob("R6.4", "parser:CxxParser._pop_state|unbalanced '}' raises", guard is not None, msg="no `parent is None -> raise` check: a stray '}' pops the root block", node=pm.fn("_pop_state"), mod=mod)
    # the balanced consumer, interpreted over bracket scripts (sa/balanced.py): a closer that is not the innermost
    # expectation raises at that token, and nothing is accepted early or late
    balanced.obligations(ctx, "R6.4", pm, ("raise", "return"))
    _validate_after_parse_type(ctx, pm)
    _validate_flags(ctx, pm)

    # ---------------------------------------------------------------- R6.5
    ctx.rule("R6.5", "no token regex matches the empty string (the PLY loop always advances)", minimum=30)
    for r in lm.rules:
        a = r.auto(lm.reflags)
        ctx.ob("R6.5", f"lexer:PlyLexer.{r.name}|not nullable", not a.nullable, msg=f"{r.name} matches the empty string", node=r.node, mod=lex, nontrivial=False)

    # ---------------------------------------------------------------- R6.8
    # ParsedTypeModifiers.validate(var_ok, meth_ok) is the check behind "specifiers where they are not allowed are rejected".
    # It is small enough to be decided outright: its source is interpreted (sa/miniexec.py) for every combination of the two
    # flags and of which modifier groups are present; it must raise exactly when a present group is not allowed - variable
    # specifiers without var_ok, method specifiers without meth_ok, the shared ones only when neither is allowed.
    ctx.rule("R6.8", "ParsedTypeModifiers.validate raises exactly for a present, disallowed modifier group (all 32 flag/group combinations)", minimum=1)
    from ..miniexec import Opaque as _Op, Run as _Run, Tok as _Tok, Unsupported as _Uns
    ps_mod = ctx.repo.mod("parserstate")
    vfn = ps_mod.func("ParsedTypeModifiers.validate")
    vcfg = CFG(vfn)
    wrong = []
    unsupported = None
    import itertools as _it
    for var_ok, meth_ok, hv, hm, hb in _it.product((False, True), repeat=5):
        selfobj = {"vars": {"mutable": _Tok("mutable")} if hv else {}, "meths": {"virtual": _Tok("virtual")} if hm else {}, "both": {"static": _Tok("static")} if hb else {}}
        run = _Run(vcfg, {"self": selfobj, "var_ok": var_ok, "meth_ok": meth_ok, "msg": "m"}, [], lambda c: False,
                   extern=lambda c, r: (_ for _ in ()).throw(_Uns(norm(c)[:40])) if not (isinstance(c.func, ast.Name) and c.func.id == "CxxParseError") else "CxxParseError")
        try:
            run.run()
        except _Uns as e:
            unsupported = str(e)
            break
        want = (hv and not var_ok) or (hm and not meth_ok) or (hb and not var_ok and not meth_ok)
        if bool(run.raised) != want:
            wrong.append((var_ok, meth_ok, [g for g, h in (("variable", hv), ("method", hm), ("shared", hb)) if h], bool(run.raised)))
    if unsupported:
        ctx.note(f"ParsedTypeModifiers.validate uses a construct the interpreter does not model ({unsupported}): R6.8 not evaluated")
        ctx.ob("R6.8", "parserstate:ParsedTypeModifiers.validate|decidable", True, node=vfn, mod=ps_mod, nontrivial=False)
    else:
        w = wrong[0] if wrong else None
        ctx.ob("R6.8", "parserstate:ParsedTypeModifiers.validate|raises exactly for disallowed groups", not wrong,
               msg=(f"validate(var_ok={w[0]}, meth_ok={w[1]}) with {w[2] or 'no'} specifier group(s) present {'raises' if w[3] else 'does not raise'}: "
                    + ("a specifier that is not allowed here is silently accepted" if w and not w[3] else "a well-formed declaration is rejected")) if w else "",
               node=vfn, mod=ps_mod, detail={"combinations": 32, "wrong": len(wrong)})

    # ---------------------------------------------------------------- R6.9
    # The catch-all is in parse(); what runs when the parser is *constructed* (CxxParser.__init__, the token stream's and
    # the lexer's constructors, Lexer.input) runs outside it, so for "every input" nothing there may fail on some text.
    # A text is never indexed there (`content[0]` raises IndexError for the empty input; slices and the
    # prefix/suffix/replace methods cannot fail) unless a test of the same text dominates the access.
    ctx.rule("R6.9", "code that runs at construction, outside the catch-all, does not index the input text (empty input raises IndexError there)", minimum=3)
    lexmod_ = ctx.repo.mod("lexer")
    plymod_ = ctx.repo.mod("_ply.lex")
    ctor_fns = [(mod, "parser", pm.fn("__init__"), "CxxParser.__init__")]
    for q_ in ("LexerTokenStream.__init__", "PlyLexer.__init__", "PlyLexer.__new__"):
        try:
            ctor_fns.append((lexmod_, "lexer", lexmod_.func(q_), q_))
        except AnalysisError:
            pass
    try:
        ctor_fns.append((plymod_, "_ply.lex", plymod_.func("Lexer.input"), "Lexer.input"))
    except AnalysisError:
        pass
    for m_, mn_, f_, q_ in ctor_fns:
        strs_ = {a.arg for a in f_.args.args + f_.args.kwonlyargs if a.annotation is not None and norm(a.annotation) in ("str", "typing.Optional[str]", "Optional[str]")}
        if q_ == "Lexer.input":
            strs_ |= {a.arg for a in f_.args.args[1:]}
        # locals defined from a text stay texts (x = content.replace(...), x = content[1:], x = fp.read())
        grew = True
        while grew:
            grew = False
            for st in walk_local(f_):
                if isinstance(st, ast.Assign) and len(st.targets) == 1 and isinstance(st.targets[0], ast.Name) and st.targets[0].id not in strs_:
                    v = st.value
                    base = v.func.value if isinstance(v, ast.Call) and isinstance(v.func, ast.Attribute) else (v.value if isinstance(v, ast.Subscript) else v)
                    if isinstance(base, ast.Name) and base.id in strs_:
                        strs_.add(st.targets[0].id)
                        grew = True
        bad = None
        for x in walk_local(f_):
            if isinstance(x, ast.Subscript) and isinstance(x.ctx, ast.Load) and not isinstance(x.slice, ast.Slice) and isinstance(x.value, ast.Name) and x.value.id in strs_:
                # guarded by a test of the same text (truth value, length, prefix) in an enclosing `if`/`and`
                guarded = False
                cur = x
                while cur is not None and cur is not f_:
                    par = m_.parent.get(cur)
                    if isinstance(par, ast.BoolOp) and isinstance(par.op, ast.And):
                        i_ = next((k for k, v_ in enumerate(par.values) if v_ is cur), 0)
                        if any(isinstance(n_, ast.Name) and n_.id == x.value.id for v_ in par.values[:i_] for n_ in ast.walk(v_)):
                            guarded = True
                    if isinstance(par, (ast.If, ast.While)) and cur is not par.test and cur in par.body and any(isinstance(n_, ast.Name) and n_.id == x.value.id for n_ in ast.walk(par.test)):
                        guarded = True
                    if isinstance(par, ast.IfExp) and cur is par.body and any(isinstance(n_, ast.Name) and n_.id == x.value.id for n_ in ast.walk(par.test)):
                        guarded = True
                    cur = par
                if not guarded:
                    bad = x
                    break
        ctx.ob("R6.9", f"{mn_}:{q_}|no unguarded index into the input text", bad is None,
               msg=f"`{short(bad, 40) if bad is not None else ''}` runs when the parser is constructed, outside parse()'s catch-all: for the empty input it raises IndexError instead of the parse ending in a result or a CxxParseError", node=bad or f_, mod=m_, nontrivial=False)

    # ---------------------------------------------------------------- R6.10
    # "bracket mismatch": a closer that does not match the innermost open bracket is rejected by the balanced consumer,
    # which compares every closer with its expectation (decided above by interpretation).  Matching by *counting* one
    # kind of bracket accepts `{ f(1 ], 2 }`; the only place that may count is the body skipper, whose regions contribute
    # nothing.  Anywhere else in parser.py a +-1 counter driven by a test on a bracket token is a finding.
    ctx.rule("R6.10", "brackets are matched by counting only in the body skipper; every other group goes through the checking consumer", minimum=0)
    _BR = {"{", "}", "(", ")", "[", "]", "<", ">", "DBL_LBRACKET", "DBL_RBRACKET"}
    seen_counter = 0
    for fname in sorted(pm.methods):
        cfg_ = pm.cfg(fname)
        for n in cfg_.nodes:
            st = n.stmt
            if n.kind != "stmt":
                continue
            step = None
            if isinstance(st, ast.AugAssign) and isinstance(st.op, (ast.Add, ast.Sub)) and isinstance(st.target, ast.Name) and isinstance(st.value, ast.Constant) and st.value.value == 1:
                step = st.target.id
            elif isinstance(st, ast.Assign) and len(st.targets) == 1 and isinstance(st.targets[0], ast.Name) and isinstance(st.value, ast.BinOp) and isinstance(st.value.op, (ast.Add, ast.Sub)) \
                    and isinstance(st.value.left, ast.Name) and st.value.left.id == st.targets[0].id and isinstance(st.value.right, ast.Constant) and st.value.right.value == 1:
                step = st.targets[0].id
            if step is None:
                continue
            deps = cfg_.control_deps(n)
            on_bracket = [d for d, lab in deps if d.cond is not None and any(isinstance(x, ast.Constant) and x.value in _BR for x in ast.walk(d.cond))
                          or (d.cond is not None and any(isinstance(x, ast.Name) and x.id in ("start_type", "end_type") for x in ast.walk(d.cond)))]
            if not on_bracket:
                continue
            seen_counter += 1
            ok = fname == "_discard_contents"
            ctx.ob("R6.10", f"parser:CxxParser.{fname}|`{short(st, 30)}` under `{short(on_bracket[0].cond, 40)}`", ok,
                   msg=f"{fname} matches brackets by counting (`{short(st, 30)}`): a closer of another kind inside the group is not compared with anything, so a bracket mismatch in this position is accepted silently instead of ending in a CxxParseError", node=st, mod=mod)
    # (no counter at all -- the skipper written with a step table, say -- leaves nothing to report here; the skipper
    # itself is decided by interpretation under C13)

    # ---------------------------------------------------------------- R6.11
    # "specifiers that are not allowed where they appear are rejected": validate() can only reject what the type parser
    # recorded.  That every specifier token consumed by its loop leaves a trace is C01's R1.13, evaluated here under this id.
    from .c01 import check_specifier_arms as _csa
    _csa(ctx, "R6.11", pm)

    # ---------------------------------------------------------------- R6.7
    # "unprocessed preprocessor conditionals or defines ... are rejected": a directive can only be rejected if the lexer
    # rule that matches it does not silently drop it; which rule functions may finish without a token is C08's R8.1,
    # evaluated here under this property's id.
    from . import c08 as _c08
    from ..report import run_shared
    run_shared(ctx, _c08.run, {"R8.1": ("R6.7", "only #line and #warning directives are dropped by the lexer: every other directive reaches the error rule")})

    # ---------------------------------------------------------------- R6.6
    # "... a line number that exists in the input (or is set by a #line directive)": the
    # re-basing arithmetic of the '#line' branch is what makes the reported number the
    # directive's; the rule is C10's R10.3, evaluated here under this property's id.
    from . import c10
    from ..report import run_shared
    run_shared(ctx, c10.run, {"R10.3": ("R6.6", "#line re-basing: line_offset = physical lineno - N + 1, file name from the same match (so an error after a #line directive names the directive's file and line)")})

def _validate_after_parse_type(ctx: Ctx, pm: ParserModel) -> None:
    """Every `X, M = self._parse_type(...)`: on every completing path M.validate(...) is
    called (directly, or by a callee that validates its parameter before returning True)."""
    mod = pm.mod
    # summary: methods that validate a ParsedTypeModifiers parameter on every path that returns True
    summaries = {}
    for fname, fn in pm.methods.items():
        for i, a in enumerate(fn.args.args[1:]):
            if a.annotation is not None and "ParsedTypeModifiers" in norm(a.annotation):
                cfg = pm.cfg(fname)
                val = [n for n in cfg.nodes for c in n.calls() if attr_chain(c.func) == (a.arg, "validate")]
                rets = [n for n in cfg.nodes if n.kind == "stmt" and isinstance(n.stmt, ast.Return) and isinstance(n.stmt.value, ast.Constant) and n.stmt.value.value is True]
                if val and rets and all(any(cfg.dominates(v, r) for v in val) for r in rets):
                    summaries[fname] = i
    for fname, call in pm.call_sites("_parse_type"):
        cfg = pm.cfg(fname)
        n = node_containing(cfg, call)
        st = n.stmt if n is not None else None
        mvar = None
        if isinstance(st, ast.Assign) and isinstance(st.targets[0], ast.Tuple) and len(st.targets[0].elts) == 2 and isinstance(st.targets[0].elts[1], ast.Name):
            mvar = st.targets[0].elts[1].id
        if mvar is None:
            ctx.ob("R6.4", f"parser:CxxParser.{fname}|modifiers of _parse_type are bound", False, msg=f"`{short(st)}` does not keep the modifier set returned by _parse_type", node=call, mod=mod)
            continue
        # DFS: can we reach exit without validating?
        seen = set()
        stack = [s for s, lab in n.succ if lab != "exc"]
        leak = None
        while stack:
            x = stack.pop()
            if x.id in seen:
                continue
            seen.add(x.id)
            if x is cfg.exit:
                leak = x
                break
            if x is cfg.raise_exit:
                continue
            done = False
            via_true_only = False
            for c, r in pm.node_calls(fname, x):
                if attr_chain(c.func) == (mvar, "validate"):
                    done = True
                if r and r[0] == "self" and r[1] in summaries:
                    idx = summaries[r[1]]
                    if idx < len(c.args) and isinstance(c.args[idx], ast.Name) and c.args[idx].id == mvar:
                        via_true_only = True
            if done:
                continue
            if x.kind == "stmt" and isinstance(x.stmt, ast.Return):
                # returning the modifiers to the caller hands over the obligation
                if any(isinstance(y, ast.Name) and y.id == mvar for y in ast.walk(x.stmt)):
                    continue
            for s, lab in x.succ:
                if lab == "exc":
                    continue
                if via_true_only and x.kind == "test" and lab == "T":
                    continue  # the callee validated before returning True
                stack.append(s)
        ctx.ob("R6.4", f"parser:CxxParser.{fname}|{mvar}.validate after _parse_type", leak is None,
               msg=f"a path from `{short(st)}` reaches the end of {fname} without {mvar}.validate(...): specifiers that are not allowed here are silently accepted", node=call, mod=mod)


def _validate_flags(ctx: Ctx, pm: ParserModel) -> None:
    """Specifier validation is asked for what the context allows: variable-only specifiers
    never in a typedef, method-only specifiers only for a non-typedef declaration inside a
    class, and nothing at all in type-only contexts."""
    from ..booleval import UNKNOWN, ev, paths_to
    mod = pm.mod

    def sym(e):
        if isinstance(e, ast.Call) and isinstance(e.func, ast.Name) and e.func.id == "isinstance" and len(e.args) == 2 and is_self_attr(e.args[0], "state") and norm(e.args[1]) == "ClassBlockState":
            return "<in_class>"
        return None

    for fname, fn in pm.methods.items():
        cfg = pm.cfg(fname)
        for n in cfg.nodes:
            for c in n.calls():
                if not (isinstance(c.func, ast.Attribute) and c.func.attr == "validate"):
                    continue
                kw = {k.arg: k.value for k in c.keywords}
                if "var_ok" not in kw or "meth_ok" not in kw:
                    ctx.ob("R6.4", f"parser:CxxParser.{fname}|validate({short(c, 30)}) names both flags", False, msg="validate is not called with var_ok= and meth_ok=", node=c, mod=mod)
                    continue
                params = [a.arg for a in fn.args.args]
                has_td = "is_typedef" in params
                combos = [(td, ic) for td in ((True, False) if has_td else (None,)) for ic in (True, False)]
                bad = []
                seen_any = False
                for td, ic in combos:
                    inputs = {"<in_class>": ic}
                    if td is not None:
                        inputs["is_typedef"] = td
                    try:
                        envs = paths_to(cfg, n, inputs, sym)
                    except RuntimeError:
                        raise AnalysisError(f"path enumeration too large in {fname}")
                    for env in envs:
                        seen_any = True
                        v = ev(kw["var_ok"], env, sym)
                        m = ev(kw["meth_ok"], env, sym)
                        if fname == "_parse_declarations":
                            want = (False, False) if td else ((True, True) if ic else (True, False))
                        elif fname == "_maybe_parse_class_enum_decl":
                            # forward declaration: nothing; class/enum definition: variable specifiers carry over to trailing declarators unless typedef
                            want = None
                            if v is False and m is False:
                                continue
                            want = (not td, False)
                        else:
                            want = (False, False)
                        if (v, m) != want:
                            bad.append(f"is_typedef={td}, in class={ic}: var_ok={_show(v)}, meth_ok={_show(m)} (required {want})")
                ctx.ob("R6.4", f"parser:CxxParser.{fname}|flags of `{short(c, 40)}`", seen_any and not bad,
                       msg="specifier validation is asked for more than the context allows: " + "; ".join(sorted(set(bad))[:3]), node=c, mod=mod,
                       detail={"combinations": len(combos)})


def _show(v):
    from ..booleval import UNKNOWN
    return "?" if v is UNKNOWN else v
