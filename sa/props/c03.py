"""C03 -- class bodies: member kinds, access levels and special members."""
from __future__ import annotations

import ast
from typing import Dict, List, Optional, Set, Tuple

from ..booleval import UNKNOWN, ev, paths_to
from ..cfg import CFG, Node, reaching_defs
from ..kinds import node_containing
from ..model import AnalysisError, attr_chain, is_self_attr, norm, short, stores_in, walk_local
from ..pmodel import ParserModel
from ..report import Ctx
from .. import loops

LEVEL = "finite-domain evaluation, ownership and ordering rules on the access-level mechanism"
EXPLANATION = (
    "R3.1 the default access computed from the class key is evaluated over {class, struct, union} and must be {private, public, public}; "
    "the same value feeds the base-clause default and the new ClassBlockState; per-base flags (access, virtual, pack) are re-initialised "
    "in every iteration of the base loop. R3.2 ClassBlockState.access is written only by its constructor and _set_access, which is called "
    "only from _process_access_specifier with the specifier token's text. R3.3 every construction of a dataclass that has an `access` "
    "field passes self._current_access (read before any block push); a nested ClassDecl therefore records the enclosing level. R3.4 "
    "_current_access reads the per-block state only (nothing cached on the parser), so a nested class cannot disturb its parent. R3.5 in "
    "_parse_method_end / _parse_fn_end a field is stored only under a test that admits exactly that field's own keywords; the qualifier "
    "keywords set with setattr are bool fields of Method. R3.6 anon_id is incremented by 1 and read into AnonymousName in the same block. "
    "Not decided: constructor/destructor/operator recognition and qualifier values in general (runtime name comparisons)."
)

# keyword spelled in the source -> the Method/Function field it may set
KW_FIELD = {
    "throw": {"throw"},
    "noexcept": {"noexcept"},
    "requires": {"raw_requires"},
    "0": {"pure_virtual"},
    "delete": {"deleted"},
    "default": {"default"},
    "->": {"has_trailing_return", "return_type", "has_body"},
    "ARROW": {"has_trailing_return", "return_type"},
    "&": {"ref_qualifier"},
    "&&": {"ref_qualifier"},
    ":": {"has_body"},
    "{": {"has_body"},
    "=": {"pure_virtual", "deleted", "default"},
}


def dataclass_fields(mod, cname: str) -> Dict[str, ast.AST]:
    out: Dict[str, ast.AST] = {}
    c = mod.cls(cname)
    for b in c.bases:
        if isinstance(b, ast.Name) and mod.has_cls(b.id):
            out.update(dataclass_fields(mod, b.id))
    for st in c.body:
        if isinstance(st, ast.AnnAssign) and isinstance(st.target, ast.Name):
            out[st.target.id] = st.annotation
    return out


def run(ctx: Ctx) -> None:
    pm = ParserModel(ctx.repo)
    mod = pm.mod
    types = ctx.repo.mod("types")
    ps = ctx.repo.mod("parserstate")
    ctx.trusted = ["dataclass field tables of types.py", "the keyword -> field table in sa/props/c03.py (from the documented meaning of the Method fields)"]
    ctx.undecided = ["constructor / destructor / conversion-operator recognition (name comparisons at run time)", "that every member is reported exactly once and in order (token-driven control flow)"]

    # ---------------------------------------------------------------- R3.1
    ctx.rule("R3.1", "class-key default access = {class: private, struct: public, union: public}; one value feeds bases and block; per-base flags reset each iteration", minimum=5)
    cd = pm.fn("_parse_class_decl")
    cfg = pm.cfg("_parse_class_decl")
    das = [n for n in cfg.nodes if n.kind == "stmt" and isinstance(n.stmt, ast.Assign) and any(isinstance(t, ast.Name) and t.id == "default_access" for t in n.stmt.targets)]
    ok = len(das) == 1
    table = {}
    if ok:
        def sym(e):
            if isinstance(e, ast.Attribute) and e.attr == "classkey":
                return "<classkey>"
            return None
        for ck in ("class", "struct", "union"):
            table[ck] = ev(das[0].stmt.value, {"<classkey>": ck}, sym)
        ok = table == {"class": "private", "struct": "public", "union": "public"}
    ctx.ob("R3.1", "parser:CxxParser._parse_class_decl|default access per class key", ok,
           msg=f"default access by class key is {table}; C++ requires class -> private, struct/union -> public", node=das[0].stmt if das else cd, mod=mod, detail=table)
    # the same variable feeds the base clause and the ClassBlockState
    uses_ok = False
    base_call = [c for c in walk_local(cd) if isinstance(c, ast.Call) and pm.resolve("_parse_class_decl", c) == ("self", "_parse_class_decl_base_clause")]
    st_call = [c for c in walk_local(cd) if isinstance(c, ast.Call) and isinstance(c.func, ast.Name) and c.func.id == "ClassBlockState"]
    if base_call and st_call:
        a1 = base_call[0].args[0] if base_call[0].args else None
        cparams = [a.arg for a in ps.func("ClassBlockState.__init__").args.args[1:]]
        idx = cparams.index("access") if "access" in cparams else None
        a2 = st_call[0].args[idx] if idx is not None and idx < len(st_call[0].args) else next((k.value for k in st_call[0].keywords if k.arg == "access"), None)
        uses_ok = isinstance(a1, ast.Name) and isinstance(a2, ast.Name) and a1.id == a2.id == "default_access"
    ctx.ob("R3.1", "parser:CxxParser._parse_class_decl|default access feeds bases and the class block", uses_ok,
           msg="the base-clause default and the block's initial access are not both the class-key default", node=cd, mod=mod)
    ctors = {c for c, _ in types.classes()}
    for fname in pm.methods:
        for loop, v, c, okk in loops.sticky_locals(pm, fname, ctors):
            if isinstance(c.func, ast.Name) and c.func.id == "BaseClass":
                ctx.ob("R3.1", f"parser:CxxParser.{fname}|{v} re-initialised for every base", okk,
                       msg=f"`{v}` handed to BaseClass(...) can keep its value from the previous base of the list: a base written without a specifier inherits its neighbour's", node=c, mod=mod)
    # in the base clause the access is the parameter or a consumed access-specifier token's type
    bc = pm.fn("_parse_class_decl_base_clause")
    bcfg = pm.cfg("_parse_class_decl_base_clause")
    brd = reaching_defs(bcfg)
    F = ctx.repo.folder("parser", "CxxParser")
    bav = set(F.get("_base_access_virtual"))
    for c in walk_local(bc):
        if isinstance(c, ast.Call) and isinstance(c.func, ast.Name) and c.func.id == "BaseClass" and c.args and isinstance(c.args[0], ast.Name):
            n = node_containing(bcfg, c)
            defs = [bcfg.nodes[i] for i in brd.get(n.id, {}).get(c.args[0].id, ())] if n else []
            param = bc.args.args[1].arg
            good = bool(defs)
            for d in defs:
                v = getattr(d.stmt, "value", None)
                if isinstance(v, ast.Name) and v.id == param:
                    continue
                if isinstance(v, ast.Name) and v.id.startswith("tok"):
                    continue
                if isinstance(v, ast.Attribute) and v.attr in ("type", "value"):
                    continue
                good = False
            ctx.ob("R3.1", "parser:CxxParser._parse_class_decl_base_clause|base access is the default or a consumed specifier", good and (bav - {"virtual"}) == {"public", "private", "protected"},
                   msg="the access given to BaseClass does not come from the default parameter or from an access-specifier token", node=c, mod=mod)

    # ---------------------------------------------------------------- R3.2
    ctx.rule("R3.2", "ClassBlockState.access: written by the constructor and _set_access only; _set_access called only for an access-specifier token", minimum=3)
    for m in ctx.repo.modules.values():
        for qual, fn in m.functions():
            for t, st in stores_in(fn):
                if isinstance(t, ast.Attribute) and t.attr == "access" and not (isinstance(t.value, ast.Name) and t.value.id in ("f", "fdecl")):
                    allowed = m.name == "parserstate" and qual in ("ClassBlockState.__init__", "ClassBlockState._set_access")
                    ctx.ob("R3.2", f"{m.name}:{qual}|writes .access", allowed, msg=f"`{short(st)}` changes an access level outside the block state's own methods", node=st, mod=m, nontrivial=False)
    # the constructor stores the level it is handed (the class-key default computed by the parser, R3.1), nothing it works
    # out itself from the parent block or the class name
    try:
        cinit = ctx.repo.mod("parserstate").func("ClassBlockState.__init__")
    except AnalysisError:
        cinit = None
    if cinit is not None:
        ccfg = CFG(cinit)
        crd = reaching_defs(ccfg)
        for n_ in ccfg.nodes:
            if n_.kind == "stmt" and isinstance(n_.stmt, ast.Assign) and any(isinstance(t, ast.Attribute) and t.attr == "access" and isinstance(t.value, ast.Name) and t.value.id == "self" for t in n_.stmt.targets):
                v_ = n_.stmt.value
                pnames = {a.arg for a in cinit.args.args[1:]}
                ok_ = isinstance(v_, ast.Name) and v_.id in pnames and set(crd.get(n_.id, {}).get(v_.id, ())) <= {ccfg.entry.id}
                ctx.ob("R3.2", "parserstate:ClassBlockState.__init__|stores the access level it is handed", ok_,
                       msg=f"`{short(n_.stmt)}` stores something other than the constructor's own parameter as it was passed (it is re-bound on some path before the store): the starting access of a class body is then not the class-key default the parser computed", node=n_.stmt, mod=ctx.repo.mod("parserstate"), nontrivial=False)
    sa_sites = []
    for fname, fn in pm.methods.items():
        for c in walk_local(fn):
            if isinstance(c, ast.Call) and isinstance(c.func, ast.Attribute) and c.func.attr == "_set_access":
                sa_sites.append((fname, c))
    okk = len(sa_sites) == 1 and sa_sites[0][0] == "_process_access_specifier"
    if okk:
        a = sa_sites[0][1].args[0] if sa_sites[0][1].args else None
        tokp = pm.fn("_process_access_specifier").args.args[1].arg
        okk = attr_chain(a) in ((tokp, "value"), (tokp, "type"))
    keys = sorted(k for k, v in pm.dispatch.items() if v == "_process_access_specifier")
    ctx.ob("R3.2", "parser:CxxParser|_set_access only for the dispatched specifier token", okk and keys == ["private", "protected", "public"],
           msg=f"_set_access sites {[f for f, _ in sa_sites]}; dispatch keys {keys}", node=sa_sites[0][1] if sa_sites else pm.cls, mod=mod)
    pa = pm.fn("_process_access_specifier")
    calls = [c for c in walk_local(pa) if isinstance(c, ast.Call)]
    has_set = any(isinstance(c.func, ast.Attribute) and c.func.attr == "_set_access" for c in calls)
    ctx.ob("R3.2", "parser:CxxParser._process_access_specifier|updates the block state", has_set,
           msg="an access specifier no longer updates the access level stored on the class block: the level is lost when a nested class closes", node=pa, mod=mod)

    # ---------------------------------------------------------------- R3.3
    ctx.rule("R3.3", "every dataclass with an `access` field is built with self._current_access, read before the block is pushed", minimum=10)
    acc_classes = {c for c, _ in types.classes() if "access" in dataclass_fields(types, c) and c not in ("BaseClass",)}
    killers = pm.closure({"_setup_state", "_pop_state"})
    for fname, fn in pm.methods.items():
        cfg = pm.cfg(fname)
        rd = None
        for n in cfg.nodes:
            for c in n.calls():
                if isinstance(c.func, ast.Name) and c.func.id in acc_classes:
                    fields = list(dataclass_fields(types, c.func.id))
                    idx = fields.index("access")
                    a = next((k.value for k in c.keywords if k.arg == "access"), None)
                    if a is None and idx < len(c.args):
                        a = c.args[idx]
                    ok = False
                    why = f"{c.func.id} is built without an access level (the field keeps its default)"
                    if a is not None:
                        if is_self_attr(a, "_current_access"):
                            ok = True
                        elif isinstance(a, ast.Name):
                            rd = rd or reaching_defs(cfg)
                            defs = [cfg.nodes[i] for i in rd.get(n.id, {}).get(a.id, ())]
                            ok = bool(defs) and all(is_self_attr(getattr(d.stmt, "value", None), "_current_access") for d in defs)
                            why = f"`{a.id}` does not come from self._current_access"
                        else:
                            why = f"access argument `{short(a)}` is not the current access level"
                    if ok:
                        # no block push between the read and the construction in this function
                        for m in cfg.nodes:
                            for cc, r in pm.node_calls(fname, m):
                                if r and r[0] == "self" and r[1] in ("_setup_state",) and cfg.dominates(m, n):
                                    ok = False
                                    why = "the access level is read after the new block was pushed: a nested class would record its own default instead of the enclosing level"
                    ctx.ob("R3.3", f"parser:CxxParser.{fname}|{c.func.id}(access=)", ok, msg=why, node=c, mod=mod)

    # ---------------------------------------------------------------- R3.4
    ctx.rule("R3.4", "_current_access reads the innermost block state and nothing else", minimum=1)
    ca = pm.fn("_current_access")
    rets = [s for s in walk_local(ca) if isinstance(s, ast.Return)]
    ok = len(rets) == 1 and norm(rets[0].value) in ("getattr(self.state, 'access', None)", "self.state.access")
    ctx.ob("R3.4", "parser:CxxParser._current_access|reads self.state.access", ok,
           msg=f"_current_access returns `{short(rets[0].value) if rets else '?'}`: the access level must live on the per-block state so that closing a nested class restores the outer level",
           node=ca, mod=mod)

    # ---------------------------------------------------------------- R3.5
    ctx.rule("R3.5", "method/function trailer: a field is stored only under a test admitting exactly its own keywords; setattr keywords are bool fields of Method", minimum=12)
    mfields = dataclass_fields(types, "Method")
    for fname in ("_parse_method_end", "_parse_fn_end"):
        fn = pm.fn(fname)
        obj = fn.args.args[1].arg
        cfg = pm.cfg(fname)
        for n in cfg.nodes:
            st = n.stmt
            if n.kind == "stmt" and isinstance(st, ast.Assign):
                for t in st.targets:
                    if isinstance(t, ast.Attribute) and isinstance(t.value, ast.Name) and t.value.id == obj:
                        kws = _admitted_keywords(pm, fname, cfg, n)
                        allowed = set()
                        for k in kws or []:
                            allowed |= KW_FIELD.get(k, set())
                        ok = kws is not None and all(t.attr in KW_FIELD.get(k, set()) for k in kws)
                        ctx.ob("R3.5", f"parser:CxxParser.{fname}|.{t.attr} stored under {sorted(kws) if kws is not None else '?'}", ok and t.attr in mfields,
                               msg=f"`{short(st)}` is executed for the keyword(s) {sorted(kws) if kws else kws}, which do not all denote the field `{t.attr}`: the qualifier is reported in the wrong field",
                               node=st, mod=mod)
            for c in n.calls():
                if isinstance(c.func, ast.Name) and c.func.id == "setattr" and len(c.args) == 3:
                    kws = _admitted_keywords(pm, fname, cfg, n)
                    ok = kws is not None and all(k in mfields and norm(mfields[k]) == "bool" for k in kws)
                    ctx.ob("R3.5", f"parser:CxxParser.{fname}|setattr for {sorted(kws) if kws else kws}", ok,
                           msg="a keyword set by name is not a bool field of Method", node=c, mod=mod, nontrivial=False)
    # sibling agreement: both trailers know throw and noexcept
    for fname in ("_parse_method_end", "_parse_fn_end"):
        txt = norm(pm.fn(fname))
        ctx.ob("R3.5", f"parser:CxxParser.{fname}|handles throw and noexcept", ".throw = " in txt and ".noexcept = " in txt,
               msg=f"{fname} no longer stores both exception specifications in their own fields", node=pm.fn(fname), mod=mod, nontrivial=False)
    mk = set(ctx.repo.folder("parser", "CxxParser").get("_type_kwd_meth"))
    ctx.ob("R3.5", "parser:CxxParser|_type_kwd_meth are bool fields of Method", all(k in mfields and norm(mfields[k]) == "bool" for k in mk),
           msg=f"method-only specifier keywords {sorted(mk)} are not all bool fields of Method", node=pm.cls, mod=mod, nontrivial=False)

    # ---------------------------------------------------------------- R3.6
    ctx.rule("R3.6", "anon_id: += 1 then read into AnonymousName in the same block; initialised to a constant in __init__", minimum=2)
    incs = []
    for fname, fn in pm.methods.items():
        for st in walk_local(fn):
            if isinstance(st, (ast.AugAssign, ast.Assign)):
                tg = [st.target] if isinstance(st, ast.AugAssign) else st.targets
                if any(is_self_attr(t, "anon_id") for t in tg):
                    incs.append((fname, st))
    good = [x for x in incs if x[0] != "__init__"]
    ok = len(good) == 1 and isinstance(good[0][1], ast.AugAssign) and isinstance(good[0][1].op, ast.Add) and isinstance(good[0][1].value, ast.Constant) and good[0][1].value.value == 1
    if ok:
        parent = mod.parent.get(good[0][1])
        body = getattr(parent, "body", [])
        i = body.index(good[0][1]) if good[0][1] in body else -1
        nxt = body[i + 1] if 0 <= i < len(body) - 1 else None
        ok = nxt is not None and "AnonymousName(self.anon_id)" in norm(nxt)
    ctx.ob("R3.6", "parser:CxxParser._parse_pqname|fresh id per anonymous type", ok, msg="anon_id is not incremented by exactly 1 immediately before being read into AnonymousName", node=good[0][1] if good else pm.cls, mod=mod)
    init = [x for x in incs if x[0] == "__init__"]
    ctx.ob("R3.6", "parser:CxxParser.__init__|anon_id starts at a constant", len(init) == 1 and isinstance(init[0][1], ast.Assign) and isinstance(init[0][1].value, ast.Constant),
           msg="anon_id is not initialised to a constant per parser", node=init[0][1] if init else pm.cls, mod=mod, nontrivial=False)
    # the PQName that holds the id is the object given both to the declaration and to _finish_class_or_enum
    fe = pm.fn("_parse_enum_decl")
    ctx.ob("R3.6", "parser:CxxParser._parse_enum_decl|trailing declarators reuse the enum's own name object", "_finish_class_or_enum(enum.typename" in norm(fe) or "_finish_class_or_enum(typename" in norm(fe),
           msg="trailing declarators of an enum do not reuse the PQName (and anonymous id) of the enum", node=fe, mod=mod, nontrivial=False)
    fc = pm.fn("_finish_class_decl")
    ctx.ob("R3.6", "parser:CxxParser._finish_class_decl|trailing declarators reuse the class's own name object", "state.class_decl.typename" in norm(fc),
           msg="trailing declarators of a class do not reuse the PQName (and anonymous id) of the class", node=fc, mod=mod, nontrivial=False)

    # ---------------------------------------------------------------- R3.7
    # Constructor / destructor recognition compares two names taken from qualified names.
    # A qualified name can have any number of leading scopes, so the name OF a thing is its
    # last segment and the class it belongs to is the segment before it: the segment indexes
    # that feed the comparison are anchored at the right end.  (The comparison itself is a
    # run-time value and is not decided.)
    ctx.rule("R3.7", "constructor/destructor recognition: compared names are right-anchored segments (own name [-1], enclosing class [-2] or the class block's own [-1])", minimum=2)
    pd = pm.fn("_parse_decl")
    dcfg = pm.cfg("_parse_decl")
    drd = reaching_defs(dcfg)
    # locals that hold the `.name` of a segment: v = getattr(<...>.segments[K] | <alias>[K], "name", None)
    seg_alias = {t.id for st in walk_local(pd) if isinstance(st, (ast.Assign, ast.AnnAssign)) and getattr(st, "value", None) is not None and norm(st.value).endswith(".segments")
                 for t in (st.targets if isinstance(st, ast.Assign) else [st.target]) if isinstance(t, ast.Name)}
    name_vars: Dict[str, int] = {}
    for st in walk_local(pd):
        if isinstance(st, ast.Assign) and isinstance(st.value, ast.Call) and norm(st.value.func) == "getattr" and len(st.value.args) >= 2 and isinstance(st.value.args[0], ast.Subscript) \
                and isinstance(st.value.args[1], ast.Constant) and st.value.args[1].value == "name":
            b = st.value.args[0].value
            if norm(b).endswith(".segments") or (isinstance(b, ast.Name) and b.id in seg_alias):
                for t in st.targets:
                    if isinstance(t, ast.Name):
                        name_vars[t.id] = name_vars.get(t.id, 0) + 1
    cmps = [(n, c) for n in dcfg.nodes for c in n.walk() if isinstance(c, ast.Compare) and len(c.ops) == 1 and isinstance(c.ops[0], ast.Eq)
            and len({x.id for x in ast.walk(c) if isinstance(x, ast.Name)} & set(name_vars)) == 2]
    if not cmps:
        raise AnalysisError("anchor vanished: the comparison of the class name with the declared name in _parse_decl")
    # the declared (own) name is the side defined once, from the declared type's own segments
    own_var = min(name_vars, key=lambda v: name_vars[v])
    seen_sites = set()
    for n, c in cmps:
        for var in sorted({x.id for x in ast.walk(c) if isinstance(x, ast.Name)} & set(name_vars)):
            for di in drd.get(n.id, {}).get(var, ()):
                d = dcfg.nodes[di]
                if d is dcfg.entry or id(d) in seen_sites or not isinstance(getattr(d, "stmt", None), ast.Assign):
                    continue
                seen_sites.add(id(d))
                val = d.stmt.value
                if isinstance(val, ast.Constant) and val.value is None:
                    continue
                is_name_of_segment = isinstance(val, ast.Call) and norm(val.func) == "getattr" and len(val.args) >= 2 and isinstance(val.args[1], ast.Constant) and val.args[1].value == "name"
                if not is_name_of_segment and not (isinstance(val, ast.Attribute) and val.attr == "name"):
                    ctx.ob("R3.7", f"parser:CxxParser._parse_decl|{var} from `{short(val, 50)}`", False,
                           msg=f"`{short(d.stmt, 70)}` compares something other than the plain `.name` of a segment (e.g. a formatted name with its template arguments): 'struct Box<int> {{ Box(); ~Box(); }}' no longer has its constructor and destructor recognised",
                           node=d.stmt, mod=mod)
                    continue
                subs = [x for x in ast.walk(val) if isinstance(x, ast.Subscript)]
                idx = None
                if len(subs) == 1:
                    sl = subs[0].slice
                    if isinstance(sl, ast.UnaryOp) and isinstance(sl.op, ast.USub) and isinstance(sl.operand, ast.Constant):
                        idx = -sl.operand.value
                    elif isinstance(sl, ast.Constant):
                        idx = sl.value
                base = norm(subs[0].value) if subs else "?"
                if subs and isinstance(subs[0].value, ast.Name):
                    # an alias of a segments list: look at what it stands for
                    for st_ in walk_local(pd):
                        if isinstance(st_, ast.Assign) and any(isinstance(t, ast.Name) and t.id == subs[0].value.id for t in st_.targets) and norm(st_.value).endswith(".segments"):
                            base = norm(st_.value)
                own_class = "class_decl.typename.segments" in base
                want = -1 if (var == own_var or own_class) else -2
                ctx.ob("R3.7", f"parser:CxxParser._parse_decl|{var} from `{short(subs[0], 50) if subs else short(val, 50)}`", idx == want,
                       msg=f"`{short(d.stmt, 70)}` takes segment [{idx}] where the {'declared name' if var == own_var else 'class name'} of a qualified name is segment [{want}]: with leading scopes ('struct Outer::Inner {{ Inner(); }}', 'A::B::B()') constructors and destructors are no longer recognised",
                       node=d.stmt, mod=mod)

    # ---------------------------------------------------------------- R3.8
    # "every member of a class body": the member after an inline method body is found only if the body ends where its
    # braces balance, counted in tokens.  The body skipper's counting loop and the token-accessor discipline are C13's
    # R13.2 / R13.8, evaluated here under this property's id.
    from . import c13 as _c13
    from ..report import run_shared as _run_shared
    t38 = "an inline member body ends where its braces balance, counted token by token (the skipper's counting loop; no raw-text scan)"
    _run_shared(ctx, _c13.run, {"R13.2": ("R3.8", t38), "R13.8": ("R3.8", t38), "R13.6": ("R3.8", t38 + "; a constructor's initializer list ends at the body, whatever the initializers look like")})


_TF3: Dict[Tuple[int, str], object] = {}


def _holds_token_text(fn: ast.AST, e: ast.AST) -> bool:
    """a local every binding of which is `<tok>.type` / `<tok>.value`, possibly `... if <tok> else None`"""
    if not isinstance(e, ast.Name):
        return False
    defs = [st.value for st in walk_local(fn) if isinstance(st, ast.Assign) and any(isinstance(t, ast.Name) and t.id == e.id for t in st.targets)]

    def tokattr(v: ast.AST) -> bool:
        if isinstance(v, ast.IfExp):
            sides = [x for x in (v.body, v.orelse) if not (isinstance(x, ast.Constant) and x.value is None)]
            return len(sides) == 1 and tokattr(sides[0])
        return isinstance(v, ast.Attribute) and v.attr in ("type", "value") and isinstance(v.value, ast.Name)
    return bool(defs) and all(tokattr(v) for v in defs)


def _admitted_keywords(pm: ParserModel, fname: str, cfg: CFG, n: Node) -> Optional[Set[str]]:
    """Token texts for which control can reach n: the innermost dominating test that
    compares the token's value/type with constants (== / in) on its T side, or a
    `self.lex.token_if(<consts>)` condition."""
    # first the token-type facts: a variable bound to token_if(<constants>) whose possible types at n are known
    fn_ = pm.fn(fname)
    asked: Dict[str, Set[str]] = {}
    for st in walk_local(fn_):
        if isinstance(st, ast.Assign) and len(st.targets) == 1 and isinstance(st.targets[0], ast.Name) and isinstance(st.value, ast.Call):
            r = pm.resolve(fname, st.value)
            if r and r[0] == "lex" and r[1] in ("token_if", "token_if_val") and st.value.args and all(isinstance(a, ast.Constant) for a in st.value.args):
                asked.setdefault(st.targets[0].id, set()).update(a.value for a in st.value.args)
    if asked:
        alias = {}
        for st in walk_local(fn_):
            if isinstance(st, ast.Assign) and len(st.targets) == 1 and isinstance(st.targets[0], ast.Name) and _holds_token_text(fn_, st.targets[0]):
                v = st.value
                if isinstance(v, ast.IfExp):
                    v = v.body if not (isinstance(v.body, ast.Constant) and v.body.value is None) else v.orelse
                if isinstance(v, ast.Attribute) and v.attr == "type" and isinstance(v.value, ast.Name):
                    alias[st.targets[0].id] = v.value.id
        from ..typefacts import TypeFacts
        key = (id(cfg), "tf3")
        tf = _TF3.get(key)
        if tf is None:
            tf = _TF3[key] = TypeFacts(cfg, resolve=lambda c: pm.resolve(fname, c), alias=alias)
        cands = []
        for v, S0 in asked.items():
            k, S = tf.at(n, v)
            if k == "in" and S and set(S) <= S0 and set(S) != S0:
                cands.append(set(S))
        if cands:
            return min(cands, key=len)
    best: Optional[Set[str]] = None
    best_depth = -1
    doms = cfg.dominators().get(n.id, set())
    for i in doms:
        d = cfg.nodes[i]
        c = d.cond
        if d.kind != "test" or c is None:
            continue
        ks: Optional[Set[str]] = None
        if isinstance(c, ast.Compare) and len(c.ops) == 1:
            left = norm(c.left)
            if left.endswith("tok_value") or left.endswith(".value") or left.endswith(".type") or left == "tok_type" or _holds_token_text(pm.fn(fname), c.left):
                comp = c.comparators[0]
                if isinstance(c.ops[0], ast.Eq) and isinstance(comp, ast.Constant):
                    ks = {comp.value}
                elif isinstance(c.ops[0], ast.In) and isinstance(comp, (ast.Tuple, ast.Set, ast.List)) and all(isinstance(e, ast.Constant) for e in comp.elts):
                    ks = {e.value for e in comp.elts}
        elif isinstance(c, ast.Call):
            r = pm.resolve(fname, c)
            if r and r[0] == "lex" and r[1] in ("token_if", "token_if_val") and all(isinstance(a, ast.Constant) for a in c.args):
                ks = {a.value for a in c.args}
        elif isinstance(c, ast.Name):
            # a local holding the result of token_if(<constants>)
            ds = [st for st in walk_local(pm.fn(fname)) if isinstance(st, ast.Assign) and any(isinstance(t, ast.Name) and t.id == c.id for t in st.targets)]
            if ds and all(isinstance(q.value, ast.Call) and (pm.resolve(fname, q.value) or ("", ""))[0] == "lex" and pm.resolve(fname, q.value)[1] in ("token_if", "token_if_val")
                          and all(isinstance(a, ast.Constant) for a in q.value.args) for q in ds):
                ks = set()
                for q in ds:
                    ks |= {a.value for a in q.value.args}
        if ks is None:
            continue
        fs = [s for s, lab in d.succ if lab == "F"]
        if any(s is n or cfg.paths_avoiding(s, n, lambda y: y is d) for s in fs):
            continue  # n is not confined to the T side
        depth = len(cfg.dominators().get(d.id, ()))
        if depth > best_depth:
            best, best_depth = ks, depth
    return best
