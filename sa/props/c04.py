"""C04 -- the visitor callback stream is a well-formed, complete traversal."""
from __future__ import annotations

import ast
from typing import Dict, FrozenSet, List, Optional, Set, Tuple

from ..cfg import CFG, Node, reaching_defs, solve_forward
from ..kinds import KindAnalysis, node_containing
from ..model import AnalysisError, attr_chain, is_self_attr, norm, short, stores_in, walk_local
from ..pmodel import ParserModel
from ..report import Ctx
from ..vmodel import STATE_CLASSES, VisitorModel
from .. import fold

LEVEL = "typestate / pairing / ownership rules over the CFG and the resolved call graph of parser.py"
EXPLANATION = (
    "R4.1 on_parse_start has one call site, in __init__, on every path, after self.state is assigned and before any other callback. "
    "R4.2 each block-start callback is dominated by the construction of the matching state class (parent = the current self.state) and "
    "by _setup_state on that object. R4.3 block-end callbacks are issued only by the _finish of the matching state class, _finish only "
    "from _pop_state (after the unbalanced-brace check), _pop_state only from _on_block_end, which is reachable only through the '}' "
    "dispatch key; the new current state is the parent of the popped one. R4.4 only __init__/_setup_state/_pop_state write self.state. "
    "R4.5 every other callback passes the current state (self.state or an alias with no block push/pop in between). R4.6 kind-guard "
    "dominance for every callback, state constructor and annotated state parameter. R4.7 the simple visitor folds each payload once "
    "into the list of its state's scope. R4.8 the catch-all in parse() encloses every dispatch, re-raises CxxParseError chained to the "
    "caught exception on every path, delivers nothing itself, and no other handler that completes normally encloses code that can emit."
)


def run(ctx: Ctx) -> None:
    pm = ParserModel(ctx.repo)
    vm = VisitorModel(ctx.repo)
    mod = pm.mod
    ctx.trusted = ["annotations of CxxVisitor and of the state constructors as the oracle for kinds", "resolved call graph (self.m, cached bound methods, dispatch dict, _finish overriders)"]
    ctx.undecided = ["that every block closed in the source reaches the '}' dispatch (depends on token values)"]
    sites = pm.callback_sites()
    known = set(vm.callbacks)
    ctx.rule("R4.0", "every self.visitor.<m>(...) call names a member of the CxxVisitor protocol with the right arity", minimum=25)
    for fname, call, cb in sites:
        ok = cb in known and len(call.args) == len(vm.callbacks[cb].params) and not call.keywords if cb in known else False
        ctx.ob("R4.0", f"parser:CxxParser.{fname}|{cb}", ok, msg=f"call `{short(call)}` does not match the protocol member", node=call, mod=mod, nontrivial=False)

    killers = pm.closure({"_setup_state", "_pop_state"})

    # ---------------------------------------------------------------- R4.1
    ctx.rule("R4.1", "on_parse_start: one site, in __init__, on every path, after self.state is set, first callback", minimum=3)
    starts = [(f, c) for f, c, cb in sites if cb == "on_parse_start"]
    ctx.ob("R4.1", "parser:CxxParser|on_parse_start call sites", len(starts) == 1 and starts[0][0] == "__init__",
           msg=f"on_parse_start is called from {[f for f, _ in starts]}: the stream must begin with exactly one on_parse_start", node=starts[0][1] if starts else pm.cls, mod=mod, nontrivial=False)
    if len(starts) == 1 and starts[0][0] == "__init__":
        cfg = pm.cfg("__init__")
        n = node_containing(cfg, starts[0][1])
        every = n is not None and not cfg.paths_avoiding(cfg.entry, cfg.exit, lambda x: x is n) and not cfg.in_loop(n)
        ctx.ob("R4.1", "parser:CxxParser.__init__|on_parse_start on every path, once", every,
               msg="some path through __init__ skips on_parse_start, or it sits in a loop", node=starts[0][1], mod=mod)
        st_stores = [x for x in cfg.nodes if x.kind == "stmt" and isinstance(x.stmt, (ast.Assign, ast.AnnAssign)) and any(is_self_attr(t, "state") for t in (x.stmt.targets if isinstance(x.stmt, ast.Assign) else [x.stmt.target]))]
        after = n is not None and any(cfg.dominates(s, n) for s in st_stores) and is_self_attr(starts[0][1].args[0], "state")
        ctx.ob("R4.1", "parser:CxxParser.__init__|on_parse_start receives the root state", after,
               msg="on_parse_start is not dominated by the assignment of self.state or does not pass self.state", node=starts[0][1], mod=mod)
        emit = pm.may_emit() - {"__init__"}
        early = []
        for x in cfg.nodes:
            for c, r in pm.node_calls("__init__", x):
                if r and ((r[0] == "self" and r[1] in emit) or (r[0] == "visitor" and r[1] != "on_parse_start")):
                    early.append(short(c))
        ctx.ob("R4.1", "parser:CxxParser.__init__|nothing emitted besides on_parse_start", not early,
               msg=f"__init__ can deliver other callbacks: {early}", node=pm.fn("__init__"), mod=mod)

    # ---------------------------------------------------------------- R4.2
    ctx.rule("R4.2", "block start: state object freshly constructed from the current state, pushed with _setup_state, then passed to the start callback", minimum=3)
    for cb in vm.start_callbacks():
        cls = vm.class_of_start(cb)
        cbs = [(f, c) for f, c, k in sites if k == cb]
        ctx.ob("R4.2", f"parser:CxxParser|{cb} has a single site", len(cbs) == 1, msg=f"{cb} is called from {len(cbs)} sites", node=cbs[0][1] if cbs else pm.cls, mod=mod, nontrivial=False)
        for fname, call in cbs:
            if fname == "_setup_state":
                # the push and the start callback were merged into one function: the obligations below are stated on the
                # caller / callee split of the reference (construct, push, announce in the block's own parser)
                raise AnalysisError("block start is announced by _setup_state itself (push and start callback merged): not modelled")
            cfg = pm.cfg(fname)
            rd = reaching_defs(cfg)
            n = node_containing(cfg, call)
            arg = call.args[0] if call.args else None
            why = []
            ok = isinstance(arg, ast.Name) and n is not None
            if ok:
                # (a) reaching definitions of the argument: constructor calls of the matching class
                defs = [cfg.nodes[i] for i in rd.get(n.id, {}).get(arg.id, ())]
                # a definition that stores None cannot reach a use that lies behind a not-None test of the variable
                not_none = _known_not_none(cfg, rd, n, arg.id)
                if not_none:
                    defs = [d for d in defs if not (isinstance(getattr(d.stmt, "value", None), ast.Constant) and d.stmt.value.value is None)]
                ctors = []
                for d in defs:
                    v = getattr(d.stmt, "value", None)
                    if isinstance(v, ast.Call) and isinstance(v.func, ast.Name) and v.func.id == cls:
                        ctors.append((d, v))
                    else:
                        ok = False
                        why.append(f"state passed to {cb} may come from `{short(d.stmt)}`, not from {cls}(...)")
                # (b) parent argument = current state
                for d, v in ctors:
                    parent = v.args[0] if v.args else None
                    if is_self_attr(parent, "state"):
                        continue
                    if isinstance(parent, ast.Name):
                        pdefs = [cfg.nodes[i] for i in rd.get(d.id, {}).get(parent.id, ())]
                        for pd in pdefs:
                            pv = getattr(pd.stmt, "value", None)
                            if not is_self_attr(pv, "state"):
                                ok = False
                                why.append(f"parent of the new {cls} may be `{short(pd.stmt)}`, not the current self.state")
                            elif _killer_between(pm, fname, cfg, pd, d, killers):
                                ok = False
                                why.append("a block push/pop can happen between reading self.state and constructing the child state")
                    else:
                        ok = False
                        why.append(f"parent argument `{short(parent)}` is not the current state")
                # (c) _setup_state(arg) dominates the callback, with the same variable and no rebinding in between
                setups = []
                for x in cfg.nodes:
                    for c, r in pm.node_calls(fname, x):
                        if r == ("self", "_setup_state") and c.args and isinstance(c.args[0], ast.Name) and c.args[0].id == arg.id:
                            setups.append(x)
                dom_setup = [s for s in setups if cfg.dominates(s, n) and set(rd.get(s.id, {}).get(arg.id, ())) == set(rd.get(n.id, {}).get(arg.id, ()))]
                if not dom_setup:
                    ok = False
                    why.append(f"{cb} is not dominated by self._setup_state({arg.id}) on the same object")
                for d, v in ctors:
                    if not any(cfg.dominates(d, s) for s in dom_setup):
                        # several constructions merging in front of one push: each of them must reach it (the push sees the
                        # same definitions as the callback, established above) and nothing else may (None filtered by the test)
                        if not (not_none and dom_setup and all(_known_not_none(cfg, rd, s, arg.id) for s in dom_setup)):
                            ok = False
                            why.append("the state construction does not dominate _setup_state")
            else:
                why.append("argument is not a local holding the new state")
            ctx.ob("R4.2", f"parser:CxxParser.{fname}|{cb}", ok, msg="; ".join(why), node=call, mod=mod)
    su = pm.fn("_setup_state")
    p = su.args.args[1].arg
    su_ok = any(is_self_attr(t, "state") and isinstance(st, ast.Assign) and isinstance(st.value, ast.Name) and st.value.id == p for t, st in stores_in(su))
    ctx.ob("R4.2", "parser:CxxParser._setup_state|makes its argument the current state", su_ok, msg="_setup_state does not store its parameter to self.state", node=su, mod=mod)

    # ---------------------------------------------------------------- R4.3
    ctx.rule("R4.3", "block end: issued only by the matching state's _finish, from _pop_state after the balance check, from _on_block_end, from the '}' key", minimum=8)
    for cb in vm.end_callbacks():
        direct = [(f, c) for f, c, k in sites if k == cb]
        ctx.ob("R4.3", f"parser:CxxParser|{cb} not called by the parser directly", not direct,
               msg=f"{cb} is called directly from {[f for f, _ in direct]}: an end callback outside the pop path is not paired with its start", node=direct[0][1] if direct else pm.cls, mod=mod, nontrivial=False)
        want = next(iter(vm.callbacks[cb].state_kinds)) if vm.callbacks[cb].state_kinds and len(vm.callbacks[cb].state_kinds) == 1 else None
        issuers = [c for c, calls in vm.finish.items() if any(k == cb for k, _ in calls)]
        ok = want is not None and issuers == [want]
        if ok:
            calls = vm.finish[want]
            fin = vm.smod.methods(want)["_finish"]
            vparam = fin.args.args[1].arg if len(fin.args.args) > 1 else None  # (no visitor parameter: the receiver is not the one handed in)
            ok = vparam is not None and len(calls) == 1 and attr_chain(calls[0][1].func) == (vparam, cb) and len(calls[0][1].args) == 1 and isinstance(calls[0][1].args[0], ast.Name) and calls[0][1].args[0].id == "self"
            cf = CFG(fin)
            nn = node_containing(cf, calls[0][1]) if calls else None
            ok = ok and nn is not None and not cf.paths_avoiding(cf.entry, cf.exit, lambda x: x is nn) and not cf.in_loop(nn)
        ctx.ob("R4.3", f"parserstate:{want}._finish|{cb}", ok,
               msg=f"{cb} must be issued exactly once, with the state itself, to the visitor handed in, by {want}._finish and by no other class (issuers found: {issuers})", node=vm.smod.cls(want) if want else vm.smod.tree, mod=vm.smod)
    # other classes' _finish must not emit anything
    for c, calls in vm.finish.items():
        if c not in STATE_CLASSES:
            ctx.ob("R4.3", f"parserstate:{c}._finish|emits nothing", not calls, msg=f"{c}._finish issues {[k for k, _ in calls]}", node=vm.smod.cls(c), mod=vm.smod, nontrivial=False)
    # _finish call sites in the parser
    fsites = []
    for fname, fn in pm.methods.items():
        for c in walk_local(fn):
            if isinstance(c, ast.Call) and isinstance(c.func, ast.Attribute) and c.func.attr == "_finish":
                fsites.append((fname, c))
    ok = len(fsites) == 1 and fsites[0][0] == "_pop_state"
    ctx.ob("R4.3", "parser:CxxParser|_finish called only from _pop_state", ok, msg=f"_finish is called from {[f for f, _ in fsites]}", node=fsites[0][1] if fsites else pm.cls, mod=mod, nontrivial=False)
    ps = pm.fn("_pop_state")
    pcfg = pm.cfg("_pop_state")
    prd = reaching_defs(pcfg)
    if ok:
        call = fsites[0][1]
        n = node_containing(pcfg, call)
        recv = call.func.value  # type: ignore[attr-defined]
        why = []
        good = isinstance(recv, ast.Name) and n is not None
        if good:
            rdefs = [pcfg.nodes[i] for i in prd[n.id].get(recv.id, ())]
            if not rdefs or not all(is_self_attr(getattr(d.stmt, "value", None), "state") for d in rdefs):
                good = False
                why.append("_finish is not called on the state read from self.state")
            if not (len(call.args) == 1 and is_self_attr(call.args[0], "visitor")):
                good = False
                why.append("_finish does not receive the active visitor self.visitor")
            # unbalanced check first: a raise under `<x> is None` where x = recv.parent dominates... i.e. no path entry->call avoiding the test node
            guard = _parent_none_guard(pcfg, recv.id)
            if guard is None:
                good = False
                why.append("no `parent is None -> raise` check in _pop_state")
            elif not pcfg.dominates(guard, n):
                good = False
                why.append("the end callback is issued before the unbalanced-'}' check: a stray '}' at file scope ends the root block, which was never started")
            if n is not None and (pcfg.in_loop(n) or pcfg.paths_avoiding(guard or pcfg.entry, pcfg.exit, lambda x: x is n)):
                good = False
                why.append("_finish is not called exactly once on every completing path")
        ctx.ob("R4.3", "parser:CxxParser._pop_state|_finish on the popped state, after the balance check", good, msg="; ".join(why), node=call, mod=mod)
        # new current state = parent of the popped one
        st_nodes = [x for x in pcfg.nodes if x.kind == "stmt" and isinstance(x.stmt, ast.Assign) and any(is_self_attr(t, "state") for t in x.stmt.targets)]
        good2 = len(st_nodes) == 1
        if good2:
            v = st_nodes[0].stmt.value
            chain_ok = False
            if isinstance(v, ast.Name):
                vd = [pcfg.nodes[i] for i in prd[st_nodes[0].id].get(v.id, ())]
                chain_ok = bool(vd) and all(isinstance(getattr(d.stmt, "value", None), ast.Attribute) and d.stmt.value.attr == "parent" and isinstance(d.stmt.value.value, ast.Name) and isinstance(recv, ast.Name) and d.stmt.value.value.id == recv.id for d in vd)
            elif isinstance(v, ast.Attribute) and v.attr == "parent" and isinstance(v.value, ast.Name) and isinstance(recv, ast.Name) and v.value.id == recv.id:
                chain_ok = True
            good2 = chain_ok and not pcfg.paths_avoiding(pcfg.entry, pcfg.exit, lambda x: x is st_nodes[0])
        ctx.ob("R4.3", "parser:CxxParser._pop_state|current state becomes the popped state's parent", good2,
               msg="after a pop self.state is not (on every path) the parent of the state that was current", node=ps, mod=mod)
    callers = pm.callers("_pop_state")
    ctx.ob("R4.3", "parser:CxxParser|_pop_state called only from _on_block_end", callers == {"_on_block_end"}, msg=f"_pop_state is called from {sorted(callers)}", node=ps, mod=mod, nontrivial=False)
    keys = sorted(k for k, v in pm.dispatch.items() if v == "_on_block_end")
    other = pm.callers("_on_block_end") - {"parse"}
    ctx.ob("R4.3", "parser:CxxParser|_on_block_end reachable only through the '}' dispatch key", keys == ["}"] and not other,
           msg=f"_on_block_end is dispatched on {keys} and called from {sorted(other)}", node=pm.fn("_on_block_end"), mod=mod, nontrivial=False)

    # ---------------------------------------------------------------- R4.4
    ctx.rule("R4.4", "self.state is written only by __init__, _setup_state and _pop_state", minimum=3)
    writers: Dict[str, List[ast.AST]] = {}
    for fname, fn in pm.methods.items():
        for t, st in stores_in(fn):
            if is_self_attr(t, "state"):
                writers.setdefault(fname, []).append(st)
    for m in ctx.repo.modules.values():
        if m is mod:
            continue
        for qual, fn in m.functions():
            for t, st in stores_in(fn):
                ch = attr_chain(t)
                if ch and len(ch) >= 2 and ch[-1] == "state" and ch[0] in ("parser", "self") and "Parser" in qual:
                    writers.setdefault(f"{m.name}:{qual}", []).append(st)
    for w, sts in sorted(writers.items()):
        ctx.ob("R4.4", f"parser:CxxParser.{w}|writes self.state", w in ("__init__", "_setup_state", "_pop_state"),
               msg=f"{w} assigns self.state (`{short(sts[0])}`): the innermost open block changes outside the push/pop discipline", node=sts[0], mod=mod, nontrivial=False)

    # ---------------------------------------------------------------- R4.5
    ctx.rule("R4.5", "every non-start callback passes the current state (self.state or an alias with no block push/pop since it was read)", minimum=20)
    cur_params = _current_state_params(pm, killers)
    for fname, call, cb in sites:
        if cb.endswith("_start") or cb == "on_parse_start":
            continue
        cfg = pm.cfg(fname)
        n = node_containing(cfg, call)
        arg = call.args[0] if call.args else None
        ok, why = _is_current(pm, fname, cfg, n, arg, killers, cur_params)
        ctx.ob("R4.5", f"parser:CxxParser.{fname}|{cb}({short(arg, 20)})", ok, msg=why, node=call, mod=mod)

    # ---------------------------------------------------------------- R4.6
    ctx.rule("R4.6", "kind-guard dominance: state arguments are of the kind the callee's annotation declares", minimum=30)
    ka = KindAnalysis(pm, vm.dom, paths=[("self", "state")], killers=killers)
    _kind_obligations(ctx, "R4.6", pm, vm, ka)

    # ---------------------------------------------------------------- R4.7
    fold.check_fold(ctx, "R4.7", vm)

    # ---------------------------------------------------------------- R4.8
    check_exception_discipline(ctx, "R4.8", pm)

    # ---------------------------------------------------------------- R4.9
    # "stored ... in the scope of its state": the scope a block state is bound to follows the nesting of the blocks
    # (a namespace block's scope is found or created under its parent state's scope; an extern block's scope is its
    # parent state's scope).  These are C12's R12.4 / R12.5, evaluated here under this property's id.
    from . import c12
    from ..report import SubCtx, run_shared
    t49 = "the scope bound to a block state is derived from the parent state's scope (namespace walk over scope trees; extern blocks alias the parent's scope)"
    run_shared(ctx, c12.run, {"R12.4": ("R4.9", t49), "R12.5": ("R4.9", t49)})

    # ---------------------------------------------------------------- R4.v (shared with C05)
    # nesting of the delivered stream under pruning, and completeness of the call-site inventory
    # (a visitor method bound once would bypass every rule above)
    from .c05 import visitor_rules
    visitor_rules(ctx, pm, vm, "R4.v", only={"2", "3"})


# ---------------------------------------------------------------------------


def _killer_between(pm: ParserModel, fname: str, cfg: CFG, a: Node, b: Node, killers: Set[str]) -> bool:
    """Can a call that pushes/pops a block execute on a path a ->+ b ?"""
    def is_killer(x: Node) -> bool:
        for c, r in pm.node_calls(fname, x):
            if r and r[0] == "self" and r[1] in killers:
                return True
        return False
    if a is b:
        return False
    # a path exists through a killer node iff reachable(a->k) and reachable(k->b)
    for k in cfg.nodes:
        if k is a or k is b or not is_killer(k):
            continue
        if cfg.paths_avoiding(a, k, lambda x: False) and cfg.paths_avoiding(k, b, lambda x: False):
            return True
    return False


def _parent_none_guard(cfg: CFG, recv: str) -> Optional[Node]:
    """Test node `X is None` (X = recv.parent or a local bound to it) whose T edge leads to a raise."""
    parents = {recv + ".parent"}
    for n in cfg.nodes:
        st = n.stmt
        if n.kind == "stmt" and isinstance(st, ast.Assign) and isinstance(st.value, ast.Attribute) and st.value.attr == "parent" and isinstance(st.value.value, ast.Name) and st.value.value.id == recv:
            for t in st.targets:
                if isinstance(t, ast.Name):
                    parents.add(t.id)
    for n in cfg.nodes:
        c = n.cond
        if n.kind == "test" and isinstance(c, ast.Compare) and len(c.ops) == 1 and isinstance(c.ops[0], ast.Is) and isinstance(c.comparators[0], ast.Constant) and c.comparators[0].value is None:
            k = ".".join(attr_chain(c.left) or ())
            if k in parents:
                tsucc = [s for s, lab in n.succ if lab == "T"]
                if tsucc and all(_always_raises(cfg, s) for s in tsucc):
                    return n
    return None


def _always_raises(cfg: CFG, n: Node) -> bool:
    seen = set()
    st = [n]
    while st:
        x = st.pop()
        if x.id in seen:
            continue
        seen.add(x.id)
        if x is cfg.exit:
            return False
        if x is cfg.raise_exit:
            continue
        st.extend(s for s, lab in x.succ if lab != "exc")
    return True


def _current_state_params(pm: ParserModel, killers: Set[str]) -> Dict[str, Set[str]]:
    """Parameters that always receive the current state: every call site
    passes self.state or a current alias.  (One round is enough for today's
    depth; computed to a fix-point anyway.)"""
    cur: Dict[str, Set[str]] = {}
    # candidates: parameters annotated with a state kind
    cands: Dict[str, Set[str]] = {}
    for fname, fn in pm.methods.items():
        for a in fn.args.args[1:]:
            txt = norm(a.annotation) if a.annotation is not None else ""
            if "State" in txt and "Block" in txt or txt in ("State", "NonClassBlockState", "'State'"):
                cands.setdefault(fname, set()).add(a.arg)
    cur = {k: set(v) for k, v in cands.items()}
    changed = True
    while changed:
        changed = False
        for fname, ps in list(cur.items()):
            fn = pm.fn(fname)
            names = [a.arg for a in fn.args.args[1:]]
            for p in list(ps):
                idx = names.index(p)
                for caller, call in pm.call_sites(fname):
                    arg = call.args[idx] if idx < len(call.args) else next((k.value for k in call.keywords if k.arg == p), None)
                    cfg = pm.cfg(caller)
                    n = node_containing(cfg, call)
                    ok, _ = _is_current(pm, caller, cfg, n, arg, killers, cur)
                    if not ok:
                        ps.discard(p)
                        changed = True
                        break
    return cur


def _is_current(pm: ParserModel, fname: str, cfg: CFG, n: Optional[Node], arg: Optional[ast.AST], killers: Set[str], cur_params: Dict[str, Set[str]]) -> Tuple[bool, str]:
    if n is None or arg is None:
        return False, "call site not found in the CFG"
    if is_self_attr(arg, "state"):
        return True, ""
    if not isinstance(arg, ast.Name):
        return False, f"state argument `{short(arg)}` is neither self.state nor a local alias of it"
    rd = reaching_defs(cfg)
    defs = [cfg.nodes[i] for i in rd.get(n.id, {}).get(arg.id, ())]
    if not defs:
        return False, f"`{arg.id}` has no reaching definition"
    if len(defs) > 1 and _known_not_none(cfg, rd, n, arg.id):
        # under a dominating `X is not None` test (X not re-bound since) the definitions that store None do not get here
        live = [d for d in defs if not (d is not cfg.entry and isinstance(getattr(d.stmt, "value", None), ast.Constant) and d.stmt.value.value is None)]
        defs = live or defs
    for d in defs:
        if d is cfg.entry:
            if arg.id in cur_params.get(fname, set()):
                # parameter holding the current state on entry: no push/pop before the use
                if _killer_between(pm, fname, cfg, cfg.entry, n, killers):
                    return False, f"parameter `{arg.id}` is used after a call that can push or pop a block"
                continue
            return False, f"parameter `{arg.id}` is not known to hold the current state at every call site"
        v = getattr(d.stmt, "value", None)
        if is_self_attr(v, "state"):
            if _killer_between(pm, fname, cfg, d, n, killers):
                return False, f"`{arg.id}` was read from self.state before a call that can push or pop a block: the callback would carry a stale state"
            continue
        if isinstance(v, ast.Name):
            ok, why = _is_current(pm, fname, cfg, d, v, killers, cur_params)
            if not ok:
                return ok, why
            if _killer_between(pm, fname, cfg, d, n, killers):
                return False, f"`{arg.id}` aliases the state across a block push/pop"
            continue
        # a freshly pushed state: X = Ctor(...); self._setup_state(X) dominating the use
        if isinstance(v, ast.Call) and isinstance(v.func, ast.Name) and v.func.id in STATE_CLASSES:
            pushed = False
            for x in cfg.nodes:
                for c, r in pm.node_calls(fname, x):
                    if r == ("self", "_setup_state") and c.args and isinstance(c.args[0], ast.Name) and c.args[0].id == arg.id and cfg.dominates(d, x) and cfg.dominates(x, n):
                        pushed = True
            if pushed:
                continue
        return False, f"`{arg.id}` may hold `{short(d.stmt)}`, which is not the current block state"
    return True, ""


def _known_not_none(cfg: CFG, rd, n: Node, var: str) -> bool:
    here = set(rd.get(n.id, {}).get(var, ()))
    for i in cfg.dominators().get(n.id, set()):
        d = cfg.nodes[i]
        if d is n or d.kind != "test" or d.cond is None or d.loop is not None:
            continue
        c = d.cond
        neg = False
        while isinstance(c, ast.UnaryOp) and isinstance(c.op, ast.Not):
            c = c.operand
            neg = not neg
        want = None  # the edge label on which var is not None
        if isinstance(c, ast.Compare) and len(c.ops) == 1 and isinstance(c.left, ast.Name) and c.left.id == var and isinstance(c.comparators[0], ast.Constant) and c.comparators[0].value is None:
            if isinstance(c.ops[0], ast.IsNot):
                want = "T"
            elif isinstance(c.ops[0], ast.Is):
                want = "F"
        elif isinstance(c, ast.Name) and c.id == var:
            want = "T"
        if want is None:
            continue
        if neg:
            want = "F" if want == "T" else "T"
        succ = [s_ for s_, lab in d.succ if lab == want]
        if len(succ) != 1 or not (succ[0] is n or cfg.dominates(succ[0], n)) or len([p_ for p_, _ in succ[0].pred]) != 1:
            continue
        # not re-bound between the test and the use
        if here <= set(rd.get(d.id, {}).get(var, ())):
            return True
    return False


def _kind_obligations(ctx: Ctx, rid: str, pm: ParserModel, vm: VisitorModel, ka: KindAnalysis) -> None:
    mod = pm.mod
    for fname, fn in pm.methods.items():
        cfg = pm.cfg(fname)
        for n in cfg.nodes:
            for c, r in pm.node_calls(fname, n):
                need = None
                arg = None
                what = None
                if r and r[0] == "visitor" and r[1] in vm.callbacks:
                    need = vm.callbacks[r[1]].state_kinds
                    arg = c.args[0] if c.args else None
                    what = r[1]
                elif isinstance(c.func, ast.Name) and c.func.id in vm.ctor_parent:
                    need = vm.ctor_parent[c.func.id]
                    arg = c.args[0] if c.args else None
                    what = f"{c.func.id}(parent)"
                    if isinstance(arg, ast.Constant) and arg.value is None:
                        # the root block: allowed only where the annotation is Optional
                        init = vm.smod.func(f"{c.func.id}.__init__")
                        from ..model import annotation_names
                        optional = "None" in annotation_names(init.args.args[1].annotation)
                        ctx.ob(rid, f"parser:CxxParser.{fname}|{what}=None", optional and fname == "__init__",
                               msg="a block state without parent is constructed outside __init__", node=c, mod=mod, nontrivial=False)
                        continue
                elif r and r[0] == "self":
                    callee = pm.fn(r[1])
                    params = callee.args.args[1:]
                    for i, a in enumerate(params):
                        ks = vm.dom.of_annotation(a.annotation)
                        if ks is None or ks == vm.dom.ALL:
                            continue
                        argi = c.args[i] if i < len(c.args) else next((k.value for k in c.keywords if k.arg == a.arg), None)
                        if argi is None:
                            continue
                        have = ka.kinds_at(fname, n, argi)
                        ctx.ob(rid, f"parser:CxxParser.{fname}|{r[1]}({a.arg})", have <= ks,
                               msg=f"`{short(argi)}` may be a {sorted(have - ks)} here but {r[1]} declares {sorted(ks)} for `{a.arg}`", node=c, mod=mod)
                    continue
                if need is None or arg is None:
                    continue
                have = ka.kinds_at(fname, n, arg)
                ctx.ob(rid, f"parser:CxxParser.{fname}|{what}", have <= need,
                       msg=f"state passed to {what} may be a {sorted(have - need)} (no dominating isinstance guard): the callee declares {sorted(need)}",
                       node=c, mod=mod, detail={"have": sorted(have), "need": sorted(need)})


def check_exception_discipline(ctx: Ctx, rid: str, pm: ParserModel) -> None:
    mod = pm.mod
    ctx.rule(rid, "parse(): catch-all encloses every dispatch, re-raises CxxParseError from the caught exception on all paths, emits nothing; no swallowing handler encloses emitting code", minimum=3)
    parse = pm.fn("parse")
    tries = [t for t in walk_local(parse) if isinstance(t, ast.Try)]
    emit = pm.may_emit()
    consume = pm.may_consume()
    outer = [t for t in tries if mod.parent.get(t) is parse]
    ok = len(outer) == 1
    ctx.ob(rid, "parser:CxxParser.parse|single top-level try", ok, msg="parse() no longer has exactly one top-level try statement", node=parse, mod=mod, nontrivial=False)
    if not ok:
        return
    t = outer[0]
    # nothing that consumes tokens or emits sits outside the try
    outside = []
    for st in parse.body:
        if st is t:
            continue
        for c in walk_local(st):
            if isinstance(c, ast.Call):
                r = pm.resolve("parse", c)
                if r and ((r[0] == "self" and (r[1] in emit or r[1] in consume)) or r[0] == "visitor" or (r[0] == "lex" and r[1] in ("token", "token_eof_ok", "get_doxygen"))):
                    outside.append(short(c))
    ctx.ob(rid, "parser:CxxParser.parse|all parsing happens inside the try", not outside, msg=f"calls outside the catch-all: {outside}", node=t, mod=mod)
    hs = t.handlers
    names = [norm(h.type) if h.type is not None else "<bare>" for h in hs]
    catch_all = [h for h in hs if h.type is None or norm(h.type) in ("Exception", "BaseException")]
    # a catch-all must come last (more specific handlers before it are fine: each is held to the same discipline)
    ctx.ob(rid, "parser:CxxParser.parse|handler catches Exception", len(catch_all) == 1 and hs[-1] is catch_all[0],
           msg=f"handlers of the top-level try are {names}: exceptions other than these escape parse() unwrapped", node=t, mod=mod, nontrivial=False)
    if not catch_all:
        return
    cfg = pm.cfg("parse")
    for h in hs:
        suffix = "" if h is catch_all[0] else f" ({norm(h.type)} handler)"
        ename = h.name
        hn = next((n for n in cfg.nodes if n.kind == "handler" and n.stmt is h), None)
        if hn is None or ename is None:
            ctx.ob(rid, "parser:CxxParser.parse|handler binds the exception" + suffix, False, msg="the handler does not bind the exception to a name", node=h, mod=mod)
            continue
        # all exits of the handler: explicit raise nodes; classify
        reach = set()
        stck = [hn]
        while stck:
            x = stck.pop()
            if x.id in reach:
                continue
            reach.add(x.id)
            stck.extend(s for s, lab in x.succ)
        falls = cfg.exit.id in reach
        raises = [cfg.nodes[i] for i in reach if cfg.nodes[i].kind == "stmt" and isinstance(cfg.nodes[i].stmt, ast.Raise)]
        bad = []
        for rn in raises:
            r: ast.Raise = rn.stmt  # type: ignore
            if r.exc is None:
                # bare re-raise: only under the verbose test
                dom = [cfg.nodes[i] for i in cfg.dominators()[rn.id] if cfg.nodes[i].kind == "test" and cfg.nodes[i].cond is not None]
                if not any("verbose" in norm(d.cond) for d in dom if d.id in reach):
                    bad.append("bare re-raise outside the verbose branch")
                continue
            is_cpe = isinstance(r.exc, ast.Call) and isinstance(r.exc.func, ast.Name) and r.exc.func.id == "CxxParseError"
            if not is_cpe:
                bad.append(f"raises `{short(r.exc)}`, not CxxParseError")
            if not (isinstance(r.cause, ast.Name) and r.cause.id == ename):
                bad.append(f"`{short(r)}` is not chained to the caught exception `{ename}`")
        # the exception name must not be rebound inside the handler
        from ..cfg import node_defs
        for i in reach:
            x = cfg.nodes[i]
            if x is hn:
                continue
            if ename in node_defs(x):
                bad.append(f"`{ename}` is rebound inside the handler")
        if falls:
            bad.append("a path through the handler completes normally: parse() would return after an error")
        ctx.ob(rid, "parser:CxxParser.parse|handler re-raises CxxParseError from the caught exception on every path" + suffix, not bad, msg="; ".join(bad), node=h, mod=mod)
        hcalls = []
        for st in h.body:
            for c in walk_local(st):
                if isinstance(c, ast.Call):
                    r = pm.resolve("parse", c)
                    if r and (r[0] == "visitor" or (r[0] == "self" and r[1] in emit) or r[0] == "finish"):
                        hcalls.append(short(c))
        ctx.ob(rid, "parser:CxxParser.parse|handler delivers no callback" + suffix, not hcalls, msg=f"the error handler can deliver callbacks: {hcalls}", node=h, mod=mod)
    # other try statements in the parser: a handler that completes normally must not enclose emitting code
    for fname, fn in pm.methods.items():
        for tr in walk_local(fn):
            if not isinstance(tr, ast.Try) or (fname == "parse" and tr is t):
                continue
            if not tr.handlers:
                continue
            can_emit = []
            for st in tr.body:
                for c in walk_local(st):
                    if isinstance(c, ast.Call):
                        r = pm.resolve(fname, c)
                        if r and (r[0] == "visitor" or r[0] == "finish" or (r[0] == "self" and r[1] in emit)):
                            can_emit.append(short(c))
            swallowing = [hh for hh in tr.handlers if not _handler_always_raises(hh)]
            ctx.ob(rid, f"parser:CxxParser.{fname}|try/except #{_try_index(fn, tr)} encloses no emitting code", not (swallowing and can_emit),
                   msg=f"a handler that swallows the exception encloses code that can deliver callbacks ({can_emit[:3]}): after a callback raises, further callbacks would follow",
                   node=tr, mod=mod)


def _handler_always_raises(h: ast.ExceptHandler) -> bool:
    cfg = CFG(ast.FunctionDef(name="h", args=ast.arguments(posonlyargs=[], args=[], kwonlyargs=[], kw_defaults=[], defaults=[]), body=h.body, decorator_list=[], lineno=h.lineno))
    return cfg.exit.id not in cfg.reachable()


def _try_index(fn: ast.AST, tr: ast.AST) -> int:
    i = 0
    for n in walk_local(fn):
        if isinstance(n, ast.Try):
            if n is tr:
                return i
            i += 1
    return -1
