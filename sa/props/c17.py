"""C17 -- formatted types parse back to the same type (decided: necessary
conditions visible in the formatter code, by partial evaluation of the
format methods over a finite shape domain)."""
from __future__ import annotations

import ast
import re
from typing import Any, Dict, List, Optional, Set, Tuple

from ..cfg import reaching_defs
from ..fmtmodel import FmtModel, Obj, Sym
from ..model import AnalysisError, norm, short
from ..report import Ctx

LEVEL = "partial evaluation of the format methods over an enumerated shape domain + structural rules"
EXPLANATION = (
    "The format()/format_decl() methods of types.py are partially evaluated (AST interpretation, nothing imported) for every combination of "
    "abstract field values: bools enumerated, optionals None/placeholder, lists of length 0/1/2, a child node one placeholder per class of "
    "its Union. R17.1 every compared field changes the output under every assignment of the other fields (a field that cannot reach the "
    "text cannot survive the round trip; a flag masked by another is lost). R17.2 a prefix declarator (pointer, reference) around a suffix "
    "kind (array, function) delegates to the child's format_decl with a parenthesised declarator that carries its sigil, qualifiers and "
    "the name. R17.3 an array lets its element type format the rest of the declarator (dimension order). R17.4 comma lists are well "
    "formed for 0, 1 and 2 elements with and without '...'. R17.5 a parameter uses format_decl when it has a name and appends its "
    "default. R17.6 the token values inside types re-lex to the same tokens (the pair analysis of C16). Not decided: round-trip equality "
    "itself (it needs the parser's behaviour on the formatted text)."
)

SUFFIX = {"Array", "FunctionType"}
NOT_PRODUCIBLE: set = set()  # every (wrapper, child) nesting of the field Unions can be produced by the parser since '(&&name)' groups are accepted
BAD_LIST = ["(, ", ", )", "(,", ",)", ", ,", "<, ", ", >", ",,"]


def run(ctx: Ctx) -> None:
    types = ctx.repo.mod("types")
    fm = FmtModel(types)
    ctx.trusted = ["field annotations of types.py as the shape domain", "the partial evaluator in sa/fmtmodel.py"]
    ctx.undecided = ["round-trip equality itself (needs the parser's behaviour on the formatted text)", "types the parser cannot produce (rvalue reference to array/function) are outside the statement's domain"]
    N = Sym("N")

    def outputs(cls: str, meth: str):
        names, asg = fm.assignments(cls)
        res = []
        for a in asg:
            fields = dict(zip(names, a))
            for seen_fields, out in fm.call_all(cls, meth, fields, [N] if meth == "format_decl" else []):
                res.append((seen_fields, out))
        return names, res

    # ---------------------------------------------------------------- R17.9
    # A text leaf (a field annotated `str`: a name, the words of a fundamental type, a class key) is the spelling the
    # parser recorded; parsing it back gives that spelling again only if it is written out as it is.  In the format
    # methods a str field is never the receiver of a transforming string method and never indexed or sliced.
    ctx.rule("R17.9", "text leaves are written out verbatim: a str field is not transformed (split / sorted / replaced / sliced) on its way into the formatted text", minimum=3)
    _TRANSFORM = {"split", "rsplit", "replace", "lower", "upper", "strip", "lstrip", "rstrip", "title", "capitalize", "casefold", "swapcase", "translate", "removeprefix",
                  "removesuffix", "expandtabs", "partition", "rpartition", "splitlines", "center", "ljust", "rjust", "zfill", "format", "join", "encode"}
    for cname, cnode in types.classes():
        strf = {st.target.id for st in cnode.body if isinstance(st, ast.AnnAssign) and isinstance(st.target, ast.Name) and norm(st.annotation) in ("str", "typing.Optional[str]", "Optional[str]")}
        if not strf:
            continue
        for m_ in cnode.body:
            if not (isinstance(m_, ast.FunctionDef) and m_.name in ("format", "format_decl")):
                continue
            for f_ in sorted(strf):
                bad = None
                reads = 0
                for x in ast.walk(m_):
                    if isinstance(x, ast.Attribute) and isinstance(x.value, ast.Name) and x.value.id == "self" and x.attr == f_:
                        reads += 1
                        par = types.parent.get(x)
                        if isinstance(par, ast.Attribute) and par.value is x and par.attr in _TRANSFORM and isinstance(types.parent.get(par), ast.Call):
                            bad = par
                        elif isinstance(par, ast.Subscript) and par.value is x:
                            bad = par
                if reads:
                    ctx.ob("R17.9", f"types:{cname}.{m_.name}|text field {f_}", bad is None,
                           msg=f"`{short(bad, 50) if bad is not None else ''}`: the recorded spelling is transformed before it is written, so the text parses back to a different {cname} (e.g. 'long unsigned int' rendered as 'unsigned long int')", node=bad or m_, mod=types, nontrivial=False)

    # ---------------------------------------------------------------- R17.11
    # A node is rendered in full wherever it occurs: format() takes nothing, format_decl() the declarator.  A further
    # argument is a mode switch, and a parent that passes one (`arg.format(names=False)`) renders its child with something
    # left out that the object holds - which then cannot come back when the text is parsed.
    ctx.rule("R17.11", "children are formatted in full: format() is called without arguments, format_decl() with the declarator only", minimum=10)
    for cname, cnode in types.classes():
        for m_ in cnode.body:
            if not isinstance(m_, ast.FunctionDef):
                continue
            for x in ast.walk(m_):
                if isinstance(x, ast.Call) and isinstance(x.func, ast.Attribute) and x.func.attr in ("format", "format_decl") and not isinstance(x.func.value, ast.Constant):
                    nargs = len(x.args) + len(x.keywords)
                    ok = nargs == (0 if x.func.attr == "format" else 1)
                    ctx.ob("R17.11", f"types:{cname}.{m_.name}|`{short(x, 50)}`", ok,
                           msg=f"`{short(x, 60)}` formats a child in a reduced mode (an extra argument switches part of its rendering off): what the child holds and the text does not show is lost when the text is parsed back", node=x, mod=types, nontrivial=False)

    # ---------------------------------------------------------------- R17.10
    check_text_not_edited(ctx, "R17.10", types)

    cache: Dict[Tuple[str, str], Any] = {}
    total = 0
    for cls in fm.classes:
        for meth in ("format", "format_decl"):
            if fm.has_method(cls, meth):
                cache[(cls, meth)] = outputs(cls, meth)
                total += len(cache[(cls, meth)][1])
    ctx.extra["shape_evaluations"] = total

    # ---------------------------------------------------------------- R17.1
    ctx.rule("R17.1", "every compared field changes the formatted text under every assignment of the other fields", minimum=40)
    for (cls, meth), (names, res) in sorted(cache.items()):
        fdefs = {f: c for f, _, c in fm.fields(cls)}
        for f in names:
            if not fdefs.get(f, True):
                continue
            # group by the other fields
            groups: Dict[Tuple, List[Tuple[Any, str]]] = {}
            for fields, out in res:
                key = tuple(repr(v) if not isinstance(v, (bool, type(None))) else v for k, v in fields.items() if k != f)
                groups.setdefault(key, []).append((fields[f], out))
            vals = {repr(v) for g in groups.values() for v, _ in g}
            if len(vals) < 2:
                continue
            masked = None
            for key, g in groups.items():
                outs = {}
                for v, o in g:
                    if o in outs and repr(outs[o]) != repr(v):
                        masked = (outs[o], v, o, key)
                    outs[o] = v
                if masked:
                    break
            ctx.ob("R17.1", f"types:{cls}.{meth}|field {f}", masked is None,
                   msg=("" if masked is None else f"{cls}.{meth} gives the same text {masked[2]!r} for {f}={masked[0]!r} and {f}={masked[1]!r} (other fields: {dict(zip([n for n in names if n != f], masked[3]))}): the field is lost or masked when the text is parsed back"),
                   node=types.cls(cls), mod=types, detail={"assignments": len(res)})

    # ---------------------------------------------------------------- R17.2
    # Reference: the C++ declarator grammar.  A type is rendered inside-out around the
    # declared name; the text of an array or function (and of a pointer chain that ends
    # in one) continues AFTER the name, so whatever wraps it must hand its own
    # declarator ("*cv name") to the child's format_decl -- in parentheses when the
    # child itself is the array/function, because the suffix binds tighter than '*'/'&'.
    ctx.rule("R17.2", "declarator nesting: a pointer/reference/function around a type whose text continues after the name hands its declarator to the child's format_decl (parenthesised around array/function)", minimum=40)
    sig = {"Pointer": "*", "Reference": "&", "MoveReference": "&&"}
    childf = {"Pointer": "ptr_to", "Reference": "ref_to", "MoveReference": "moveref_to"}

    def chain(tag: str, classes: List[str], inner_field: str = "ptr_to") -> Obj:
        """placeholder for Pointer{ptr_to=Pointer{ptr_to=Array}} and the like"""
        if len(classes) == 1:
            return Obj(classes[0], f"{tag}:{classes[0]}")
        return Obj(classes[0], f"{tag}:{classes[0]}", preset={childf[classes[0]]: chain(tag + "." + childf[classes[0]], classes[1:])})

    def suffixed(o: Obj) -> bool:
        while o.cls in childf and childf[o.cls] in o.sub:
            o = o.sub[childf[o.cls]]
        return o.cls in SUFFIX

    def describe(o: Obj) -> str:
        out = [o.cls]
        while o.cls in childf and childf[o.cls] in o.sub:
            o = o.sub[childf[o.cls]]
            out.append(o.cls)
        return " to ".join(out)

    def squash(t: str) -> str:
        return re.sub(r"\s*([*&()\[\],])\s*", r"\1", t)

    PTR_SHAPES = [["Type"], ["Array"], ["FunctionType"], ["Pointer", "Type"], ["Pointer", "Array"], ["Pointer", "FunctionType"],
                  ["Pointer", "Pointer", "Type"], ["Pointer", "Pointer", "Array"], ["Pointer", "Pointer", "FunctionType"]]
    for W in ("Pointer", "Reference", "MoveReference"):
        for meth in ("format", "format_decl"):
            names, asg = fm.assignments(W)
            base_rows = []
            seen_rows = set()
            for a in asg:
                row = dict(zip(names, a))
                k = tuple((n, v) for n, v in row.items() if n != childf[W] and isinstance(v, (bool, type(None))))
                if k not in seen_rows:
                    seen_rows.add(k)
                    base_rows.append(row)
            for row in base_rows:
                for shape in PTR_SHAPES:
                    fields = dict(row)
                    fields[childf[W]] = chain(childf[W], shape)
                    rs = fm.call_all(W, meth, fields, [N] if meth == "format_decl" else [])
                    for seen_fields, out in rs:
                        child = seen_fields[childf[W]]
                        K = child.cls
                        cv = "".join(q for q in (" const" if fields.get("const") else "", " volatile" if fields.get("volatile") else ""))
                        nm = " N" if meth == "format_decl" else ""
                        grouped = f"<{child.tag}.decl(({sig[W]}{cv}{nm}))>"
                        handed = f"<{child.tag}.decl({sig[W]}{cv}{nm})>"
                        prefix = f"<{child.tag}.format>{sig[W]}{cv}{nm}"
                        if K in SUFFIX:
                            want = [grouped]
                        elif suffixed(child):
                            want = [handed]
                        else:
                            want = [prefix, handed]
                        ok = squash(out) in [squash(w) for w in want]
                        if (W, K) in NOT_PRODUCIBLE:
                            if not ok:
                                ctx.note(f"{W}.{meth} around {K} is not grouped ({out!r}); the parser cannot produce this nesting (grouping parentheses are recognised before '*' and '&' only), so it is outside the statement's domain")
                            continue
                        ctx.ob("R17.2", f"types:{W}.{meth}|around {describe(child)}{cv}", ok,
                               msg=f"{W}.{meth} renders a {W.lower()} to {describe(child)} as {out!r}; the text of the {describe(child).split(' to ')[-1]} continues after the declared name, so the declarator must be handed to the child: expected {want[0]!r}",
                               node=types.cls(W), mod=types, nontrivial=K in SUFFIX or suffixed(child))
    # a function's return type can itself continue after the name (function returning a pointer to array / function)
    RET_SHAPES = [["Type"], ["Pointer", "Type"], ["Pointer", "Array"], ["Pointer", "FunctionType"], ["Pointer", "Pointer", "FunctionType"],
                  ["Reference", "Type"], ["Reference", "Array"], ["Reference", "Pointer", "FunctionType"]]
    for meth in ("format", "format_decl"):
        names, asg = fm.assignments("FunctionType")
        for a in asg:
            row = dict(zip(names, a))
            if row["has_trailing_return"] or row["noexcept"] is not None or row["msvc_convention"] is not None or len(row["parameters"]) == 2:
                continue
            if not isinstance(row["return_type"], Obj) or row["return_type"].cls != "Type":
                continue
            for shape in RET_SHAPES:
                fields = dict(row)
                fields["return_type"] = chain("return_type", shape)
                for seen_fields, out in fm.call_all("FunctionType", meth, fields, [N] if meth == "format_decl" else []):
                    rt = seen_fields["return_type"]
                    head = f"<{rt.tag}.decl(" + ("N(" if meth == "format_decl" else "(")
                    handed = out.startswith(head) and out.endswith(")>")
                    pre = out.startswith(f"<{rt.tag}.format> " + ("N(" if meth == "format_decl" else "("))
                    ok = handed or (pre and not suffixed(rt))
                    ctx.ob("R17.2", f"types:FunctionType.{meth}|returning {describe(rt)}, {len(row['parameters'])} parameter(s){', vararg' if row['vararg'] else ''}", ok,
                           msg=f"FunctionType.{meth} renders a function returning {describe(rt)} as {out!r}; the return type's text continues after the parameter list, so 'name(params)' must be handed to the return type's format_decl",
                           node=types.cls("FunctionType"), mod=types, nontrivial=suffixed(rt))

    # ---------------------------------------------------------------- R17.3
    ctx.rule("R17.3", "an array lets its element type format the rest of the declarator", minimum=6)
    for meth in ("format", "format_decl"):
        names, res = cache[("Array", meth)]
        for fields, out in res:
            child = fields["array_of"]
            s = "" if fields["size"] is None else f"<{fields['size'].tag}.format>"
            if meth == "format_decl":
                want = [f"<{child.tag}.decl(N[{s}])>"]
            else:
                want = [f"<{child.tag}.decl([{s}])>"] + ([f"<{child.tag}.format>[{s}]"] if child.cls == "Type" else [])
            ctx.ob("R17.3", f"types:Array.{meth}|element {child.cls}, size {'given' if s else 'empty'}", out in want,
                   msg=f"Array.{meth} renders {out!r}; the element's own dimensions / grouping must come after this dimension: expected {want[0]!r}", node=types.cls("Array"), mod=types)

    # ---------------------------------------------------------------- R17.4
    ctx.rule("R17.4", "comma lists are well formed for 0, 1, 2 elements, with and without '...'", minimum=3)
    for cls in ("FunctionType", "TemplateSpecialization", "Parameter", "TemplateArgument"):
        for meth in ("format", "format_decl"):
            if (cls, meth) not in cache:
                continue
            names, res = cache[(cls, meth)]
            bad = [(fields, out) for fields, out in res if any(b in out for b in BAD_LIST)]
            ctx.ob("R17.4", f"types:{cls}.{meth}|list punctuation", not bad,
                   msg=("" if not bad else f"{cls}.{meth} renders {bad[0][1]!r} for {_brief(bad[0][0])}: an empty list item, which does not parse back"), node=types.cls(cls), mod=types,
                   detail={"evaluated": len(res)})
    for meth in ("format", "format_decl"):
        names, res = cache[("FunctionType", meth)]
        for nparams in (0, 1, 2):
            va = [out for fields, out in res if fields["vararg"] and len(fields["parameters"]) == nparams]
            # the C variadic marker is a list item of its own: "(...)" or "(a, ...)"; "(a...)" reads back as a parameter pack
            pat = r"\(\.\.\.\)" if nparams == 0 else r", \.\.\.\)"
            bad = [o for o in va if not re.search(pat, o)]
            ctx.ob("R17.4", f"types:FunctionType.{meth}|vararg after {nparams} parameter(s) is its own list item", bool(va) and not bad,
                   msg=(f"FunctionType.{meth} renders a variadic function with {nparams} parameter(s) as {bad[0]!r}: '...' directly after a parameter declares a parameter pack when parsed back, not a C variadic" if bad else "no variadic shape evaluated"),
                   node=types.cls("FunctionType"), mod=types, detail={"evaluated": len(va)})

    # ---------------------------------------------------------------- R17.5
    ctx.rule("R17.5", "Parameter: declarator form when named, default appended", minimum=1)
    names, res = cache[("Parameter", "format")]
    bad = []
    for fields, out in res:
        t = fields["type"]
        d = "" if fields["default"] is None else f" = <{fields['default'].tag}.format>"
        pp = "... " if fields["param_pack"] else ""
        if fields["name"] is None:
            want = f"<{t.tag}.format>{pp}{d}"
        else:
            want = f"<{t.tag}.decl({pp}{fields['name']})>{d}"
        if out != want:
            bad.append((out, want))
    ctx.ob("R17.5", "types:Parameter.format", not bad, msg=f"Parameter.format renders {bad[0][0]!r}, expected {bad[0][1]!r}" if bad else "", node=types.cls("Parameter"), mod=types, detail={"evaluated": len(res)})

    # ---------------------------------------------------------------- R17.7
    # format() writes a type-id; the statement re-parses it in parameter and alias position.
    # A type-id is "type-specifier-seq abstract-declarator?", and the abstract declarator of an
    # array type is a '[...]' suffix: every parser site that reads a type-id in one of those
    # positions must go on to the array suffix after the pointer/function part (sibling
    # cross-check: the parameter parser is the reference implementation).
    from ..pmodel import ParserModel
    pm = ParserModel(ctx.repo)
    ctx.rule("R17.7", "type-id positions (parameter, alias, template argument) accept the array suffix that format() writes", minimum=3)
    type_id_array_suffix(ctx, "R17.7", pm)

    # ---------------------------------------------------------------- R17.8
    # a formatted type with template arguments parses back only if every argument that format() writes as a type-id is
    # tried (and kept) as a type: the trial-parse rules of C02 (R2.2), evaluated here under this property's id
    from . import c02 as _c02
    from ..report import run_shared as _run_shared
    _run_shared(ctx, _c02.run, {"R2.2": ("R17.8", "template arguments that are type-ids (as format() writes them: cv-qualifier first) are parsed back as types")})

    # ---------------------------------------------------------------- R17.6
    from . import c16
    from ..report import SubCtx, run_shared
    # the families already listed for C16 are the same defect seen through Value.format(); they stay keyed under C16 only
    drop = {k["key"] for k in _known()}
    run_shared(ctx, c16.run, {"R16.1": ("R17.6", "token values inside types re-lex to the same tokens (pair analysis of C16)")}, drop)


def type_id_array_suffix(ctx: Ctx, rid: str, pm: ParserModel) -> None:
    """every position where a type-id is read (parameter, alias, template argument) reads the array suffix too"""
    for fname, built in (("_parse_parameter", "Parameter / TemplateNonTypeParam"), ("_parse_using_typealias", "UsingAlias"), ("_parse_template_specialization", "TemplateArgument")):
        cfg = pm.cfg(fname)
        cv = [n for n in cfg.nodes for c, r in pm.node_calls(fname, n) if r is not None and r[0] == "self" and r[1] in ("_parse_cv_ptr", "_parse_cv_ptr_or_fn")]
        arr = [n for n in cfg.nodes for c, r in pm.node_calls(fname, n) if r is not None and r == ("self", "_parse_array_type")]
        ok = bool(cv) and bool(arr)
        why = f"{fname} never calls _parse_array_type"
        if ok:
            guarded = []
            for a in arr:
                deps = cfg.control_deps(a)
                tests = [d for d, lab in deps if lab == "T"]
                # the test is on a token obtained with token_if('[')
                rd = reaching_defs(cfg)
                good = False
                for t in tests:
                    for x in ast.walk(t.cond):
                        if isinstance(x, ast.Name):
                            for di in rd.get(t.id, {}).get(x.id, ()):
                                dn = cfg.nodes[di]
                                if dn.stmt is not None and "token_if('[')" in norm(dn.stmt):
                                    good = True
                guarded.append(good and any(_reaches(c0, a) for c0 in cv))
            ok = any(guarded)
            why = f"{fname} does not reach _parse_array_type under a token_if('[') test after the pointer part"
        ctx.ob(rid, f"parser:CxxParser.{fname}|array suffix of a type-id ({built})", ok,
               msg=f"{why}: '{'using A = int[3];' if 'alias' in fname else 'Foo<int[3]> x;' if 'template' in fname else 'void f(int[3]);'}' - which is what format() writes for an array type in this position - is rejected",
               node=pm.fn(fname), mod=pm.mod)


def _reaches(a, b) -> bool:
    seen = set()
    st = [a]
    while st:
        x = st.pop()
        if x is b:
            return True
        if x.id in seen:
            continue
        seen.add(x.id)
        st.extend(s for s, lab in x.succ if lab != "exc")
    return False


def _known():
    from ..report import load_known
    return [k for k in load_known().get("known", []) if k.get("property") == "C16"]


def _brief(fields: Dict[str, Any]) -> str:
    return ", ".join(f"{k}={v!r}" for k, v in fields.items() if isinstance(v, (bool, list)) or v is None)


_TRANSFORM_METHODS = {"split", "rsplit", "replace", "lower", "upper", "strip", "lstrip", "rstrip", "title", "capitalize", "casefold", "swapcase", "translate", "removeprefix",
                      "removesuffix", "expandtabs", "partition", "rpartition", "splitlines", "center", "ljust", "rjust", "zfill", "encode"}


def check_text_not_edited(ctx: Ctx, rid: str, types) -> None:
    """What a child's format()/format_decl() (or tokfmt) returns is finished text: it may contain any character the parent
    writes itself ('&', '*', '(' ...) and, for token values, blanks inside string and character literals.  A method that
    edits that text (replace / split / strip / slicing) edits those characters too.  Formatted text is only concatenated.
    (Shared with C16 as R16.4: a Value's formatted text re-lexes to its tokens only if nothing is done to it afterwards.)"""
    ctx.rule(rid, "text returned by a child's format()/format_decl()/tokfmt is only concatenated, never edited", minimum=0)
    for cname, cnode in types.classes():
        for m_ in cnode.body:
            if not isinstance(m_, ast.FunctionDef):
                continue
            # locals bound to formatted text (`s = tokfmt(self.tokens)`)
            held = set()
            for st in ast.walk(m_):
                if isinstance(st, ast.Assign) and len(st.targets) == 1 and isinstance(st.targets[0], ast.Name) and _formats(st.value):
                    held.add(st.targets[0].id)
            for x in ast.walk(m_):
                edited = None
                if isinstance(x, ast.Call) and isinstance(x.func, ast.Attribute) and x.func.attr in _TRANSFORM_METHODS:
                    edited = x.func.value
                elif isinstance(x, ast.Subscript) and isinstance(x.ctx, ast.Load):
                    edited = x.value
                if edited is None:
                    continue
                inner = [c for c in ast.walk(edited) if _formats(c)] or [n_ for n_ in ast.walk(edited) if isinstance(n_, ast.Name) and n_.id in held]
                if inner:
                    ctx.ob(rid, f"types:{cname}.{m_.name}|`{short(x, 50)}`", False,
                           msg=f"the text produced by `{short(inner[0], 40)}` is edited afterwards (`{short(x, 60)}`): the edit also hits characters that belong to the child's own rendering (a '&' of a template argument, blanks inside a string literal), so the text parses or lexes back differently", node=x, mod=types)


def _formats(c: ast.AST) -> bool:
    return isinstance(c, ast.Call) and ((isinstance(c.func, ast.Attribute) and c.func.attr in ("format", "format_decl") and not isinstance(c.func.value, ast.Constant))
                                        or (isinstance(c.func, ast.Name) and c.func.id == "tokfmt"))
