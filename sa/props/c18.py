"""C18 -- parser options change exactly what they document."""
from __future__ import annotations

import ast
import re
from typing import Dict, List, Optional, Set, Tuple

from ..cfg import CFG, Node, reaching_defs
from ..kinds import node_containing
from ..model import AnalysisError, attr_chain, is_self_attr, norm, short, stores_in, walk_local
from ..pmodel import ParserModel
from ..report import Ctx

LEVEL = "forward slices from the option reads"
EXPLANATION = (
    "R18.1 convert_void_to_zero_params is read at one site; every parameter list produced by _parse_parameters passes that site before it "
    "is used; the guarded effect only replaces the list by an empty one, under conjuncts testing length 1, node kind Type, one segment, "
    "name 'void'. R18.2 the verbose flag is read only to choose the debug_print binding and for the bare re-raise at the top of parse()'s "
    "handler; debug_print bodies only print; every debug_print call is an expression statement whose arguments call nothing that "
    "consumes tokens or changes state. R18.3 the preprocessor hook has one call site, outside any loop, guarded only by `is not None`, "
    "with the unmodified constructor arguments (filename, content); its result, unmodified, is the only definition of the content that "
    "reaches the token stream on that path, and the file is opened only when content is None."
)


def option_reads(pm: ParserModel, attr: str) -> List[Tuple[str, ast.AST]]:
    out = []
    for fname, fn in pm.methods.items():
        for x in ast.walk(fn):
            if isinstance(x, ast.Attribute) and x.attr == attr and isinstance(x.ctx, ast.Load):
                out.append((fname, x))
    return out


def run(ctx: Ctx) -> None:
    pm = ParserModel(ctx.repo)
    mod = pm.mod
    opts = ctx.repo.mod("options")
    fields = [st.target.id for st in opts.cls("ParserOptions").body if isinstance(st, ast.AnnAssign) and isinstance(st.target, ast.Name)]
    ctx.trusted = ["options.ParserOptions field list"]
    ctx.undecided = []
    ctx.rule("R18.0", "every option of ParserOptions is consulted somewhere, and only documented options exist", minimum=3)
    for f in fields:
        n = len(option_reads(pm, f))
        ctx.ob("R18.0", f"options:ParserOptions.{f}|read in parser.py", n >= 1 and f in ("verbose", "convert_void_to_zero_params", "preprocessor"),
               msg=f"option {f} is read {n} time(s) in parser.py / is not one of the three documented options", node=opts.cls("ParserOptions"), mod=opts, nontrivial=False)

    # ---------------------------------------------------------------- R18.1
    ctx.rule("R18.1", "void-to-empty: one read site, applied to every parameter list, effect only empties the list under the lone-unnamed-void test", minimum=1)
    reads = option_reads(pm, "convert_void_to_zero_params")
    ok = len(reads) == 1
    ctx.ob("R18.1", "parser:CxxParser|convert_void_to_zero_params read once", ok, msg=f"the option is consulted at {len(reads)} sites ({[f for f, _ in reads]})", node=reads[0][1] if reads else pm.cls, mod=mod, nontrivial=False)
    if ok:
        rf, rnode = reads[0]
        cfg = pm.cfg(rf)
        n = node_containing(cfg, rnode)
        iff = n.stmt if n is not None else None
        body_ok = False
        why = []
        if n is None or n.kind != "test":
            why.append("the option is not read in a test")
        else:
            # every statement that runs only when the option test holds, with the conjunction of tests that guards it
            def chain(x, seen=None):
                seen = seen or set()
                out = []
                for d, lab in cfg.control_deps(x):
                    if d.id in seen or d.stmt is None or isinstance(d.stmt, ast.Assert):
                        continue
                    seen.add(d.id)
                    out.append((d, lab))
                    if d is not n:
                        out += chain(d, seen)  # what guards the option test itself is not part of the conversion test
                return out
            guarded = []
            for x in cfg.nodes:
                if x is n or x.stmt is None:
                    continue
                ch = chain(x)
                if any(d is n and lab == "T" for d, lab in ch):
                    # keep the option test and the tests nested under it; what guards the option test itself is not part of the conversion
                    ch = [(d, lab) for d, lab in ch if d is n or any(d2 is n for d2, _ in cfg.control_deps(d))]
                    guarded.append((x, ch))
            effects = []
            for x, ch in guarded:
                st = x.stmt
                if x.kind == "test":
                    continue
                if x.kind == "stmt" and isinstance(st, ast.Assign) and not any(isinstance(c, ast.Call) and not (isinstance(c.func, ast.Name) and c.func.id in ("len", "isinstance", "getattr")) for c in ast.walk(st.value)) \
                        and not (isinstance(st.value, ast.List) and not st.value.elts) and all(isinstance(t, ast.Name) or (isinstance(t, (ast.Tuple, ast.List)) and all(isinstance(e_, ast.Name) for e_ in t.elts)) for t in st.targets):
                    continue  # a local computed for the test (p0_type = params[0].type, single_segment = ...)
                effects.append((x, ch))
            body_ok = bool(effects)
            if not effects:
                why.append("nothing happens under the option test")
            for x, ch in effects:
                st = x.stmt
                empty = (isinstance(st, ast.Assign) and isinstance(st.value, ast.List) and not st.value.elts) or (isinstance(st, ast.Return) and isinstance(st.value, ast.List) and not st.value.elts)
                if not empty:
                    body_ok = False
                    why.append(f"`{short(st, 50)}` runs under the option test: the guarded effect is not `<list> = []`")
                    continue
                if any(lab != "T" for d, lab in ch if d.kind == "test" and not isinstance(d.stmt, (ast.While, ast.For))):
                    body_ok = False
                    why.append("the list is emptied on the false side of one of its tests")
                    continue
                # the guard, with locals that only name parts of it written out
                texts = []
                for d, lab in ch:
                    if d.cond is None:
                        continue
                    parts = d.cond.values if isinstance(d.cond, ast.BoolOp) and isinstance(d.cond.op, ast.And) else [d.cond]
                    for p_ in parts:
                        hc = _bool_helper_condition(pm, p_)
                        texts.append(hc if hc is not None else _expand_locals(cfg, d, p_))
                joined = " && ".join(texts)
                need = {"a Type node": ("isinstance(", ", Type)"), "one name segment": (".segments) == 1",), "named 'void'": ("== 'void'",), "a single parameter": ("len(", ") == 1")}
                missing = [k for k, frags in need.items() if not all(f in joined for f in frags)]
                if missing:
                    body_ok = False
                    why.append(f"the test guarding `{short(st, 40)}` no longer checks: {', '.join(missing)}")
        ctx.ob("R18.1", f"parser:CxxParser.{rf}|conversion test and effect", body_ok, msg="; ".join(why) or "the option read is not a conjunct of the lone-unnamed-void test", node=iff or pm.fn(rf), mod=mod)
        # applied to every parameter list
        if rf == "_parse_parameters":
            rets = [x for x in cfg.nodes if x.kind == "stmt" and isinstance(x.stmt, ast.Return)]
            bad = []
            for r in rets:
                v = r.stmt.value
                first = v.elts[0] if isinstance(v, ast.Tuple) and v.elts else v
                if isinstance(first, ast.List) and not first.elts:
                    continue  # the empty list needs no conversion
                if cfg.paths_avoiding(cfg.entry, r, lambda x: x is n):
                    bad.append(short(r.stmt))
            ctx.ob("R18.1", "parser:CxxParser._parse_parameters|every non-empty list passes the conversion test", not bad, msg=f"return {bad} can be reached without the conversion test", node=pm.fn(rf), mod=mod)
        else:
            for caller, call in pm.call_sites("_parse_parameters"):
                ccfg = pm.cfg(caller)
                cn = node_containing(ccfg, call)
                st = cn.stmt if cn is not None else None
                var = None
                if isinstance(st, ast.Assign) and isinstance(st.targets[0], ast.Tuple) and isinstance(st.targets[0].elts[0], ast.Name):
                    var = st.targets[0].elts[0].id
                conv = [x for x in ccfg.nodes for c, r in pm.node_calls(caller, x) if r == ("self", rf) and any(isinstance(a, ast.Name) and a.id == var for a in c.args)]
                okk = var is not None and bool(conv) and not ccfg.paths_avoiding(cn, ccfg.exit, lambda x: x in conv)
                ctx.ob("R18.1", f"parser:CxxParser.{caller}|parameter list `{var}` passes {rf} #{_idx(pm, caller, call)}", okk,
                       msg=f"the parameter list produced at `{short(st)}` is used without the void-to-empty conversion: with default options `(void)` stays a parameter in this context", node=call, mod=mod)

    # ---------------------------------------------------------------- R18.2
    ctx.rule("R18.2", "verbose: read only for the debug_print choice and the bare re-raise in parse(); debug_print only prints; its call sites are effect-free", minimum=4)
    vreads = [(f, x) for f, x in option_reads(pm, "verbose")]
    for f, x in vreads:
        par = mod.parent.get(x)
        ok = False
        if f == "__init__":
            # self.verbose = self.options.verbose ; if self.verbose: <choose debug_print>
            if isinstance(par, ast.Assign) and all(is_self_attr(t, "verbose") for t in par.targets):
                ok = True
            elif isinstance(par, ast.IfExp) and par.test is x and isinstance(mod.parent.get(par), ast.Assign) and all(is_self_attr(t, "debug_print") for t in mod.parent.get(par).targets):
                ok = True
            elif isinstance(par, ast.If) and par.test is x:
                sts = [s for b in (par.body, par.orelse) for s in b]
                ok = all(isinstance(s, (ast.FunctionDef, ast.Assign)) for s in sts) and all(
                    (not isinstance(s, ast.Assign)) or all(is_self_attr(t, "debug_print") for t in s.targets) for s in sts)
        elif f == "parse":
            if isinstance(par, ast.If) and par.test is x and len(par.body) == 1 and isinstance(par.body[0], ast.Raise) and par.body[0].exc is None and not par.orelse:
                h = mod.parent.get(par)
                ok = isinstance(h, ast.ExceptHandler) and h.body[0] is par
        ctx.ob("R18.2", f"parser:CxxParser.{f}|read of verbose in `{short(par, 40)}`", ok,
               msg="the verbose flag is consulted outside the debug_print choice and the top-of-handler re-raise: verbose mode would change what is parsed or which errors surface", node=x, mod=mod, nontrivial=False)
    # debug_print bodies: only formatting and print
    init = pm.fn("__init__")

    def callable_of(v: ast.AST):
        """('lambda'|'def', node) for what a debug_print binding denotes: a lambda, a nested def, a method of the class
        or a class-level staticmethod(lambda)"""
        if isinstance(v, ast.Lambda):
            return ("lambda", v)
        if isinstance(v, ast.Name):
            for f_ in ast.walk(init):
                if isinstance(f_, ast.FunctionDef) and f_.name == v.id and f_ is not init:
                    return ("def", f_)
            # a function of the module
            for f_ in mod.tree.body:
                if isinstance(f_, ast.FunctionDef) and f_.name == v.id:
                    return ("def", f_)
        if isinstance(v, ast.Attribute) and isinstance(v.value, ast.Name) and v.value.id in ("self", "CxxParser"):
            if v.attr in pm.methods:
                return ("def", pm.methods[v.attr])
            for st_ in pm.cls.body:
                if isinstance(st_, ast.Assign) and any(isinstance(t, ast.Name) and t.id == v.attr for t in st_.targets):
                    val = st_.value
                    if isinstance(val, ast.Call) and isinstance(val.func, ast.Name) and val.func.id == "staticmethod" and val.args:
                        val = val.args[0]
                    if isinstance(val, ast.Lambda):
                        return ("lambda", val)
        return None

    def is_noop(k) -> bool:
        kind, node = k
        if kind == "lambda":
            return isinstance(node.body, ast.Constant)
        return all(isinstance(s_, ast.Pass) or (isinstance(s_, ast.Expr) and isinstance(s_.value, ast.Constant)) or (isinstance(s_, ast.Return) and (s_.value is None or isinstance(s_.value, ast.Constant))) for s_ in node.body)

    printers = []
    for x in walk_local(init):
        if isinstance(x, ast.Assign) and any(is_self_attr(t, "debug_print") for t in x.targets):
            v = x.value
            sides = [(v.body, True), (v.orelse, False)] if isinstance(v, ast.IfExp) and any(is_self_attr(y, "verbose") or (isinstance(y, ast.Attribute) and y.attr == "verbose") for y in ast.walk(v.test)) else [(v, None)]
            for side, when in sides:
                k = callable_of(side)
                ok = k is not None and (is_noop(k) or when is not False)
                if k is not None and not is_noop(k):
                    printers.append(k[1])
                ctx.ob("R18.2", f"parser:CxxParser.__init__|debug_print bound to `{short(side, 30)}`", ok, msg="debug_print is bound to something other than the verbose printer or a no-op (in non-verbose mode it must do nothing)", node=x, mod=mod, nontrivial=False)
    for f in printers:
        calls = [c for c in ast.walk(f) if isinstance(c, ast.Call)]
        bad = [short(c) for c in calls if not (norm(c.func) in ("print", "inspect.currentframe") or norm(c.func).startswith("inspect."))]
        stores = [s for s in ast.walk(f) if isinstance(s, (ast.Assign, ast.AugAssign)) and any(isinstance(t, ast.Attribute) for t in (s.targets if isinstance(s, ast.Assign) else [s.target]))]
        ctx.ob("R18.2", "parser:CxxParser.__init__|verbose debug_print only prints", not bad and not stores, msg=f"the verbose printer does more than print: {bad}", node=f, mod=mod)
    if not printers:
        raise AnalysisError("anchor vanished: the verbose debug_print printer")
    # the verbose printer applies '%' to its format: then the data must never be part of the format string
    pct = False
    for f in printers:
        if isinstance(f, ast.FunctionDef) and f.args.args:
            first = [a.arg for a in f.args.args if a.arg not in ("self", "cls")][0] if [a.arg for a in f.args.args if a.arg not in ("self", "cls")] else None
            for x in ast.walk(f):
                if first and isinstance(x, ast.BinOp) and isinstance(x.op, ast.Mod) and first in {n.id for n in ast.walk(x.left) if isinstance(n, ast.Name)}:
                    pct = True
    ctx.extra["verbose_printer_applies_percent"] = pct
    may = pm.may_consume() | pm.may_emit() | pm.closure({"_setup_state", "_pop_state"})
    for fname, fn in pm.methods.items():
        for c in walk_local(fn):
            if pct and isinstance(c, ast.Call) and is_self_attr(c.func, "debug_print"):
                why = _format_ok(c)
                ctx.ob("R18.2", f"parser:CxxParser.{fname}|format of `{short(c, 40)}`", not why,
                       msg=f"verbose mode applies '%' to the first argument of debug_print, the default mode ignores it: {why}; verbose mode would raise where the default mode parses", node=c, mod=mod)
    for fname, fn in pm.methods.items():
        for c in walk_local(fn):
            if isinstance(c, ast.Call) and is_self_attr(c.func, "debug_print"):
                par = mod.parent.get(c)
                inner = [x for a in c.args for x in ast.walk(a) if isinstance(x, ast.Call)]
                bad = [short(x) for x in inner if (pm.resolve(fname, x) or ("",))[0] in ("lex", "visitor", "finish") or ((pm.resolve(fname, x) or ("", ""))[0] == "self" and pm.resolve(fname, x)[1] in may)]
                ctx.ob("R18.2", f"parser:CxxParser.{fname}|debug_print call `{short(c, 40)}`", isinstance(par, ast.Expr) and not bad,
                       msg=f"a debug_print call has side effects on parsing ({bad}) or its result is used", node=c, mod=mod, nontrivial=False)

    # ---------------------------------------------------------------- R18.3
    ctx.rule("R18.3", "preprocessor hook: one call, (filename, content) unmodified, result unmodified is the content that is lexed; file opened only if content is None", minimum=3)
    preads = option_reads(pm, "preprocessor")
    calls = []
    hook_locals: Dict[str, Set[str]] = {}
    for f, x in preads:
        par = mod.parent.get(x)
        if isinstance(par, ast.Call) and par.func is x:
            calls.append((f, par))
        # the hook read into a local (`hook = options.preprocessor if options else None`)
        st_ = par
        while st_ is not None and not isinstance(st_, ast.stmt):
            st_ = mod.parent.get(st_)
        if isinstance(st_, ast.Assign) and len(st_.targets) == 1 and isinstance(st_.targets[0], ast.Name) and not any(isinstance(c_, ast.Call) for c_ in ast.walk(st_.value)):
            hook_locals.setdefault(f, set()).add(st_.targets[0].id)
    for f, names_ in hook_locals.items():
        for c_ in walk_local(pm.fn(f)):
            if isinstance(c_, ast.Call) and isinstance(c_.func, ast.Name) and c_.func.id in names_:
                calls.append((f, c_))
    ok = len(calls) == 1 and calls[0][0] == "__init__"
    ctx.ob("R18.3", "parser:CxxParser|single call site of the preprocessor hook in __init__", ok, msg=f"the hook is called from {[f for f, _ in calls]}", node=calls[0][1] if calls else pm.cls, mod=mod, nontrivial=False)
    if ok:
        call = calls[0][1]
        cfg = pm.cfg("__init__")
        n = node_containing(cfg, call)
        params = [a.arg for a in init.args.args[1:]]
        rd = reaching_defs(cfg)
        why = []
        good = True
        if not (len(call.args) == 2 and not call.keywords and all(isinstance(a, ast.Name) for a in call.args) and [a.id for a in call.args] == ["filename", "content"]):
            good = False
            why.append("the hook is not called with exactly (filename, content)")
        else:
            for a in call.args:
                ds = rd.get(n.id, {}).get(a.id, ())
                if set(ds) != {cfg.entry.id}:
                    good = False
                    why.append(f"`{a.id}` is modified before it is handed to the hook")
        if n is None or cfg.in_loop(n):
            good = False
            why.append("the hook call sits in a loop")
        st = n.stmt if n is not None else None
        if not (isinstance(st, ast.Assign) and st.value is call and len(st.targets) == 1 and isinstance(st.targets[0], ast.Name) and st.targets[0].id == "content"):
            good = False
            why.append(f"the hook's return value is not stored unmodified as the content (`{short(st)}`): parsing does not proceed exactly as if the return value had been supplied")
        # guards: only `options and options.preprocessor is not None`
        doms = [d for d, lab in cfg.control_deps(n)] if n is not None else []
        hl = hook_locals.get("__init__", set())
        for d in doms:
            t_ = norm(d.cond)
            if not ("preprocessor is not None" in t_ or any(t_ == f"{h} is not None" or t_ == h for h in hl)):
                good = False
                why.append(f"the hook call also depends on `{short(d.cond)}`")
        # the content given to LexerTokenStream on the hook path is the hook's result
        lts = [x for x in cfg.nodes for c in x.calls() if (attr_chain(c.func) or ("",))[-1] == "LexerTokenStream"]
        if len(lts) != 1:
            good = False
            why.append("LexerTokenStream construction anchor vanished")
        else:
            c = [c for c in lts[0].calls() if (attr_chain(c.func) or ("",))[-1] == "LexerTokenStream"][0]
            arg = c.args[1] if len(c.args) > 1 else None
            if not (isinstance(arg, ast.Name) and arg.id == "content"):
                good = False
                why.append("the token stream is not built from `content`")
            else:
                defs = set(rd.get(lts[0].id, {}).get("content", ()))
                allowed = {cfg.entry.id, n.id}
                reads = {x.id for x in cfg.nodes if x.kind == "stmt" and isinstance(x.stmt, ast.Assign) and any(isinstance(t, ast.Name) and t.id == "content" for t in x.stmt.targets) and "fp.read()" in norm(x.stmt.value)}
                extra = defs - allowed - reads
                if extra:
                    good = False
                    why.append(f"`content` is redefined by {[short(cfg.nodes[i].stmt) for i in extra]} before lexing")
        ctx.ob("R18.3", "parser:CxxParser.__init__|hook call contract", good, msg="; ".join(why), node=call, mod=mod)
    # the file is read iff content is None
    cfg = pm.cfg("__init__")
    opens = [x for x in cfg.nodes if any(isinstance(c.func, ast.Name) and c.func.id == "open" for c in x.calls())]
    ok = len(opens) == 1
    why = "file-open anchor vanished"
    if ok:
        conds = [(norm(d.cond), lab) for d, lab in cfg.control_deps(opens[0])]
        ok = ("content is None", "T") in conds and all(c == "content is None" or "encoding" in c for c, _ in conds)
        why = f"the file is opened under {conds}: supplied content (even an empty string, or an empty preprocessor result) must be used as it is; only None means 'read the file'"
    ctx.ob("R18.3", "parser:CxxParser.__init__|file read exactly when content is None", ok, msg=why, node=opens[0].stmt if opens else init, mod=mod)


def _idx(pm: ParserModel, fname: str, call: ast.Call) -> int:
    i = 0
    for c in walk_local(pm.fn(fname)):
        if isinstance(c, ast.Call) and pm.resolve(fname, c) == ("self", "_parse_parameters"):
            if c is call:
                return i
            i += 1
    return -1


_CONV = re.compile(r"%(?:\([^)]*\))?[#0\- +]*(?:\*|\d+)?(?:\.(?:\*|\d+))?[hlL]?([diouxXeEfFgGcrsa%])")


def _format_ok(c: ast.Call) -> str:
    """'' when the call's format is a constant whose conversions match its arguments"""
    if not c.args or c.keywords or any(isinstance(a, ast.Starred) for a in c.args):
        return "the call shape is not (constant format, values...)"
    f = c.args[0]
    if not (isinstance(f, ast.Constant) and isinstance(f.value, str)):
        return f"the format `{short(f, 40)}` is not a constant string, so parsed data (which may contain '%') becomes part of it"
    text = f.value
    rest = _CONV.sub(lambda m: "" if m.group(1) != "%" else "", text)
    if "%" in rest:
        return f"the format {text!r} has a malformed '%' conversion"
    n = sum(1 for m in _CONV.finditer(text) if m.group(1) != "%")
    if "*" in "".join(m.group(0) for m in _CONV.finditer(text)) or "%(" in text:
        return f"the format {text!r} uses '*' or mapping conversions"
    if n != len(c.args) - 1:
        return f"the format {text!r} has {n} conversion(s) for {len(c.args) - 1} value(s)"
    # a numeric conversion applied to something that is certainly text (token text / type, a string constant, str(...),
    # an f-string) raises TypeError in verbose mode only
    convs = [m.group(0)[-1] for m in _CONV.finditer(text) if m.group(1) != "%"]
    for conv, a in zip(convs, c.args[1:]):
        if conv in "diouxXeEfFgGc" and _certainly_text(a) and not (conv == "c" and isinstance(a, ast.Constant) and isinstance(a.value, str) and len(a.value) == 1):
            return f"the conversion %{conv} of {text!r} is applied to `{short(a, 30)}`, which is text"
    return ""


def _certainly_text(a: ast.AST) -> bool:
    if isinstance(a, ast.Constant):
        return isinstance(a.value, (str, bytes))
    if isinstance(a, ast.JoinedStr):
        return True
    if isinstance(a, ast.Call) and isinstance(a.func, ast.Name) and a.func.id in ("str", "repr"):
        return True
    if isinstance(a, ast.Call) and isinstance(a.func, ast.Attribute) and a.func.attr in ("format", "join", "strip", "lower", "upper"):
        return True
    # LexToken.value / .type are always strings (PLY puts the matched text there; the lexer's rules only re-slice it)
    if isinstance(a, ast.Attribute) and a.attr in ("value", "type", "filename"):
        return True
    return False


def _expand_locals(cfg, at, e: ast.AST, depth: int = 0) -> str:
    """text of e with every local that has a single reaching, effect-free definition written out"""
    from ..cfg import reaching_defs as _rd
    cache = getattr(cfg, "_rd_cache", None)
    if cache is None:
        cache = _rd(cfg, skip_exc=False)
        cfg._rd_cache = cache  # type: ignore[attr-defined]
    import copy as _copy

    class T(ast.NodeTransformer):
        def visit_Name(self, n: ast.Name):
            if not isinstance(n.ctx, ast.Load) or depth > 3:
                return n
            ds = list(cache.get(at.id, {}).get(n.id, ()))
            if len(ds) != 1:
                return n
            dn = cfg.nodes[ds[0]]
            st = dn.stmt
            if dn.kind == "stmt" and isinstance(st, ast.Assign) and len(st.targets) == 1 and isinstance(st.targets[0], (ast.Tuple, ast.List)) and len(st.targets[0].elts) == 1 \
                    and isinstance(st.targets[0].elts[0], ast.Name) and st.targets[0].elts[0].id == n.id \
                    and not any(isinstance(c, ast.Call) and not (isinstance(c.func, ast.Name) and c.func.id in ("len", "isinstance", "getattr")) for c in ast.walk(st.value)):
                # (x,) = seq : x is seq[0]
                inner = ast.parse(_expand_locals(cfg, dn, _copy.deepcopy(st.value), depth + 1), mode="eval").body
                return ast.Subscript(value=inner, slice=ast.Constant(value=0), ctx=ast.Load())
            if dn.kind == "stmt" and isinstance(st, ast.Assign) and len(st.targets) == 1 and isinstance(st.targets[0], ast.Name) \
                    and not any(isinstance(c, ast.Call) and not (isinstance(c.func, ast.Name) and c.func.id in ("len", "isinstance", "getattr")) for c in ast.walk(st.value)):
                return ast.parse(_expand_locals(cfg, dn, _copy.deepcopy(st.value), depth + 1), mode="eval").body
            return n
    return norm(T().visit(_copy.deepcopy(e)))


def _canon_bool(e: ast.AST) -> ast.AST:
    """push negations inwards: not (a != b) -> a == b, not not x -> x, De Morgan"""
    inv = {ast.Eq: ast.NotEq, ast.NotEq: ast.Eq, ast.Is: ast.IsNot, ast.IsNot: ast.Is, ast.In: ast.NotIn, ast.NotIn: ast.In, ast.Lt: ast.GtE, ast.GtE: ast.Lt, ast.Gt: ast.LtE, ast.LtE: ast.Gt}
    if isinstance(e, ast.UnaryOp) and isinstance(e.op, ast.Not):
        x = _canon_bool(e.operand)
        if isinstance(x, ast.UnaryOp) and isinstance(x.op, ast.Not):
            return x.operand
        if isinstance(x, ast.Compare) and len(x.ops) == 1 and type(x.ops[0]) in inv:
            return ast.Compare(left=x.left, ops=[inv[type(x.ops[0])]()], comparators=x.comparators)
        if isinstance(x, ast.BoolOp):
            return ast.BoolOp(op=ast.Or() if isinstance(x.op, ast.And) else ast.And(), values=[_canon_bool(ast.UnaryOp(op=ast.Not(), operand=v)) for v in x.values])
        return ast.UnaryOp(op=ast.Not(), operand=x)
    if isinstance(e, ast.BoolOp):
        return ast.BoolOp(op=e.op, values=[_canon_bool(v) for v in e.values])
    return e


def _bool_helper_condition(pm: ParserModel, e: ast.AST) -> Optional[str]:
    """For `self.<helper>(args)` where the helper is a chain of `if C: return <bool>` guards, plain local definitions and
    a final `return E`: the condition under which it returns a true value, written over the caller's arguments."""
    import copy as _copy
    if not (isinstance(e, ast.Call) and isinstance(e.func, ast.Attribute) and isinstance(e.func.value, ast.Name) and e.func.value.id in ("self", "CxxParser") and e.func.attr in pm.methods) or e.keywords:
        return None
    fn = pm.methods[e.func.attr]
    params = [a.arg for a in fn.args.args if a.arg not in ("self", "cls")]
    if len(params) != len(e.args):
        return None
    env: Dict[str, ast.AST] = {p_: a_ for p_, a_ in zip(params, e.args)}

    class Sub(ast.NodeTransformer):
        def visit_Name(s_, n: ast.Name):
            if isinstance(n.ctx, ast.Load) and n.id in env:
                return _copy.deepcopy(env[n.id])
            return n
    prefix: List[ast.AST] = []
    disj: List[ast.AST] = []
    for st in fn.body:
        if isinstance(st, ast.Expr) and isinstance(st.value, ast.Constant):
            continue
        if isinstance(st, ast.Assign) and len(st.targets) == 1 and isinstance(st.targets[0], ast.Name) and not any(isinstance(c, ast.Call) and not (isinstance(c.func, ast.Name) and c.func.id in ("len", "isinstance", "getattr")) for c in ast.walk(st.value)):
            env[st.targets[0].id] = Sub().visit(_copy.deepcopy(st.value))
            continue
        if isinstance(st, ast.If) and not st.orelse and len(st.body) == 1 and isinstance(st.body[0], ast.Return) and isinstance(st.body[0].value, ast.Constant) and isinstance(st.body[0].value.value, bool):
            c = Sub().visit(_copy.deepcopy(st.test))
            if st.body[0].value.value:
                disj.append(ast.BoolOp(op=ast.And(), values=prefix + [c]) if prefix else c)
            prefix = prefix + [ast.UnaryOp(op=ast.Not(), operand=c)]
            continue
        if isinstance(st, ast.Return) and st.value is not None:
            c = Sub().visit(_copy.deepcopy(st.value))
            disj.append(ast.BoolOp(op=ast.And(), values=prefix + [c]) if prefix else c)
            break
        return None
    if not disj:
        return None
    whole = disj[0] if len(disj) == 1 else ast.BoolOp(op=ast.Or(), values=disj)
    return norm(ast.fix_missing_locations(_canon_bool(whole)))
