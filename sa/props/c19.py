"""C19 -- preprocessor integration yields the main file's declarations only
(narrow: only the parts of the line-marker filters and factories that are code
shape; what gcc / cl.exe / pcpp print is outside any static argument)."""
from __future__ import annotations

import ast
from typing import Dict, List, Optional, Set, Tuple

from ..cfg import CFG, Node, reaching_defs
from ..kinds import node_containing
from ..model import AnalysisError, attr_chain, norm, short, walk_local
from ..report import Ctx

LEVEL = "sibling cross-check of the three line-marker filters and gating rules on the factories"
EXPLANATION = (
    "R19.1 in each of the three filters the file-name test on a line marker is anchored at the opening quote (the needle starts with '\"', "
    "is a slice of the marker that starts at a quote, or the comparison is an equality on the quoted field): a bare suffix test keeps the "
    "content of 'xmain.h' when the main file is 'main.h'. R19.2 a kept line is written under no condition other than `keep` (markers of "
    "the main file stay in the output, so reported line numbers still refer to it), and `keep` is updated only from marker lines. R19.3 "
    "each factory applies its filter exactly when retain_all_content is false, on the path that returns the preprocessor output; gcc: a "
    "depfile without deptarget raises, every target gets its own -MQ; pcpp: the depfile names the target and every collected file. Not "
    "decided (the bulk of the statement): macro expansion, ordering, line numbers after filtering, depfile completeness - they depend on "
    "what the external tools emit."
)

FILTERS = {"_gcc_filter": "# ", "_msvc_filter": "#line", "_pcpp_filter": "#line"}


def run(ctx: Ctx) -> None:
    pp = ctx.repo.mod("preprocessor")
    ctx.trusted = ["line-marker formats of gcc ('# N \"file\" flags'), cl.exe and pcpp ('#line N \"file\"')"]
    ctx.undecided = ["macro expansion, declaration order and completeness of what the external preprocessors print", "depfile completeness (which files the tool reports)"]

    # ---------------------------------------------------------------- R19.1 / R19.2
    ctx.rule("R19.1", "line-marker file-name comparison is anchored at the opening quote", minimum=3)
    ctx.rule("R19.2", "kept lines (markers included) are written under `keep` only; `keep` changes only on marker lines", minimum=6)
    for fname, marker in FILTERS.items():
        fn = pp.func(fname)
        cfg = CFG(fn)
        rd = reaching_defs(cfg)
        keeps = [n for n in cfg.nodes if n.kind == "stmt" and isinstance(n.stmt, ast.Assign) and any(isinstance(t, ast.Name) and t.id == "keep" for t in n.stmt.targets) and not isinstance(n.stmt.value, ast.Constant)]
        ok = len(keeps) >= 1
        why = "no update of `keep` from a line marker"
        for k in keeps:
            anchored, why = _anchored(cfg, rd, k, fn)
            ok = ok and anchored
            deps = cfg.control_deps(k)
            on_marker = any(isinstance(d.cond, ast.Call) and norm(d.cond.func).endswith(".startswith") and d.cond.args and isinstance(d.cond.args[0], ast.Constant) and d.cond.args[0].value == marker and lab == "T" for d, lab in deps)
            ctx.ob("R19.2", f"preprocessor:{fname}|keep updated on marker lines only", on_marker, msg=f"`keep` changes on lines that are not '{marker}' markers", node=k.stmt, mod=pp)
        ctx.ob("R19.1", f"preprocessor:{fname}|anchored file-name test", ok,
               msg=f"{why}: an included file whose name merely ends with the main file's name (x{'main.h'} vs main.h, dir/main.h) is taken for the main file and its declarations are kept",
               node=keeps[0].stmt if keeps else fn, mod=pp)
        # emission of the current line: <accumulator>.write(line) / .append(line) / acc += line, for the loop variable
        loops_ = [n for n in cfg.nodes if n.kind == "test" and isinstance(n.stmt, ast.For) and isinstance(n.stmt.target, ast.Name)]
        lvars = {n.stmt.target.id for n in loops_}
        writes = []
        for n in cfg.nodes:
            st = n.stmt
            if n.kind != "stmt":
                continue
            if isinstance(st, ast.Expr) and isinstance(st.value, ast.Call) and isinstance(st.value.func, ast.Attribute) and st.value.func.attr in ("write", "append") and len(st.value.args) == 1 \
                    and isinstance(st.value.args[0], ast.Name) and st.value.args[0].id in lvars:
                writes.append(n)
            elif isinstance(st, ast.AugAssign) and isinstance(st.op, ast.Add) and isinstance(st.value, ast.Name) and st.value.id in lvars:
                writes.append(n)
        okw = len(writes) == 1
        whyw = "expected exactly one place where the current line is added to the output"
        if okw:
            deps = [(norm(d.cond), lab) for d, lab in cfg.control_deps(writes[0]) if d.loop is None and not isinstance(d.stmt, ast.Assert)]
            conts = [n for n in cfg.nodes if n.kind == "stmt" and isinstance(n.stmt, ast.Continue)]
            okw = deps == [("keep", "T")] and not conts
            whyw = f"a line is written under {deps}{' and the loop skips lines with `continue`' if conts else ''}: line markers of the main file are dropped, so every later line number is off"
            if okw and loops_:
                # the decision uses this line's own marker: no update of `keep` after the write within the same iteration
                head = loops_[0]
                late = [k for k in keeps if cfg.paths_avoiding(writes[0], k, lambda z: z is head)]
                if late:
                    okw = False
                    whyw = "a marker line is written (or not) according to the `keep` of the line before it: the marker that returns to the main file is dropped and the one that leaves it is kept, so locations name the included file"
        ctx.ob("R19.2", f"preprocessor:{fname}|every kept line is written, markers included", okw, msg=whyw, node=writes[0].stmt if writes else fn, mod=pp)

    # ---------------------------------------------------------------- R19.3
    ctx.rule("R19.3", "factories: filter iff not retain_all_content; depfile options handled as documented", minimum=5)
    for factory, filt in (("make_gcc_preprocessor", "_gcc_filter"), ("make_msvc_preprocessor", "_msvc_filter"), ("make_pcpp_preprocessor", "_pcpp_filter")):
        inner = pp.func(f"{factory}._preprocess_file")
        cfg = CFG(inner)
        calls = [n for n in cfg.nodes for c in n.calls() if isinstance(c.func, ast.Name) and c.func.id == filt]
        ok = len(calls) == 1
        why = f"{filt} is applied {len(calls)} times"
        if ok:
            deps = [(norm(d.cond), lab) for d, lab in cfg.control_deps(calls[0])]
            gate = [(c, l) for c, l in deps if "retain_all_content" in c]
            ok = gate in ([("not retain_all_content", "T")], [("retain_all_content", "F")])
            why = f"the filter is applied under {deps}"
        ctx.ob("R19.3", f"preprocessor:{factory}|filter applied exactly when retain_all_content is false", ok, msg=why, node=inner, mod=pp)
    g = pp.func("make_gcc_preprocessor._preprocess_file")
    gtxt = norm(g)
    gcfg = CFG(g)
    raises = [n for n in gcfg.nodes if n.kind == "stmt" and isinstance(n.stmt, ast.Raise) and "deptarget" in norm(n.stmt)]
    ok = bool(raises) and any(("deptarget is None", "T") in [(norm(d.cond), lab) for d, lab in gcfg.control_deps(r)] for r in raises)
    ctx.ob("R19.3", "preprocessor:make_gcc_preprocessor|depfile without deptarget raises", ok, msg="a depfile request without targets is not rejected", node=g, mod=pp)
    # one -MQ per target
    per_target = False
    for l in walk_local(g):
        if isinstance(l, ast.For) and isinstance(l.iter, ast.Name) and l.iter.id == "deptarget" and isinstance(l.target, ast.Name):
            body = " ".join(norm(s) for s in l.body)
            if "'-MQ'" in body and l.target.id in body:
                per_target = True
        if isinstance(l, (ast.ListComp, ast.GeneratorExp)) and any(isinstance(gn.iter, ast.Name) and gn.iter.id == "deptarget" for gn in l.generators) and "'-MQ'" in norm(mod_parent(pp, l)):
            per_target = True
    ctx.ob("R19.3", "preprocessor:make_gcc_preprocessor|every depfile target gets its own -MQ", per_target and "'-MF'" in gtxt and "'-MD'" in gtxt,
           msg="the requested targets are not passed one by one with -MQ (joined targets are quoted by gcc into a single bogus target), or -MD/-MF are missing", node=g, mod=pp)
    p = pp.func("make_pcpp_preprocessor._preprocess_file")
    ptxt = norm(p)
    # the dict handed to the filter is the one the depfile loop walks; the file starts with "<target>:" and names every key
    ok = False
    fcalls = [c for c in ast.walk(p) if isinstance(c, ast.Call) and isinstance(c.func, ast.Name) and c.func.id == "_pcpp_filter" and len(c.args) >= 3 and isinstance(c.args[2], ast.Name)]
    if len(fcalls) == 1:
        dname = fcalls[0].args[2].id
        for w in ast.walk(p):
            if not isinstance(w, ast.With):
                continue
            opens = [it for it in w.items if isinstance(it.context_expr, ast.Call) and isinstance(it.context_expr.func, ast.Name) and it.context_expr.func.id == "open" and it.context_expr.args
                     and "depfile" in norm(it.context_expr.args[0]) and isinstance(it.optional_vars, ast.Name)]
            if not opens:
                continue
            fh = opens[0].optional_vars.id
            writes = [c for b in w.body for c in ast.walk(b) if isinstance(c, ast.Call) and isinstance(c.func, ast.Attribute) and c.func.attr == "write" and isinstance(c.func.value, ast.Name) and c.func.value.id == fh]
            head = bool(writes) and "target" in norm(writes[0].args[0]) and ":" in norm(writes[0].args[0])
            loops_ = [f for b in w.body for f in ast.walk(b) if isinstance(f, ast.For) and any(isinstance(x, ast.Name) and x.id == dname for x in ast.walk(f.iter)) and isinstance(f.target, ast.Name)]
            each = False
            if loops_:
                # names that carry the current key: the loop variable and locals computed from it inside the loop
                carry = {loops_[0].target.id}
                grew = True
                while grew:
                    grew = False
                    for b in loops_[0].body:
                        for a_ in ast.walk(b):
                            if isinstance(a_, ast.Assign) and any(isinstance(x, ast.Name) and x.id in carry for x in ast.walk(a_.value)):
                                for t in a_.targets:
                                    if isinstance(t, ast.Name) and t.id not in carry:
                                        carry.add(t.id)
                                        grew = True
                each = any(isinstance(c, ast.Call) and isinstance(c.func, ast.Attribute) and c.func.attr == "write" and any(isinstance(x, ast.Name) and x.id in carry for x in ast.walk(c))
                           for b in loops_[0].body for c in ast.walk(b))
            ok = head and each
            if not ok and writes:
                # the rule text built first and written once: the written expression's backward slice (over the
                # assignments of the function) holds the target with a ':' and an iteration over the collected files
                defs_: Dict[str, List[ast.AST]] = {}
                for a_ in ast.walk(p):
                    if isinstance(a_, ast.Assign):
                        for t in a_.targets:
                            if isinstance(t, ast.Name):
                                defs_.setdefault(t.id, []).append(a_.value)
                slice_: List[ast.AST] = [a for w_ in writes for a in w_.args]
                seen_n: Set[str] = set()
                k_ = 0
                while k_ < len(slice_):
                    for x in ast.walk(slice_[k_]):
                        if isinstance(x, ast.Name) and x.id not in seen_n:
                            seen_n.add(x.id)
                            slice_.extend(defs_.get(x.id, []))
                    k_ += 1
                iterates = any(isinstance(g, ast.comprehension) and any(isinstance(x, ast.Name) and x.id == dname for x in ast.walk(g.iter)) for e_ in slice_ for g in ast.walk(e_))
                colon = any(isinstance(x, ast.Constant) and isinstance(x.value, str) and ":" in x.value for e_ in slice_ for x in ast.walk(e_))
                ok = "target" in seen_n and colon and iterates and dname in seen_n
    ctx.ob("R19.3", "preprocessor:make_pcpp_preprocessor|depfile names the target and every collected file", ok, msg="the pcpp depfile no longer lists the target followed by every file the filter collected", node=p, mod=pp)
    pf = pp.func("_pcpp_filter")
    ftxt = norm(pf)
    ok = "deps[" in ftxt and "= True" in ftxt
    dn = [n for n in CFG(pf).nodes if n.kind == "stmt" and isinstance(n.stmt, ast.Assign) and isinstance(n.stmt.targets[0], ast.Subscript) and norm(n.stmt.targets[0].value) == "deps"]
    if ok and dn:
        c2 = CFG(pf)
        dn = [n for n in c2.nodes if n.kind == "stmt" and isinstance(n.stmt, ast.Assign) and isinstance(n.stmt.targets[0], ast.Subscript) and norm(n.stmt.targets[0].value) == "deps"]
        deps = [(norm(d.cond), lab) for d, lab in c2.control_deps(dn[0]) if d.loop is None]
        ok = ("line.startswith('#line')", "T") in deps and not any("keep" in c for c, _ in deps)
    ctx.ob("R19.3", "preprocessor:_pcpp_filter|every marker's file is recorded as a dependency (kept or not)", ok, msg="dependencies are recorded only for some markers", node=pf, mod=pp)

    # ---------------------------------------------------------------- R19.6
    # "the main file's declarations only": which file is the main one is what the caller said (its spelling adapted by
    # path rules that depend on the configuration), never something read out of the preprocessed text -- the text names
    # whatever file the preprocessor happened to be in.  Backward slice over reaching definitions of the filter's first
    # argument: it must not reach a name the filter's text argument is made of.
    ctx.rule("R19.6", "the main-file name handed to a filter is computed from the caller's file name, never from the preprocessor's output", minimum=2)
    from ..cfg import reaching_defs as _rdefs
    # (the MSVC filter takes no name: cl.exe's output opens with the marker of the main file, which is what it anchors on)
    for factory, filt in (("make_gcc_preprocessor", "_gcc_filter"), ("make_pcpp_preprocessor", "_pcpp_filter")):
        inner = pp.func(f"{factory}._preprocess_file")
        cfg = CFG(inner)
        rd = _rdefs(cfg)
        for n in cfg.nodes:
            for c in n.calls():
                if not (isinstance(c.func, ast.Name) and c.func.id == filt and len(c.args) >= 2):
                    continue
                out_roots = {x.id for x in ast.walk(c.args[1]) if isinstance(x, ast.Name)}
                # names whose value is (part of) the output: the roots and everything defined from them
                tainted = set(out_roots)
                changed = True
                while changed:
                    changed = False
                    for m in cfg.nodes:
                        if m.kind == "stmt" and isinstance(m.stmt, (ast.Assign, ast.AnnAssign, ast.AugAssign)) and getattr(m.stmt, "value", None) is not None:
                            if any(isinstance(x, ast.Name) and x.id in tainted for x in ast.walk(m.stmt.value)):
                                for t in (m.stmt.targets if isinstance(m.stmt, ast.Assign) else [m.stmt.target]):
                                    for x in ast.walk(t):
                                        if isinstance(x, ast.Name) and x.id not in tainted and x.id not in out_roots:
                                            tainted.add(x.id)
                                            changed = True
                # backward slice of the first argument
                seen_defs = set()
                work = [(n.id, x.id) for x in ast.walk(c.args[0]) if isinstance(x, ast.Name)]
                via = None
                while work and via is None:
                    nid, name = work.pop()
                    for d in rd.get(nid, {}).get(name, ()):
                        if (d, name) in seen_defs:
                            continue
                        seen_defs.add((d, name))
                        dn = cfg.nodes[d]
                        val = getattr(dn.stmt, "value", None) if dn.kind == "stmt" else None
                        if val is None:
                            continue
                        for x in ast.walk(val):
                            if isinstance(x, ast.Name):
                                if x.id in out_roots:
                                    via = dn
                                    break
                                work.append((d, x.id))
                        if via is not None:
                            break
                ctx.ob("R19.6", f"preprocessor:{factory}|main-file name given to {filt}", via is None,
                       msg=f"the name the filter compares line markers with is derived from the preprocessor's output (`{short(via.stmt, 70) if via is not None else ''}`): a header whose output ends in another file's marker is filtered as if that file were the main one", node=c, mod=pp)

    # ---------------------------------------------------------------- R19.7
    # gcc writes the file name of a line marker as a C string: a backslash in it comes out doubled, on every platform.
    # The name the gcc filter compares with goes through the same escaping on every path: the parameter as it was
    # passed never reaches the comparison (an escaping made conditional on the platform drops every declaration of a
    # main file whose name contains a backslash elsewhere).
    ctx.rule("R19.7", "the gcc filter compares markers with the file name escaped like gcc writes it (backslashes doubled), on every path", minimum=1)
    gf = pp.func("_gcc_filter")
    gcfg2 = CFG(gf)
    grd = reaching_defs(gcfg2)
    fparam = gf.args.args[0].arg
    def _is_escape(c: ast.AST) -> bool:
        return isinstance(c, ast.Call) and isinstance(c.func, ast.Attribute) and c.func.attr == "replace" and [a.value for a in c.args if isinstance(a, ast.Constant)] == ["\\", "\\\\"]

    esc = [n for n in gcfg2.nodes if n.kind == "stmt" and isinstance(n.stmt, ast.Assign) and any(isinstance(t, ast.Name) and t.id == fparam for t in n.stmt.targets)
           and _is_escape(n.stmt.value) and isinstance(n.stmt.value.func.value, ast.Name) and n.stmt.value.func.value.id == fparam]
    k_ = 0
    for n in gcfg2.nodes:
        if n.kind not in ("stmt", "test") or n is gcfg2.entry:
            continue
        for x in n.walk():
            if not (isinstance(x, ast.Name) and x.id == fparam and isinstance(x.ctx, ast.Load)):
                continue
            par = pp.parent.get(x)
            if isinstance(par, ast.Attribute) and par.value is x and _is_escape(pp.parent.get(par)):
                k_ += 1
                ctx.ob("R19.7", f"preprocessor:_gcc_filter|use #{k_} of `{fparam}` is the escaping itself", True, node=x, mod=pp, nontrivial=False)
                continue
            k_ += 1
            defs_ = set(grd.get(n.id, {}).get(fparam, ()))
            ok = bool(esc) and defs_ <= {e.id for e in esc}
            ctx.ob("R19.7", f"preprocessor:_gcc_filter|use #{k_} of `{fparam}` sees the escaped name", ok,
                   msg=f"the file name reaches `{short(n.stmt if n.stmt is not None else n.cond, 50)}` without (or not on every path with) its backslashes doubled: gcc always writes them doubled, so the markers of such a main file never match", node=n.stmt or gf, mod=pp)
    if not k_:
        raise AnalysisError("anchor vanished: the use of the file-name parameter in _gcc_filter")

    # ---------------------------------------------------------------- R19.8
    # "whatever the files and directories are called": a filter that pulls the file name out of a marker with a regular
    # expression must let the name be anything a marker can hold.  Every capturing group of a regular expression used in a
    # filter that can hold an ordinary letter can also hold a blank (`\S*` for the name drops "my app/main.h").
    ctx.rule("R19.8", "a regular expression that extracts the file name from a line marker admits blanks in the name", minimum=0)
    import re as _re8
    try:
        import re._parser as _sp8  # type: ignore
    except Exception:  # pragma: no cover
        import sre_parse as _sp8  # type: ignore
    from ..rx import Auto as _Auto8
    consts8: Dict[str, str] = {}
    for st in pp.tree.body:
        if isinstance(st, ast.Assign) and len(st.targets) == 1 and isinstance(st.targets[0], ast.Name) and isinstance(st.value, ast.Call) and norm(st.value.func) == "re.compile" \
                and st.value.args and isinstance(st.value.args[0], ast.Constant) and isinstance(st.value.args[0].value, str):
            consts8[st.targets[0].id] = st.value.args[0].value
    for filt in FILTERS:
        try:
            ffn = pp.func(filt)
        except AnalysisError:
            continue
        pats = [(x.id, consts8[x.id]) for x in ast.walk(ffn) if isinstance(x, ast.Name) and x.id in consts8]
        pats += [("<inline>", c.args[0].value) for c in ast.walk(ffn) if isinstance(c, ast.Call) and norm(c.func) in ("re.match", "re.search", "re.compile", "re.fullmatch") and c.args
                 and isinstance(c.args[0], ast.Constant) and isinstance(c.args[0].value, str)]
        for pname, pat in dict(pats).items():
            try:
                tree8 = _sp8.parse(pat)
            except Exception:
                continue
            def groups(items):
                for op, av in items:
                    if str(op) == "SUBPATTERN":
                        if av[0] is not None:
                            yield av[0], av[3]
                        yield from groups(av[3])
                    elif str(op) == "BRANCH":
                        for alt in av[1]:
                            yield from groups(alt)
                    elif str(op) in ("MAX_REPEAT", "MIN_REPEAT"):
                        yield from groups(av[2])
            for gi, sub in groups(list(tree8)):
                import copy as _cp
                # language of the group alone: re-parse its source is not available, so test by automaton over the sub-pattern
                a8 = _Auto8.__new__(_Auto8)
                try:
                    _Auto8.__init__(a8, "x", 0)
                    a8.pos, a8.follow, a8.mult, a8.approx, a8.loops, a8._groups = [], {}, {}, [], [], {}
                    n_, f_, l_, nf_ = a8._seq(list(sub))
                    letters = any("a" in S for S in a8.pos)
                    blank = any(" " in S for S in a8.pos)
                except Exception:
                    continue
                if letters:
                    ctx.ob("R19.8", f"preprocessor:{filt}|group {gi} of {pname}", blank,
                           msg=f"group {gi} of {pat!r} can hold letters but no blank: a file or directory name with a blank in it is never recognised in a line marker, so its declarations are kept or dropped wrongly", node=ffn, mod=pp, nontrivial=False)

    # ---------------------------------------------------------------- R19.4
    # "reported line numbers still refer to the main file": the filters keep the line
    # markers (R19.2) and the lexer re-bases on them; the re-basing arithmetic is C10's
    # R10.3, evaluated here under this property's id.
    from . import c10
    from ..report import SubCtx, run_shared
    run_shared(ctx, c10.run, {"R10.3": ("R19.4", "line markers kept by the filters are honoured: line_offset = physical lineno - N + 1, file name from the same match")})

    # ---------------------------------------------------------------- R19.5
    # "exactly the declarations written in the main file, macro-expanded": with what *this* file defines.  A preprocessor
    # object built once by the factory and reused per file carries the macros of the files seen before; whether the
    # returned closures capture anything but read-only configuration is C15's R15.6, evaluated here under this id.
    from . import c15
    run_shared(ctx, c15.run, {"R15.6": ("R19.5", "the preprocessor functions handed out by the factories keep nothing from one file to the next (captured names are read-only configuration)")})

def mod_parent(mod, node):
    return mod.parent.get(node) or node


def _anchored(cfg: CFG, rd, k: Node, fn: ast.AST) -> Tuple[bool, str]:
    v = k.stmt.value
    # equality on an extracted field is anchored by definition
    if isinstance(v, ast.Compare) and len(v.ops) == 1 and isinstance(v.ops[0], ast.Eq):
        # ... unless what is compared is only a part of the name: a projection that drops directories (basename, the
        # last element of a split) makes 'detail/config.h' equal to 'config.h'
        def projected(e: ast.AST, depth: int = 0) -> bool:
            for x in ast.walk(e):
                if isinstance(x, ast.Call) and (norm(x.func).endswith("basename") or norm(x.func).endswith(".name") or (isinstance(x.func, ast.Attribute) and x.func.attr in ("rpartition", "rsplit", "split", "partition"))):
                    return True
                if isinstance(x, ast.Attribute) and x.attr in ("name", "stem") and not isinstance(fn, type(None)):
                    return True
                if isinstance(x, ast.Name) and depth < 3:
                    for di in rd.get(k.id, {}).get(x.id, ()):
                        d = cfg.nodes[di]
                        val = getattr(d.stmt, "value", None)
                        if val is not None and d is not cfg.entry and projected(val, depth + 1):
                            return True
            return False
        if projected(v):
            return False, f"`{short(k.stmt)}` compares only the last path component"
        return True, ""
    if not (isinstance(v, ast.Call) and isinstance(v.func, ast.Attribute) and v.func.attr == "endswith" and v.args):
        return False, f"`{short(k.stmt)}` is neither an anchored endswith nor an equality"
    needle = v.args[0]
    hay = v.func.value
    # the haystack must still contain the quote: a name extracted *between* the quotes has lost the anchor
    if isinstance(hay, ast.Name):
        for di in rd.get(k.id, {}).get(hay.id, ()):
            d = cfg.nodes[di]
            val = getattr(d.stmt, "value", None)
            if isinstance(val, ast.Subscript) and "+ 1" in norm(val.slice):
                return False, f"`{short(k.stmt)}` tests a name that was cut out after the opening quote with endswith()"

    def starts_with_quote(e: ast.AST, depth: int = 0) -> bool:
        if isinstance(e, ast.Constant) and isinstance(e.value, str):
            return e.value.startswith('"')
        if isinstance(e, ast.JoinedStr) and e.values:
            f = e.values[0]
            return isinstance(f, ast.Constant) and str(f.value).startswith('"')
        if isinstance(e, ast.BinOp) and isinstance(e.op, ast.Add):
            return starts_with_quote(e.left, depth)
        if isinstance(e, ast.Subscript):
            # line[line.find('"'):]  -- a slice that begins at a quote
            sl = e.slice
            return isinstance(sl, ast.Slice) and sl.lower is not None and "find('\"')" in norm(sl.lower) and "+" not in norm(sl.lower)
        if isinstance(e, ast.Name) and depth < 3:
            ds = [cfg.nodes[i] for i in rd.get(k.id, {}).get(e.id, ())]
            vals = [getattr(d.stmt, "value", None) for d in ds if d is not cfg.entry]
            return bool(vals) and all(val is not None and starts_with_quote(val, depth + 1) for val in vals) and len(vals) == len(ds)
        return False

    if starts_with_quote(needle):
        return True, ""
    return False, f"`{short(k.stmt)}` compares with a needle that does not begin at the opening quote"
