"""C14 -- unparsed values carry exactly the source tokens of their expression."""
from __future__ import annotations

import ast
from typing import Dict, FrozenSet, List, Optional, Set, Tuple

from ..cfg import CFG, Node, reaching_defs
from ..kinds import node_containing
from ..model import AnalysisError, attr_chain, is_self_attr, norm, short, walk_local
from ..pmodel import LEX_CONSUME, ParserModel
from ..report import Ctx
from .. import balanced
from .. import linear

LEVEL = "linear-use and delimiter-slice dataflow over the token collectors of parser.py"
EXPLANATION = (
    "R14.1 in each of the 7 collector functions every token obtained from the stream is appended, handed to a callee that owns it, "
    "returned to the stream or returned to the caller before its variable is overwritten or the function ends (no drop), and is not "
    "placed twice without re-acquisition (no duplicate); layout tokens and None are the only exempt disposals. R14.2 delimiter table from "
    "the documented fields: every flow from _consume_balanced_tokens into Function/Method.throw, .noexcept, DecltypeSpecifier.tokens and "
    "Array.size passes through exactly one [1:-1]; every other flow into a Value or an accumulator passes through none (interprocedural "
    "through helper return summaries). R14.3 the terminator set given to _consume_value_until equals the set of token types the next "
    "consumer accepts. R14.4 _create_value and the DecltypeSpecifier construction map tokens one-to-one in order. R14.5 the closer set "
    "tested by _consume_balanced_tokens equals the values of every token map it can be called with. Not decided: which pending opener a "
    "tolerated '>' / mismatched closer is matched against (a choice among stack elements: value-level)."
)

LAYOUT = {"NEWLINE", "WHITESPACE", "COMMENT_SINGLELINE", "COMMENT_MULTILINE"}
SLICED_FIELDS = {"throw", "noexcept"}


def is_inner_slice(sl: ast.AST) -> bool:
    return (isinstance(sl, ast.Slice) and isinstance(sl.lower, ast.Constant) and sl.lower.value == 1
            and isinstance(sl.upper, ast.UnaryOp) and isinstance(sl.upper.op, ast.USub) and isinstance(sl.upper.operand, ast.Constant) and sl.upper.operand.value == 1
            and sl.step is None)


class SliceFlow:
    """counts(expr): the set of numbers of [1:-1] applications between a
    _consume_balanced_tokens result and expr; None if expr is not such a group."""

    def __init__(self, pm: ParserModel):
        self.pm = pm
        self.summ: Dict[str, Optional[FrozenSet[int]]] = {}
        self._rd: Dict[str, Dict[int, Dict[str, FrozenSet[int]]]] = {}
        self._busy: Set[str] = set()

    def rd(self, fname: str):
        if fname not in self._rd:
            self._rd[fname] = reaching_defs(self.pm.cfg(fname))
        return self._rd[fname]

    def summary(self, fname: str, penv: Optional[Dict[str, FrozenSet[int]]] = None) -> Optional[FrozenSet[int]]:
        """slice counts of what fname returns; penv = counts of the groups handed in through its parameters"""
        key = fname if not penv else None
        if key and key in self.summ:
            return self.summ[key]
        if fname in self._busy or fname == "_consume_balanced_tokens" or fname not in self.pm.methods:
            return None
        self._busy.add(fname)
        cfg = self.pm.cfg(fname)
        out: Set[int] = set()
        any_group = False
        saved = self._penv
        self._penv = dict(penv or {})
        try:
            for n in cfg.nodes:
                if n.kind == "stmt" and isinstance(n.stmt, ast.Return) and n.stmt.value is not None:
                    c = self.counts(fname, n, n.stmt.value)
                    if c is not None:
                        any_group = True
                        out |= c
        finally:
            self._penv = saved
            self._busy.discard(fname)
        res = frozenset(out) if any_group else None
        if key:
            self.summ[key] = res
        return res

    _penv: Dict[str, FrozenSet[int]] = {}

    def counts(self, fname: str, n: Node, e: ast.AST, depth: int = 0, seen: Optional[Set[Tuple[int, str]]] = None) -> Optional[FrozenSet[int]]:
        if depth > 8:
            return None
        seen = seen or set()
        if isinstance(e, ast.Call):
            r = self.pm.resolve(fname, e)
            if r == ("self", "_consume_balanced_tokens"):
                return frozenset({0})
            if r and r[0] == "self" and r[1] in self.pm.methods:
                # groups handed to the callee through its parameters keep their count and are sliced further inside
                callee = self.pm.methods[r[1]]
                pnames = [a.arg for a in callee.args.args if a.arg not in ("self", "cls")]
                penv: Dict[str, FrozenSet[int]] = {}
                for p_, a_ in zip(pnames, e.args):
                    c_ = self.counts(fname, n, a_, depth + 1, seen)
                    if c_ is not None:
                        penv[p_] = c_
                return self.summary(r[1], penv or None)
            return None
        if isinstance(e, ast.IfExp):
            # either arm; an arm that is not a group (`[]`, None) contributes nothing
            parts = [self.counts(fname, n, x, depth + 1, seen) for x in (e.body, e.orelse)]
            parts = [p_ for p_ in parts if p_ is not None]
            return frozenset().union(*parts) if parts else None
        if isinstance(e, ast.Subscript):
            base = self.counts(fname, n, e.value, depth + 1, seen)
            if base is None:
                return None
            if is_inner_slice(e.slice):
                return frozenset(c + 1 for c in base)
            return frozenset({99})  # some other slice of a group: never right
        if isinstance(e, ast.Name):
            out: Set[int] = set()
            anyg = False
            entry_id = self.pm.cfg(fname).entry.id
            if e.id in self._penv and entry_id in self.rd(fname).get(n.id, {}).get(e.id, ()):
                anyg = True
                out |= self._penv[e.id]
            for did in self.rd(fname).get(n.id, {}).get(e.id, ()):
                if (did, e.id) in seen:
                    continue
                d = self.pm.cfg(fname).nodes[did]
                st = d.stmt
                if d.kind == "stmt" and isinstance(st, ast.Assign) and len(st.targets) == 1 and isinstance(st.targets[0], ast.Name):
                    c = self.counts(fname, d, st.value, depth + 1, seen | {(did, e.id)})
                    if c is not None:
                        anyg = True
                        out |= c
                elif d.kind == "test" and isinstance(st, (ast.For,)) and isinstance(st.target, ast.Name) and st.target.id == e.id:
                    # for x in L / reversed(L): x is whatever was appended to the local list L
                    it = st.iter
                    if isinstance(it, ast.Call) and isinstance(it.func, ast.Name) and it.func.id in ("reversed", "iter", "list", "tuple") and len(it.args) == 1:
                        it = it.args[0]
                    if isinstance(it, ast.Name):
                        fn_ = self.pm.fn(fname)
                        for c_ in walk_local(fn_):
                            if isinstance(c_, ast.Call) and isinstance(c_.func, ast.Attribute) and c_.func.attr == "append" and isinstance(c_.func.value, ast.Name) and c_.func.value.id == it.id and len(c_.args) == 1:
                                an = node_containing(self.pm.cfg(fname), c_)
                                cc = self.counts(fname, an, c_.args[0], depth + 1, seen | {(did, e.id)}) if an is not None else None
                                if cc is not None:
                                    anyg = True
                                    out |= cc
                elif d.kind == "stmt" and isinstance(st, ast.Assign) and len(st.targets) == 1 and isinstance(st.targets[0], (ast.Tuple, ast.List)):
                    # first, *middle, last = group: the starred name holds the group without its two outer tokens
                    elts = st.targets[0].elts
                    stars = [i for i, x in enumerate(elts) if isinstance(x, ast.Starred)]
                    if len(stars) == 1 and isinstance(elts[stars[0]].value, ast.Name) and elts[stars[0]].value.id == e.id:
                        c = self.counts(fname, d, st.value, depth + 1, seen | {(did, e.id)})
                        if c is not None:
                            anyg = True
                            lead, trail = stars[0], len(elts) - stars[0] - 1
                            out |= frozenset(x + 1 for x in c) if (lead, trail) == (1, 1) else frozenset({99})
            return frozenset(out) if anyg else None
        return None


def run(ctx: Ctx) -> None:
    pm = ParserModel(ctx.repo)
    mod = pm.mod
    ctx.trusted = ["field documentation in types.py ('omits the outer parentheses') as the delimiter oracle"]
    ctx.undecided = ["which pending opener a mismatched or tolerated closer is matched with in _consume_balanced_tokens (choice among stack elements)",
                     "position-specific value correctness beyond the rules (e.g. ']]' closing two subscripts)"]

    # ---------------------------------------------------------------- R14.1
    ctx.rule("R14.1", "collectors: every token obtained is placed exactly once (no drop, no duplicate)", minimum=7)
    total_steps = 0
    # a token whose text ends with a newline is a layout token: decided on the lexer model
    from ..lexmodel import LexModel
    lm = LexModel(ctx.repo)
    nl_enders = {r.tokname for r in lm.rules if r.delivers and r.auto(lm.reflags).can_end_with("\n")}
    layout = set(LAYOUT)
    if nl_enders <= lm.discard:
        layout.add("<ends-with-newline>")
    for fname in linear.COLLECTORS:
        pm.fn(fname)
        fs, steps = linear.analyse(pm, fname, layout)
        total_steps += steps
        if not fs:
            ctx.ob("R14.1", f"parser:CxxParser.{fname}|all tokens placed once", True, node=pm.fn(fname), mod=mod, detail={"path_states": steps})
        for f in fs:
            # what kind of token is affected: from the token-type facts at the site (branch shape does not matter)
            from ..typefacts import TypeFacts
            tf = TypeFacts(pm.cfg(fname), resolve=lambda c_, fname=fname: pm.resolve(fname, c_))
            n_at = node_containing(pm.cfg(fname), f.at) if f.at is not None else None
            c_ = tf.at(n_at, f.var) if n_at is not None else ("notin", frozenset())
            which = "type " + "/".join(sorted(c_[1])) if c_[0] == "in" and c_[1] else f"under `{_dominating_condition(pm, fname, f.at)}`"
            ctx.ob("R14.1", f"parser:CxxParser.{fname}|{f.kind} {f.var} of {which} at `{short(f.at, 40)}`", False, msg=f.text, node=f.at, mod=mod)
    ctx.extra["linear_path_states"] = total_steps

    # ---------------------------------------------------------------- R14.2
    ctx.rule("R14.2", "delimiter slices: exactly one [1:-1] into throw/noexcept/decltype/array size, none elsewhere", minimum=15)
    sf = SliceFlow(pm)
    for fname, fn in pm.methods.items():
        cfg = pm.cfg(fname)
        for n in cfg.nodes:
            st = n.stmt
            for c in n.calls():
                r = pm.resolve(fname, c)
                # (a) _create_value(E)
                if r == ("self", "_create_value") and c.args:
                    par_ = mod.parent.get(c)
                    if isinstance(par_, ast.Attribute) and par_.attr == "tokens" and par_.value is c:
                        continue  # only the Token copies are taken: judged where they go, (b) / (c)
                    cnt = sf.counts(fname, n, c.args[0])
                    if cnt is None:
                        continue
                    want, where = _value_sink(pm, fname, cfg, n, c)
                    ctx.ob("R14.2", f"parser:CxxParser.{fname}|value for {where}", cnt == frozenset({want}),
                           msg=f"the token group stored in {where} went through {sorted(cnt)} [1:-1] slice(s); the field's documentation requires {want} "
                               + ("(outer delimiters omitted)" if want else "(nothing but the expression's own tokens, nested groups intact)"),
                           node=c, mod=mod, detail={"slices": sorted(cnt), "required": want})
                # (b) DecltypeSpecifier([... for tok in X])
                if isinstance(c.func, ast.Name) and c.func.id == "DecltypeSpecifier" and c.args:
                    src = _comprehension_source(c.args[0])
                    cnt = sf.counts(fname, n, src) if src is not None else None
                    ctx.ob("R14.2", f"parser:CxxParser.{fname}|DecltypeSpecifier.tokens", cnt == frozenset({1}),
                           msg=f"decltype contents went through {sorted(cnt) if cnt is not None else '?'} [1:-1] slice(s); the documented contents are inside the parentheses (exactly one)", node=c, mod=mod)
                # (c) accumulator.extend(E) / generator of Tokens over E
                if isinstance(c.func, ast.Attribute) and c.func.attr == "extend" and c.args:
                    src = c.args[0]
                    inner = _comprehension_source(src)
                    cnt = sf.counts(fname, n, inner if inner is not None else src)
                    if cnt is None:
                        continue
                    ctx.ob("R14.2", f"parser:CxxParser.{fname}|{short(c.func.value, 20)}.extend({short(src, 30)})", cnt == frozenset({0}),
                           msg=f"a bracket group is added to a raw value after {sorted(cnt)} [1:-1] slice(s): its own delimiters are lost from the value", node=c, mod=mod)

    # ---------------------------------------------------------------- R14.3
    ctx.rule("R14.3", "terminators of _consume_value_until equal what the next consumer accepts", minimum=5)
    for fname, call in pm.call_sites("_consume_value_until"):
        cfg = pm.cfg(fname)
        n = node_containing(cfg, call)
        npos = len(pm.fn("_consume_value_until").args.args) - 1  # named positional parameters before *token_types
        variants = _term_variants(pm, fname, call.args[npos:])
        if variants is None:
            raise AnalysisError(f"cannot fold terminator set at {mod.loc(call)}")
        if fname == "_parse_concept":
            # reasoned exception: the ';' is consumed by the dispatch table's no-op entry
            h = pm.dispatch.get(";")
            # a no-op: a lambda, or a handler method that consumes nothing and emits nothing
            noop = h == "<lambda>" or (h in pm.methods and h not in pm.may_consume() and h not in pm.may_emit())
            ok = all(";" in t for t, _ in variants) and noop
            ctx.ob("R14.3", f"parser:CxxParser.{fname}|{[sorted(t) for t, _ in variants]}", ok, msg="concept constraint terminators no longer include the ';' consumed by the dispatch no-op", node=call, mod=mod, nontrivial=False)
            continue
        for terms, only in variants:
            acc = _followers(pm, fname, cfg, n, 0, only)
            if acc is None:
                ok, why = False, "cannot determine the next consumer of the token after the value"
            else:
                ok = acc[1] <= terms <= acc[0]
                why = (f"the value stops at {sorted(terms)}; the consumer that always follows requires one of {sorted(acc[1])} and the code after the value accepts "
                       f"{sorted(acc[0])}: a required token that is not a terminator is swallowed by the value, a terminator nobody accepts ends the value in a parse error")
            ctx.ob("R14.3", f"parser:CxxParser.{fname}|terminators {sorted(terms)}" + (f" via {only[0]}" if only else ""), ok, msg=why, node=call, mod=mod)

    # ---------------------------------------------------------------- R14.4
    ctx.rule("R14.4", "token lists are mapped to Token objects one-to-one, in order", minimum=2)
    cv = pm.fn("_create_value")
    p = cv.args.args[1].arg
    rets = [s for s in walk_local(cv) if isinstance(s, ast.Return)]
    ok = len(rets) == 1 and isinstance(rets[0].value, ast.Call) and norm(rets[0].value.func) == "Value" and rets[0].value.args and _one_to_one(rets[0].value.args[0], p)
    ctx.ob("R14.4", "parser:CxxParser._create_value|Value([Token(t.value, t.type) for t in toks])", ok, msg="_create_value no longer maps its argument one-to-one and in order", node=cv, mod=mod)
    for fname, fn in pm.methods.items():
        for c in walk_local(fn):
            if isinstance(c, ast.Call) and isinstance(c.func, ast.Name) and c.func.id in ("DecltypeSpecifier", "Value") and c.args and isinstance(c.args[0], (ast.ListComp, ast.GeneratorExp)):
                src = _comprehension_source(c.args[0])
                ctx.ob("R14.4", f"parser:CxxParser.{fname}|{c.func.id}(comprehension)", isinstance(src, ast.Name) and _one_to_one(c.args[0], src.id),
                       msg="tokens are filtered, reordered or altered while being copied into the value", node=c, mod=mod)

    # ---------------------------------------------------------------- R14.5
    ctx.rule("R14.5", "closer set tested by _consume_balanced_tokens == values of every token map in use", minimum=2)
    F = ctx.repo.folder("parser", "CxxParser")
    ends = set(F.get("_end_balanced_tokens"))
    bmap = dict(F.get("_balanced_token_map"))
    ctx.ob("R14.5", "parser:CxxParser|_end_balanced_tokens == values(_balanced_token_map)", ends == set(bmap.values()),
           msg=f"closers {sorted(ends)} vs map values {sorted(set(bmap.values()))}", node=pm.cls, mod=mod, nontrivial=False)
    for fname, call in pm.call_sites("_consume_balanced_tokens"):
        kws = [k for k in call.keywords if k.arg == "token_map"]
        if not kws:
            ctx.ob("R14.5", f"parser:CxxParser.{fname}|default token map #{_idx(pm, fname, call)}", True, node=call, mod=mod, nontrivial=False)
            continue
        try:
            m = F.ev(kws[0].value)
        except Exception:
            m = None
        ok = isinstance(m, dict) and set(m.values()) == ends
        ctx.ob("R14.5", f"parser:CxxParser.{fname}|custom token map #{_idx(pm, fname, call)}", ok,
               msg=f"a custom token map {m!r} is used but the function still treats {sorted(ends)} as closers: a closer that has no opener in the map is matched against the wrong pending bracket (or raises)",
               node=call, mod=mod)
    # the stack discipline inside the function: decided by interpretation over bracket scripts (sa/balanced.py)
    balanced.obligations(ctx, "R14.5", pm, ("return", "fused", "tolerant"))

    # ---------------------------------------------------------------- R14.7
    # A source token that the parser consumed as a FLAG (token_if("ELLIPSIS") -> param_pack = True)
    # and then re-creates inside a value (val.tokens.append(Token("...", "ELLIPSIS"))) is reported
    # twice unless the flag is cleared on that path: the value then holds a token "taken from the
    # surrounding declaration" and the flag describes something that is not there.
    ctx.rule("R14.7", "a token consumed as a flag and re-created inside a value is not reported as the flag as well", minimum=1)
    for fname, fn in pm.methods.items():
        cfg = pm.cfg(fname)
        rd = None
        for n in cfg.nodes:
            if n.kind != "stmt" or not isinstance(n.stmt, ast.Expr) or not isinstance(n.stmt.value, ast.Call):
                continue
            c = n.stmt.value
            if not (norm(c.func).endswith(".tokens.append") and len(c.args) == 1 and isinstance(c.args[0], ast.Call) and norm(c.args[0].func) == "Token"
                    and len(c.args[0].args) == 2 and all(isinstance(a, ast.Constant) for a in c.args[0].args)):
                continue
            ttype = c.args[0].args[1].value
            # flags set True under a consumption of that token type
            flags = set()
            for m in cfg.nodes:
                if m.kind == "stmt" and isinstance(m.stmt, ast.Assign) and isinstance(m.stmt.value, ast.Constant) and m.stmt.value.value is True:
                    deps = cfg.control_deps(m)
                    if any(lab == "T" and f"token_if('{ttype}')" in norm(d.cond) for d, lab in deps):
                        flags |= {t.id for t in m.stmt.targets if isinstance(t, ast.Name)}
            for flag in sorted(flags):
                if not any(lab == "T" and flag in {x.id for x in ast.walk(d.cond) if isinstance(x, ast.Name)} for d, lab in cfg.control_deps(n)):
                    continue
                # from the append: is the flag read (passed on) before being cleared?
                leaked = None
                seen = set()
                st = [s_ for s_, lab in n.succ if lab != "exc"]
                while st and leaked is None:
                    x = st.pop()
                    if x.id in seen:
                        continue
                    seen.add(x.id)
                    if x.kind == "stmt" and isinstance(x.stmt, ast.Assign) and any(isinstance(t, ast.Name) and t.id == flag for t in x.stmt.targets):
                        continue
                    if x.kind == "stmt" and any(isinstance(y, ast.Call) and any(isinstance(a, ast.Name) and a.id == flag for a in list(y.args) + [k.value for k in y.keywords]) for y in x.walk()):
                        leaked = x
                        break
                    st.extend(s_ for s_, lab in x.succ if lab != "exc")
                ctx.ob("R14.7", f"parser:CxxParser.{fname}|`{short(c, 50)}` while `{flag}` is set", leaked is None,
                       msg=f"the {ttype} token is consumed as the flag `{flag}` and re-created inside the value by `{short(c, 60)}`, and `{flag}` is still passed on in `{short(leaked.stmt, 60) if leaked is not None else ''}`: the token is reported twice (as a value token and as the flag)",
                       node=n.stmt, mod=mod)

    # ---------------------------------------------------------------- R14.9
    # "no token dropped": a token list a collector handed back for a value position goes on -- into a Value, back to the
    # stream, to the caller -- on every path that completes.  Only looking at it (its length, a comparison, a test) is not
    # going on, and a conditional expression that passes it on in one arm only drops it in the other
    # (`Value(toks) if len(toks) > 2 else None` reports `int x{};` without its initializer).
    ctx.rule("R14.9", "a collected token list is passed on (Value, push-back, return) on every completing path, not only inspected", minimum=5)
    _COLLECT = {("self", "_consume_balanced_tokens"), ("self", "_consume_value_until"), ("self", "_consume_until")}
    _SKIPPERS = {"_consume_gcc_attribute", "_consume_declspec", "_consume_attribute_specifier_seq", "_consume_static_assert", "_consume_attribute", "_discard_ctor_initializer"}

    def _placing(node: Node, var: str, m=mod) -> bool:
        if node.kind == "test":
            # `if toks:` / `if toks[1:-1]:` -- on the false edge there is nothing (but delimiters) to pass on
            c_ = node.cond
            while isinstance(c_, ast.UnaryOp) and isinstance(c_.op, ast.Not):
                c_ = c_.operand
            if isinstance(c_, ast.Subscript) and isinstance(c_.slice, ast.Slice):
                c_ = c_.value
            return isinstance(c_, ast.Name) and c_.id == var
        for e_ in node.exprs():
            for x in ast.walk(e_):
                if not (isinstance(x, ast.Name) and x.id == var and isinstance(x.ctx, ast.Load)):
                    continue
                cur, inspect_only, one_arm = x, False, False
                while cur is not None and cur is not e_:
                    par = m.parent.get(cur)
                    if isinstance(par, ast.Call) and isinstance(par.func, ast.Name) and par.func.id in ("len", "bool", "any", "all") and cur in par.args:
                        inspect_only = True
                    if isinstance(par, ast.Compare):
                        inspect_only = True
                    if isinstance(par, ast.IfExp):
                        if cur is par.test:
                            inspect_only = True
                        else:
                            other = par.orelse if cur is par.body else par.body
                            if not any(isinstance(y, ast.Name) and y.id == var for y in ast.walk(other)):
                                one_arm = True
                    cur = par
                if not inspect_only and not one_arm:
                    return True
        return False

    for fname in sorted(pm.methods):
        if fname in _SKIPPERS:
            continue
        cfg = pm.cfg(fname)
        for n in cfg.nodes:
            if not (n.kind == "stmt" and isinstance(n.stmt, ast.Assign) and len(n.stmt.targets) == 1 and isinstance(n.stmt.targets[0], ast.Name) and isinstance(n.stmt.value, ast.Call)):
                continue
            if pm.resolve(fname, n.stmt.value) not in _COLLECT:
                continue
            var = n.stmt.targets[0].id
            redefs = {m_.id for m_ in cfg.nodes if m_ is not n and m_.kind == "stmt" and isinstance(m_.stmt, ast.Assign) and any(isinstance(t, ast.Name) and t.id == var for t in m_.stmt.targets)}
            leak = cfg.paths_avoiding(n, cfg.exit, lambda k, v=var: _placing(k, v) or k.id in redefs)
            ctx.ob("R14.9", f"parser:CxxParser.{fname}|`{short(n.stmt, 60)}`", not leak,
                   msg=f"the tokens collected into `{var}` can reach the end of {fname} having only been inspected (or passed on in one arm of a conditional expression): the value position is reported without the source tokens of its expression", node=n.stmt, mod=mod)

    # ---------------------------------------------------------------- R14.11
    # "the array brackets are left out and nothing else is": the lexer has a token for two closing brackets, and the
    # balanced consumer lets it close two pending '[' (`x[a[0]]`).  When the group was opened by '[', its last token can
    # therefore hold the closer of the group AND the last token of the content; stripping `[1:-1]` then takes both.
    # Wherever a '['-opened group is stripped, the function looks at the type of the group's last token (for the fused
    # closer) -- or the lexer has no such token.
    ctx.rule("R14.11", "a '['-opened group that is stripped of its delimiters is checked for the fused ']]' closer", minimum=1)
    from ..lexmodel import LexModel as _LM11
    fused_types = [r.tokname for r in _LM11(ctx.repo).rules if r.kind == "str" and r.regex.replace("\\", "") == "]]"]
    for fname in sorted(pm.methods):
        fn_ = pm.fn(fname)
        cfg = pm.cfg(fname)
        for n in cfg.nodes:
            for c, r in pm.node_calls(fname, n):
                if r != ("self", "_consume_balanced_tokens") or not c.args or not isinstance(c.args[0], ast.Name):
                    continue
                # is the opener known to be '[' here ?
                opener = None
                from .c13 import _typefacts as _tf13
                fact = _tf13(pm, fname).at(n, c.args[0].id)
                if fact is not None and fact[0] == "in" and set(fact[1]) == {"["}:
                    opener = "["
                if opener != "[":
                    continue
                # the result (or a name bound to it) is sliced [1:-1] in this function
                holder = m_parent_assign_name(mod, c)
                sliced = [x for x in walk_local(fn_) if isinstance(x, ast.Subscript) and isinstance(x.slice, ast.Slice) and norm(x.slice) == "1:-1"
                          and ((holder and isinstance(x.value, ast.Name) and x.value.id == holder) or x.value is c)]
                # `_, *inner, closer = <group>` strips the delimiters as well; the closer then has a name
                last_names = set()
                par_ = mod.parent.get(c)
                if isinstance(par_, ast.Assign) and par_.value is c and len(par_.targets) == 1 and isinstance(par_.targets[0], (ast.Tuple, ast.List)):
                    el = par_.targets[0].elts
                    if len(el) == 3 and isinstance(el[1], ast.Starred) and isinstance(el[2], ast.Name):
                        sliced = sliced or [par_]
                        last_names.add(el[2].id)
                if not sliced:
                    continue
                looks = [x for x in walk_local(fn_) if isinstance(x, ast.Compare) and any(isinstance(k, ast.Constant) and k.value in fused_types for k in ast.walk(x))
                         and (any(isinstance(y, ast.Subscript) and isinstance(y.slice, ast.UnaryOp) and isinstance(y.slice.operand, ast.Constant) and y.slice.operand.value == 1 for y in ast.walk(x))
                              or any(isinstance(y, ast.Attribute) and y.attr == "type" and isinstance(y.value, ast.Name) and y.value.id in last_names for y in ast.walk(x)))]
                ok = not fused_types or bool(looks)
                ctx.ob("R14.11", f"parser:CxxParser.{fname}|`{short(c, 40)}` stripped with [1:-1]", ok,
                       msg=f"the group is opened by '[' and stripped of its first and last token, but the last token may be the fused {fused_types} closing the group and a subscript inside it: for `int x[a[0]];` the size is reported as `a[0` (the closing bracket of the content is lost)", node=sliced[0], mod=mod)

    # ---------------------------------------------------------------- R14.10
    # "exactly the source tokens": the values are cut out of the buffer the token stream fills; a fill that fuses, rewrites
    # or drops raw tokens (two adjacent string literals made one) changes every value that contains them.  The buffer fill
    # interpreted over short scripts of raw tokens (sa/fillmodel.py): every raw token is buffered once, in order, unchanged
    # - user-defined-literal fusion being the one documented exception, decided there as well.
    ctx.rule("R14.10", "the buffer the values are cut from holds every raw token once, in order, unchanged (UDL fusion excepted)", minimum=1)
    from .. import fillmodel as _fillmodel
    from ..lexmodel import LexModel as _LexModel
    _fillmodel.obligations(ctx, "R14.10", ctx.repo.mod("lexer"), set(_LexModel(ctx.repo).udl_start), ("keep", "udl"))

    # ---------------------------------------------------------------- R14.12
    # "template arguments ... exactly the source tokens": the raw Value of a template argument is made from the argument's
    # own tokens before the trial parse re-uses them (no end marker in it, nothing of a nested argument) -- C02's R2.2
    # region rule, evaluated here under this property's id.
    from . import c02 as _c02_
    from ..report import run_shared
    run_shared(ctx, _c02_.run, {"R2.2": ("R14.12", "the raw value of a template argument is created from its own token list before the trial parse touches it")})

    # ---------------------------------------------------------------- R14.6
    # pragma contents end at the line end: a discarded token that swallows its newline must
    # end the directive, or the next declaration's tokens become part of the pragma's Value
    # (C09's R9.3, evaluated here under this property's id).
    from . import c09
    from ..report import SubCtx, run_shared
    run_shared(ctx, c09.run, {"R9.3": ("R14.6", "pragma contents stop at the line end: a discarded token that can contain a newline is tested for one")})

    # ---------------------------------------------------------------- R14.8
    # "exactly the source tokens": a literal of the expression is one token of the value.  A token
    # rule that takes only a prefix of a literal (an alternation that prefers the short suffix, a
    # rule shadowed by an earlier one) puts two tokens where the source has one (C08's R8.8 / R8.9
    # decided on the lexer's regular expressions, evaluated here under this property's id).
    from . import c08
    t148 = "a literal in a value is one token: every reference literal is taken whole by its rule (R8.8 inclusion, R8.9 leftmost-first preference)"
    # (only these two rules of C08 are evaluated, through the functions that implement them)
    from ..lexmodel import LexModel as _LM148
    from ..report import SubCtx as _Sub148

    def _lit148(sub):
        lm148 = _LM148(ctx.repo)
        c08.reference_inclusion(sub, lm148)
        c08._preferred_match(sub, lm148, thorough=ctx.tier == "thorough")
    run_shared(ctx, _lit148, {"R8.8": ("R14.8", t148), "R8.9": ("R14.8", t148)})

# ---------------------------------------------------------------------------


def m_parent_assign_name(mod, call: ast.Call) -> Optional[str]:
    """the local a call's result is bound to (`x = call(...)`), if it is"""
    par = mod.parent.get(call)
    if isinstance(par, ast.Assign) and par.value is call and len(par.targets) == 1 and isinstance(par.targets[0], ast.Name):
        return par.targets[0].id
    return None


def _idx(pm: ParserModel, fname: str, call: ast.Call) -> int:
    i = 0
    for c in walk_local(pm.fn(fname)):
        if isinstance(c, ast.Call) and pm.resolve(fname, c) == ("self", "_consume_balanced_tokens"):
            if c is call:
                return i
            i += 1
    return -1


def _under_empty_stack(cfg: CFG, ret: ast.Return) -> bool:
    n = node_containing(cfg, ret)
    if n is None:
        return False
    for i in cfg.dominators().get(n.id, ()):
        t = cfg.nodes[i]
        if t.kind == "test" and t.cond is not None:
            s = norm(t.cond)
            if ("len(" in s and "stack" in s and "== 0" in s) or (s.startswith("not ") and "stack" in s):
                # the return must be on the T side
                if not any(cfg.paths_avoiding(x, n, lambda y: y is t) or x is n for x, lab in t.succ if lab == "F"):
                    return True
    return False


def _dominating_condition(pm: ParserModel, fname: str, at: ast.AST) -> str:
    p = pm.mod.parent.get(at)
    while p is not None and not isinstance(p, (ast.FunctionDef,)):
        if isinstance(p, ast.If) and any(x is at for b in p.body for x in ast.walk(b)):
            return short(p.test, 40)
        p = pm.mod.parent.get(p)
    return "-"


def _comprehension_source(e: ast.AST) -> Optional[ast.AST]:
    if isinstance(e, (ast.ListComp, ast.GeneratorExp)) and len(e.generators) == 1:
        return e.generators[0].iter
    # self._create_value(X).tokens: the Token copies of X, one for one (R14.4 decides that mapping)
    if isinstance(e, ast.Attribute) and e.attr == "tokens" and isinstance(e.value, ast.Call) and (attr_chain(e.value.func) or ("",))[-1] == "_create_value" and len(e.value.args) == 1:
        return e.value.args[0]
    return None


def _one_to_one(e: ast.AST, src: str) -> bool:
    if not (isinstance(e, (ast.ListComp, ast.GeneratorExp)) and len(e.generators) == 1):
        return False
    g = e.generators[0]
    if g.ifs or not (isinstance(g.iter, ast.Name) and g.iter.id == src) or not isinstance(g.target, ast.Name):
        return False
    v = g.target.id
    el = e.elt
    return (isinstance(el, ast.Call) and isinstance(el.func, ast.Name) and el.func.id == "Token" and len(el.args) == 2
            and attr_chain(el.args[0]) == (v, "value") and attr_chain(el.args[1]) == (v, "type") and not el.keywords)


def _value_sink(pm: ParserModel, fname: str, cfg: CFG, n: Node, call: ast.Call) -> Tuple[int, str]:
    """(required slice count, description) for the Value built by `call`."""
    st = n.stmt
    par = pm.mod.parent.get(call)
    # `V(x) if x else None`, `x and V(x)`: the value goes where the whole expression goes
    while isinstance(par, (ast.IfExp, ast.BoolOp)) and pm.mod.parent.get(par) is not None:
        call = par  # type: ignore[assignment]
        par = pm.mod.parent.get(par)
    # X.throw = ... / X.noexcept = ...
    if isinstance(par, ast.Assign) and par.value is call:
        for t in par.targets:
            if isinstance(t, ast.Attribute):
                return (1 if t.attr in SLICED_FIELDS else 0, f"field .{t.attr}")
            if isinstance(t, ast.Name):
                # follow the local: Array(dtype, size) ?
                for m in cfg.nodes:
                    for c in m.calls():
                        if isinstance(c.func, ast.Name) and c.func.id == "Array" and len(c.args) >= 2 and isinstance(c.args[1], ast.Name) and c.args[1].id == t.id:
                            return (1, "Array.size")
                return (0, f"local {t.id}")
    if isinstance(par, ast.keyword):
        return (1 if par.arg in SLICED_FIELDS else 0, f"argument {par.arg}=")
    if isinstance(par, ast.Call) and isinstance(par.func, ast.Name) and par.func.id == "Array":
        return (1, "Array.size")
    return (0, "a value")


def _const_strs(args: List[ast.AST]) -> Optional[FrozenSet[str]]:
    out: Set[str] = set()
    for a in args:
        if isinstance(a, ast.Constant) and isinstance(a.value, str):
            out.add(a.value)
        else:
            return None
    return frozenset(out)


def _term_variants(pm: ParserModel, fname: str, args: List[ast.AST]):
    """[(terminator set, caller context or None)]: a terminator given by a parameter is
    evaluated per call site of the enclosing function (defaults included)."""
    fixed: Set[str] = set()
    pnames: List[str] = []
    for a in args:
        if isinstance(a, ast.Constant) and isinstance(a.value, str):
            fixed.add(a.value)
        elif isinstance(a, ast.Name):
            pnames.append(a.id)
        else:
            return None
    if not pnames:
        return [(frozenset(fixed), None)]
    if len(pnames) > 1:
        return None
    p = pnames[0]
    fn = pm.fn(fname)
    names = [a.arg for a in fn.args.args[1:]]
    if p not in names:
        return None
    idx = names.index(p)
    defaults = fn.args.defaults
    dnames = names[len(names) - len(defaults):] if defaults else []
    out = []
    for caller, call in pm.call_sites(fname):
        a = call.args[idx] if idx < len(call.args) else next((k.value for k in call.keywords if k.arg == p), None)
        if a is None and p in dnames:
            a = defaults[dnames.index(p)]
        if not (isinstance(a, ast.Constant) and isinstance(a.value, str)):
            return None
        out.append((frozenset(fixed | {a.value}), (caller, call)))
    return out


def _in_swap_region(pm: ParserModel, fname: str, node: Node) -> bool:
    """Statement lies in a try whose finally restores self.lex: calls there read the temporary stream."""
    st = node.stmt
    p = pm.mod.parent.get(st) if st is not None else None
    fn = pm.fn(fname)
    while p is not None and p is not fn:
        if isinstance(p, ast.Try) and p.finalbody and any(isinstance(x, ast.Assign) and any(is_self_attr(t, "lex") for t in x.targets) for b in p.finalbody for x in ast.walk(b)):
            if any(y is st for b in p.body for y in ast.walk(b)):
                return True
        p = pm.mod.parent.get(p)
    return False


def _followers(pm: ParserModel, fname: str, cfg: CFG, n: Optional[Node], depth: int, only=None, start_edges=None):
    """(token types the next consumer accepts,) after node n; follows the return into
    the callers (return-value correlated when the call is a branch condition)."""
    if n is None or depth > 4:
        return None
    acc: Set[str] = set()
    musts: List[FrozenSet[str]] = []
    seen: Set[int] = set()
    st = [s for s, lab in n.succ if lab != "exc" and (start_edges is None or lab in start_edges)]
    unknown = False
    rets: Set[object] = set()
    exits = False
    may = pm.may_consume()
    while st:
        x = st.pop()
        if x.id in seen:
            continue
        seen.add(x.id)
        if x is cfg.exit:
            exits = True
            continue
        if x is cfg.raise_exit:
            continue
        if x.kind == "stmt" and isinstance(x.stmt, ast.Return):
            v = x.stmt.value
            rets.add(v.value if isinstance(v, ast.Constant) else ("?" if v is not None else None))
        stop = False
        if x.kind == "stmt" and isinstance(x.stmt, ast.Raise):
            continue
        if not _in_swap_region(pm, fname, x):
            for c, r in pm.node_calls(fname, x):
                if r == ("self", "_next_token_must_be"):
                    ts = _const_strs(c.args)
                    if ts is None:
                        unknown = True
                    else:
                        acc |= ts
                        musts.append(ts)
                    stop = True
                elif r and r[0] == "lex" and r[1] in ("token_if", "token_peek_if"):
                    ts = _const_strs(c.args)
                    if ts is None:
                        unknown = True
                    else:
                        acc |= ts
                elif r and r[0] == "lex" and r[1] in LEX_CONSUME:
                    unknown = True
                    stop = True
                elif r and r[0] == "self" and r[1] in may:
                    unknown = True
                    stop = True
        if stop:
            continue
        st.extend(s for s, lab in x.succ if lab != "exc")
    if unknown:
        return None
    if exits:
        fell_off = any(not (p.kind == "stmt" and isinstance(p.stmt, ast.Return)) for p, _ in cfg.exit.pred if p.id in seen)
        if fell_off:
            rets.add(None)
        sites = pm.call_sites(fname)
        if only is not None and depth == 0:
            sites = [only]
        for caller, call in sites:
            ccfg = pm.cfg(caller)
            cn = node_containing(ccfg, call)
            edges = None
            if cn is not None and cn.kind == "test" and cn.cond is not None and "?" not in rets:
                truth = {bool(r) for r in rets}
                last = cn.cond.values[-1] if isinstance(cn.cond, ast.BoolOp) and isinstance(cn.cond.op, ast.And) else cn.cond
                flip = False
                while isinstance(last, ast.UnaryOp) and isinstance(last.op, ast.Not):
                    last = last.operand
                    flip = not flip
                if last is call and len(truth) == 1:
                    t_ = (True in truth) != flip
                    # in `a and <call>` the false edge is also taken when `a` is false; the call's value decides only the true edge
                    edges = {"T"} if t_ else ({"F"} if last is cn.cond or (isinstance(cn.cond, ast.UnaryOp) and not isinstance(cn.cond, ast.BoolOp)) else {"F"})
            sub = _followers(pm, caller, ccfg, cn, depth + 1, None, edges)
            if sub is None:
                return None
            acc |= sub[0]
            musts.append(sub[1])
    must = frozenset.intersection(*musts) if musts else frozenset()
    return (frozenset(acc), must)
