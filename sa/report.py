"""Findings, obligations, known-findings matching, evidence and exit codes."""
from __future__ import annotations

import ast
import json
import os
import pathlib
import sys
import time
from typing import Any, Dict, List, Optional

from .model import AnalysisError, Module, Repo, norm

VERIF = pathlib.Path(__file__).resolve().parent.parent
EVIDENCE_DIR = pathlib.Path(os.environ.get("VERIF_EVIDENCE_DIR") or (VERIF / "evidence"))
KNOWN_FILE = VERIF / "known_findings.json"


class Obligation:
    __slots__ = ("rule", "key", "ok", "msg", "file", "line", "nontrivial", "detail")

    def __init__(self, rule, key, ok, msg, file, line, nontrivial, detail):
        self.rule = rule
        self.key = key
        self.ok = ok
        self.msg = msg
        self.file = file
        self.line = line
        self.nontrivial = nontrivial
        self.detail = detail

    @property
    def fkey(self) -> str:
        return f"{self.rule}|{self.key}"

    def as_dict(self) -> Dict[str, Any]:
        d = {"rule": self.rule, "key": self.key, "ok": self.ok}
        if self.msg and not self.ok:
            d["what"] = self.msg
        if self.file:
            d["at"] = f"{self.file}:{self.line}"
        if self.detail is not None:
            d["detail"] = self.detail
        return d


class Ctx:
    """Per-run context handed to a property's ``run(ctx)``."""

    def __init__(self, prop: str, tier: str, repo: Repo, seed: int = 0):
        self.shared_errors: List[str] = []
        self.prop = prop
        self.tier = tier
        self.repo = repo
        self.seed = seed
        self.obs: List[Obligation] = []
        self.rules: Dict[str, str] = {}
        self.minimum: Dict[str, int] = {}
        self.notes: List[str] = []
        self.samples: List[Any] = []
        self.extra: Dict[str, Any] = {}
        self.assumptions: List[str] = []
        self.trusted: List[str] = []
        self.undecided: List[str] = []
        self.exhaustive: Optional[bool] = None
        self.t0 = time.time()

    # ---- declaration of rules
    def rule(self, rid: str, text: str, minimum: int = 1) -> None:
        """Declare a rule and the minimum number of instances confirmed by hand
        on the reference tree; finding fewer is an ANALYSIS-ERROR (a rule must
        never pass vacuously because an anchor was renamed)."""
        self.rules[rid] = text
        self.minimum[rid] = minimum

    def ob(
        self,
        rule: str,
        key: str,
        ok: bool,
        msg: str = "",
        node: Optional[ast.AST] = None,
        mod: Optional[Module] = None,
        nontrivial: bool = True,
        detail: Any = None,
    ) -> bool:
        if rule not in self.rules:
            raise AnalysisError(f"internal: obligation for undeclared rule {rule}")
        file = str(mod.path) if mod is not None else ""
        line = getattr(node, "lineno", 0) if node is not None else 0
        self.obs.append(Obligation(rule, key, bool(ok), msg, file, line, nontrivial, detail))
        return bool(ok)

    def note(self, s: str) -> None:
        self.notes.append(s)

    def sample(self, x: Any) -> None:
        if len(self.samples) < 12:
            self.samples.append(x)

    # ---- finishing
    def count(self, rule: str) -> int:
        return sum(1 for o in self.obs if o.rule == rule)


class SubCtx:
    """View of a Ctx for running another property's rules under new rule ids:
    `mapping` = {their rule id: (our rule id, text)}; rules not in the mapping
    are evaluated but not recorded."""

    def __init__(self, ctx: "Ctx", mapping: Dict[str, Any], drop_keys: Optional[set] = None):
        self._c = ctx
        self._map = mapping
        self._drop = drop_keys or set()
        self.minimum: Dict[str, int] = {}
        self.trusted: List[str] = []
        self.undecided: List[str] = []
        self.assumptions: List[str] = []
        self.extra: Dict[str, Any] = {}
        self.exhaustive = None

    def __getattr__(self, k):
        return getattr(self._c, k)

    def rule(self, rid: str, text: str, minimum: int = 1) -> None:
        if rid in self._map:
            new, t = self._map[rid]
            if new not in self._c.rules:
                self._c.rule(new, t or text, 1)

    def ob(self, rule: str, key: str, ok: bool, **kw) -> bool:
        if rule in self._map and f"{rule}|{key}" not in self._drop:
            return self._c.ob(self._map[rule][0], key, ok, **kw)
        return bool(ok)

    def note(self, s: str) -> None:
        pass

    def sample(self, x: Any) -> None:
        pass


def run_shared(ctx: Any, run, mapping: Dict[str, Any], drop_keys: Optional[set] = None) -> None:
    """Evaluate another property's rules under this property's ids.  The other property's own anchors are its own
    business: if its run stops on one (AnalysisError), what was evaluated of the shared rules stands, the error is
    kept, and this property's run goes on - a violation found by this property's rules is still reported; without one
    the run ends as an analysis error (the shared rules were not all decided)."""
    root = ctx
    while isinstance(root, SubCtx):
        root = root._c
    try:
        run(SubCtx(ctx, mapping, drop_keys))
    except AnalysisError as e:
        root.shared_errors.append(f"{'/'.join(sorted(v[0] for v in mapping.values()))}: {e}")


def where(mod: Module, node: ast.AST) -> str:
    return f"{mod.name}:{mod.qualname_of(node)}"


def load_known() -> Dict[str, Any]:
    if not KNOWN_FILE.exists():
        return {"known": [], "fixed": []}
    return json.loads(KNOWN_FILE.read_text())


def finish(ctx: Ctx, level_text: str, explanation: str) -> int:
    """Evaluate obligations, print the report, write evidence, return exit code."""
    known = load_known()
    kmap = {k["key"]: k for k in known.get("known", []) if k.get("property") == ctx.prop}
    viol = [o for o in ctx.obs if not o.ok]
    # de-duplicate by key
    seen = set()
    uniq: List[Obligation] = []
    for o in viol:
        if o.fkey not in seen:
            seen.add(o.fkey)
            uniq.append(o)
    listed = [o for o in uniq if o.fkey in kmap]
    new = [o for o in uniq if o.fkey not in kmap]

    # vacuity guard (a violation that was found is reported whatever else is missing)
    if not new:
        for rid, mn in ctx.minimum.items():
            got = ctx.count(rid)
            if got < mn:
                raise AnalysisError(
                    f"rule {rid} found {got} instance(s), fewer than the {mn} confirmed on the reference tree "
                    f"(an anchor it depends on was renamed or removed)"
                )
    if ctx.shared_errors and not new:
        raise AnalysisError("a rule shared with another property could not be evaluated: " + "; ".join(ctx.shared_errors))
    for e_ in ctx.shared_errors:
        ctx.notes.append("shared rule not evaluated: " + e_)

    print(f"== {ctx.prop} tier={ctx.tier} repo={ctx.repo.root}")
    for rid, text in ctx.rules.items():
        n = ctx.count(rid)
        bad = sum(1 for o in ctx.obs if o.rule == rid and not o.ok)
        print(f"  rule {rid}: {n} instance(s), {n - bad} discharged -- {text}")
    for s in ctx.notes:
        print(f"  note: {s}")
    for o in listed:
        print(f"KNOWN-FINDING: property={ctx.prop} rule={o.rule} key={o.key} {kmap[o.fkey].get('what', o.msg)}")
    EVIDENCE_DIR.mkdir(exist_ok=True)
    replay_dir = EVIDENCE_DIR / "replay"
    for i, o in enumerate(new):
        replay_dir.mkdir(exist_ok=True)
        rp = replay_dir / f"{ctx.prop}-{i}.json"
        if i < 40:
            rp.write_text(json.dumps({"property": ctx.prop, **o.as_dict()}, indent=1))
        if i < 12:
            print(f"  finding: [{o.rule}] {o.key}\n           {o.msg}\n           at {o.file}:{o.line}")
            print(f"VIOLATION property={ctx.prop} replay={rp}")
        elif i < 40:
            print(f"VIOLATION property={ctx.prop} replay={rp}  [{o.rule}] {o.key}")
    if len(new) > 40:
        print(f"  ... and {len(new) - 40} further new findings (all are in the evidence file)")
    # stale known findings are reported (not an error): the entry no longer matches
    live = {o.fkey for o in uniq}
    for k in kmap:
        if k not in live:
            print(f"  note: known finding no longer reproduces (stale entry): {k}")

    obligations = len(ctx.obs)
    discharged = sum(1 for o in ctx.obs if o.ok)
    distinct_nontrivial = len({o.fkey for o in ctx.obs if o.nontrivial})
    # one discharged (and, if any, one violated) instance per rule, written out
    per_rule = []
    for rid in ctx.rules:
        inst = [o for o in ctx.obs if o.rule == rid]
        if inst:
            per_rule.append({"rule_text": ctx.rules[rid], **inst[0].as_dict()})
        badi = [o for o in inst if not o.ok]
        if badi:
            per_rule.append(badi[0].as_dict())
    samples = (ctx.samples + per_rule)[:24] or [o.as_dict() for o in ctx.obs[:6]]
    cov: Dict[str, Any] = {
        "explanation": explanation,
        "rules": [{"id": r, "text": t, "instances": ctx.count(r),
                   "violated": sum(1 for o in ctx.obs if o.rule == r and not o.ok),
                   "minimum_instances": ctx.minimum[r]} for r, t in ctx.rules.items()],
        "obligations": obligations,
        "discharged": discharged,
        "evaluations": max(obligations, 1),
        "distinct_nontrivial": distinct_nontrivial,
        "rule": "one evaluation per rule instance (site, path, pair or table entry) found in the current source; "
                "non-trivial = decided by a path search, narrowing, fold or automaton query rather than a lookup; distinct by finding key",
        "samples": samples,
        "checker_cmd": f"./vcheck {ctx.prop} --tier {ctx.tier}",
        "trusted_base": ctx.trusted or ["CPython ast/re._parser", "the rule implementations under /verif/sa"],
        "analysed": {"modules": len(ctx.repo.modules), "lines": ctx.repo.line_count()},
        "known_findings_matched": [o.fkey for o in listed],
        "new_findings": [o.as_dict() for o in new],
        "undecided_clauses": ctx.undecided,
        "notes": ctx.notes,
    }
    if ctx.exhaustive is not None:
        cov["exhaustive"] = ctx.exhaustive
    cov.update(ctx.extra)
    ev = {
        "property_id": ctx.prop,
        "tier": ctx.tier,
        "seed": ctx.seed,
        "level": "other",
        "coverage": cov,
        "assumptions": ctx.assumptions or (["the source under /repo/cxxheaderparser is what is imported at run time (no monkey-patching, no generated code)",
                                            "Python semantics of the constructs the rules interpret (dominance, exceptions, class attributes)"] + list(ctx.trusted)),
        "wall_s": round(time.time() - ctx.t0, 3),
        "violations": len(new),
    }
    (EVIDENCE_DIR / f"{ctx.prop}.json").write_text(json.dumps(ev, indent=1, default=str) + "\n")
    print(f"  {obligations} obligations, {discharged} discharged, {len(listed)} known finding(s), {len(new)} new violation(s), {ev['wall_s']} s")
    return 1 if new else 0
