"""Per-iteration state: a local that is (re)assigned inside a loop, never in
terms of itself, and is handed to a constructor in that loop must be assigned
on every path from the loop head to the construction -- otherwise its value is
carried over from the previous iteration (a flag or default that sticks)."""
from __future__ import annotations

import ast
from typing import Dict, List, Optional, Set, Tuple

from .cfg import CFG, Node, node_defs
from .model import norm, short, walk_local
from .pmodel import ParserModel


def sticky_locals(pm: ParserModel, fname: str, ctor_names: Set[str]) -> List[Tuple[ast.AST, str, ast.Call, bool]]:
    """[(loop, variable, constructor call, ok)] for every (loop, var, ctor) instance."""
    fn = pm.fn(fname)
    cfg = pm.cfg(fname)
    out = []
    heads = [n for n in cfg.nodes if n.kind == "test" and n.loop is not None]
    for h in heads:
        loop = h.loop
        inside = {id(x) for x in ast.walk(loop)}
        # definitions inside the loop, and whether any is self-dependent
        defs: Dict[str, List[Node]] = {}
        selfdep: Set[str] = set()
        for n in cfg.nodes:
            if n.stmt is None or id(n.stmt) not in inside or n is h:
                continue
            for v in node_defs(n):
                defs.setdefault(v, []).append(n)
                st = n.stmt
                val = getattr(st, "value", None)
                if isinstance(st, ast.AugAssign):
                    selfdep.add(v)
                elif val is not None and any(isinstance(x, ast.Name) and x.id == v for x in ast.walk(val)):
                    selfdep.add(v)
        # innermost loop only: skip variables defined by an inner loop head of this loop
        for n in cfg.nodes:
            if n.stmt is None or id(n.stmt) not in inside:
                continue
            # the construction must belong to this loop directly (not to a nested loop)
            if _innermost_loop(pm, fn, n.stmt) is not loop:
                continue
            for c in n.calls():
                nm = c.func.id if isinstance(c.func, ast.Name) else None
                if nm not in ctor_names:
                    continue
                args = list(c.args) + [k.value for k in c.keywords]
                for a in args:
                    if not isinstance(a, ast.Name):
                        continue
                    v = a.id
                    if v not in defs or v in selfdep:
                        continue
                    dn = defs[v]
                    ok = not cfg.paths_avoiding(h, n, lambda x: x in dn)
                    out.append((loop, v, c, ok))
    return out


def _innermost_loop(pm: ParserModel, fn: ast.AST, node: ast.AST) -> Optional[ast.AST]:
    p = pm.mod.parent.get(node)
    while p is not None and p is not fn:
        if isinstance(p, (ast.While, ast.For)):
            return p
        p = pm.mod.parent.get(p)
    return None
