"""Which token types a local token variable can hold at a program point.

Forward dataflow over a function's CFG.  A fact is, per local variable v, a
constraint on `v.type` (also on a plain string local compared the same way):
("in", S) or ("notin", S); no entry = nothing known.  Facts come from the
branch conditions (`==`, `!=`, `in`, `not in`, `not`, `and`, `or`), from loop
exits (the negated loop condition) and from accessors that return only tokens
of the types they were asked for (`_next_token_must_be`, `token_if`).  They are
killed when the variable is re-bound.  The join is the union of what is
possible on either path, so a fact holds on every path (must-information)."""
from __future__ import annotations

import ast
from typing import Dict, FrozenSet, Optional, Tuple

from .cfg import CFG, Node, node_defs, solve_forward
from .model import attr_chain, norm

Constraint = Tuple[str, FrozenSet[str]]
Facts = Tuple[Tuple[str, Constraint], ...]   # hashable, sorted


def _get(f: Dict[str, Constraint], v: str) -> Constraint:
    return f.get(v, ("notin", frozenset()))


def _meet(a: Constraint, b: Constraint) -> Constraint:
    """both hold"""
    if a[0] == "in" and b[0] == "in":
        return ("in", a[1] & b[1])
    if a[0] == "in":
        return ("in", a[1] - b[1])
    if b[0] == "in":
        return ("in", b[1] - a[1])
    return ("notin", a[1] | b[1])


def _join(a: Constraint, b: Constraint) -> Constraint:
    """one of them holds"""
    if a[0] == "in" and b[0] == "in":
        return ("in", a[1] | b[1])
    if a[0] == "in":
        return ("notin", b[1] - a[1])
    if b[0] == "in":
        return ("notin", a[1] - b[1])
    return ("notin", a[1] & b[1])


def _neg(c: Constraint) -> Constraint:
    return ("notin", c[1]) if c[0] == "in" else ("in", c[1])


def _subject(e: ast.AST) -> Optional[str]:
    ch = attr_chain(e)
    if ch and len(ch) == 2 and ch[1] == "type":
        return ch[0]
    return None


def _consts(e: ast.AST) -> Optional[FrozenSet[str]]:
    if isinstance(e, ast.Constant) and isinstance(e.value, str):
        return frozenset({e.value})
    if isinstance(e, (ast.Tuple, ast.List, ast.Set)) and all(isinstance(x, ast.Constant) and isinstance(x.value, str) for x in e.elts):
        return frozenset(x.value for x in e.elts)
    if isinstance(e, ast.Call) and isinstance(e.func, ast.Name) and e.func.id in ("frozenset", "set", "tuple") and len(e.args) == 1:
        return _consts(e.args[0])
    return None


def implied(cond: ast.AST, truth: bool, fold=None, alias: Optional[Dict[str, str]] = None) -> Dict[str, Constraint]:
    """constraints that hold when `cond` evaluates to `truth`"""
    out: Dict[str, Constraint] = {}
    if isinstance(cond, ast.UnaryOp) and isinstance(cond.op, ast.Not):
        return implied(cond.operand, not truth, fold, alias)
    if isinstance(cond, ast.BoolOp):
        conj = isinstance(cond.op, ast.And)
        if conj == truth:
            # every operand has the same truth value
            for v in cond.values:
                for k, c in implied(v, truth, fold, alias).items():
                    out[k] = _meet(out[k], c) if k in out else c
            return out
        # one of the operands: only what all of them imply
        parts = [implied(v, truth, fold, alias) for v in cond.values]
        keys = set(parts[0]) if parts else set()
        for p in parts[1:]:
            keys &= set(p)
        for k in keys:
            c = parts[0][k]
            for p in parts[1:]:
                c = _join(c, p[k])
            out[k] = c
        return out
    if isinstance(cond, ast.Compare) and len(cond.ops) == 1:
        v = _subject(cond.left)
        if v is None and alias and isinstance(cond.left, ast.Name) and cond.left.id in alias:
            v = alias[cond.left.id]  # a local that holds <tok>.type
        op = cond.ops[0]
        rhs = cond.comparators[0]
        cs = _consts(rhs)
        if v is None and cs is not None:
            # `tok.value == "}"`: the text of a single-character punctuation token is its type, and no other token has that text
            ch = attr_chain(cond.left)
            if ch and len(ch) == 2 and ch[1] == "value" and all(len(c_) == 1 and not c_.isalnum() and c_ not in "_\"' \t\n" for c_ in cs):
                v = ch[0]
        if cs is None and fold is not None:
            cs = fold(rhs)
        if v is not None and cs is not None:
            if isinstance(op, ast.Eq) and len(cs) == 1:
                c: Constraint = ("in", cs)
            elif isinstance(op, ast.NotEq) and len(cs) == 1:
                c = ("notin", cs)
            elif isinstance(op, ast.In):
                c = ("in", cs)
            elif isinstance(op, ast.NotIn):
                c = ("notin", cs)
            else:
                return out
            out[v] = c if truth else _neg(c)
    return out


class TypeFacts:
    def __init__(self, cfg: CFG, resolve=None, fold=None, alias: Optional[Dict[str, str]] = None):
        """resolve(call) -> ('self'|'lex', name) or None, as ParserModel.resolve bound to the function"""
        self.cfg = cfg
        self.resolve = resolve
        self.fold = fold

        def pack(d: Dict[str, Constraint]) -> Facts:
            return tuple(sorted((k, v) for k, v in d.items() if not (v[0] == "notin" and not v[1])))

        def transfer(n: Node, f: Facts) -> Facts:
            d = dict(f)
            defs = node_defs(n)
            for v in defs:
                d.pop(v, None)
            st = n.stmt
            if n.kind == "stmt" and isinstance(st, ast.Assign) and len(st.targets) == 1 and isinstance(st.targets[0], ast.Name) and isinstance(st.value, ast.Call):
                r = resolve(st.value) if resolve else None
                if r in (("self", "_next_token_must_be"), ("lex", "token_if"), ("lex", "token_peek_if")):
                    ts = [a.value for a in st.value.args if isinstance(a, ast.Constant) and isinstance(a.value, str)]
                    if ts and len(ts) == len(st.value.args):
                        d[st.targets[0].id] = ("in", frozenset(ts))
            if n.kind == "stmt" and isinstance(st, ast.Assign) and len(st.targets) == 1 and isinstance(st.targets[0], ast.Name) and isinstance(st.value, ast.Name) and st.value.id in d:
                d[st.targets[0].id] = d[st.value.id]
            return pack(d)

        def edge(n: Node, lab, s: Node, f: Facts) -> Facts:
            if lab in ("T", "F") and n.cond is not None:
                d = dict(f)
                for k, c in implied(n.cond, lab == "T", fold, alias).items():
                    d[k] = _meet(_get(d, k), c)
                    if d[k] == ("in", frozenset()):
                        return None  # this branch cannot be taken with what is known
                return pack(d)
            return f

        def join(a: Facts, b: Facts) -> Facts:
            da, db = dict(a), dict(b)
            out = {}
            for k in set(da) & set(db):
                out[k] = _join(da[k], db[k])
            return pack(out)

        self._edge = edge
        self._transfer = transfer
        self.IN = solve_forward(cfg, tuple(), transfer, join, edge=edge, skip_exc=True)

    def at(self, n: Node, var: str) -> Constraint:
        f = self.IN.get(n.id)
        if f is None:
            return ("in", frozenset())  # unreachable
        return _get(dict(f), var)

    def on_edge(self, p: Node, lab, s: Node, var: str) -> Constraint:
        f = self.IN.get(p.id)
        if f is None:
            return ("in", frozenset())
        return _get(dict(self._edge(p, lab, s, self._transfer(p, f))), var)

    def vars_fixed_to(self, n: Node, value: str):
        f = dict(self.IN.get(n.id) or ())
        return [v for v, c in f.items() if c == ("in", frozenset({value}))]
