"""Leftmost-first (backtracking) semantics of a regular expression, interpreted
on the AST that re._parser produces -- what CPython's engine returns for
``pattern.match(text, 0)``.  Used only to compare the *preferred* match length of
a lexer rule with the longest match its automaton admits, on words enumerated
from the reference literal grammar (bounded-exhaustive; see C08 R8.9).  No code
of the package is involved: the subject is a folded regex constant."""
from __future__ import annotations

from typing import Iterator, List, Optional

from .rx import sre_c, sre_parse, charset, _ATOMS
from .model import AnalysisError


_TREES = {}


def match_len(pattern: str, flags: int, text: str) -> Optional[int]:
    tree = _TREES.get((pattern, flags))
    if tree is None:
        tree = _TREES[(pattern, flags)] = list(sre_parse.parse(pattern, flags))
    for end in _seq(tree, 0, text, 0):
        return end
    return None


def _seq(items: List, i: int, s: str, pos: int) -> Iterator[int]:
    """All end positions of matching items[i:] at pos, in the engine's preference order."""
    if i == len(items):
        yield pos
        return
    op, av = items[i]
    if op in _ATOMS:
        if pos < len(s) and _in(op, av, s[pos]):
            yield from _seq(items, i + 1, s, pos + 1)
        return
    if op == sre_c.SUBPATTERN:
        for e in _seq(list(av[3]), 0, s, pos):
            yield from _seq(items, i + 1, s, e)
        return
    if op == sre_c.BRANCH:
        for alt in av[1]:
            for e in _seq(list(alt), 0, s, pos):
                yield from _seq(items, i + 1, s, e)
        return
    if op in (sre_c.MAX_REPEAT, sre_c.MIN_REPEAT):
        lo, hi, sub = av
        sub = list(sub)
        greedy = op == sre_c.MAX_REPEAT

        def rep(count: int, p: int) -> Iterator[int]:
            more = hi == sre_c.MAXREPEAT or count < hi
            if greedy:
                if more:
                    for e in _seq(sub, 0, s, p):
                        if e == p and count >= lo:
                            continue  # empty iteration makes no progress
                        yield from rep(count + 1, e)
                if count >= lo:
                    yield p
            else:
                if count >= lo:
                    yield p
                if more:
                    for e in _seq(sub, 0, s, p):
                        if e == p and count >= lo:
                            continue
                        yield from rep(count + 1, e)

        for e in rep(0, pos):
            yield from _seq(items, i + 1, s, e)
        return
    if op == sre_c.ASSERT_NOT:
        d, sub = av
        if d != 1:
            raise AnalysisError("look-behind not modelled")
        if next(_seq(list(sub), 0, s, pos), None) is None:
            yield from _seq(items, i + 1, s, pos)
        return
    if op == sre_c.ASSERT:
        d, sub = av
        if d != 1:
            raise AnalysisError("look-behind not modelled")
        if next(_seq(list(sub), 0, s, pos), None) is not None:
            yield from _seq(items, i + 1, s, pos)
        return
    if op == sre_c.AT:
        if av in (sre_c.AT_END, sre_c.AT_END_STRING):
            if pos == len(s) or (av == sre_c.AT_END and pos == len(s) - 1 and s[pos] == "\n"):
                yield from _seq(items, i + 1, s, pos)
            return
        if av in (sre_c.AT_BEGINNING, sre_c.AT_BEGINNING_STRING):
            if pos == 0:
                yield from _seq(items, i + 1, s, pos)
            return
    raise AnalysisError(f"regex construct not modelled by the backtracking matcher: {op}")


def _in(op, av, ch: str) -> bool:
    o = ord(ch)
    if op == sre_c.LITERAL:
        return o == av
    if op == sre_c.NOT_LITERAL:
        return o != av
    if op == sre_c.ANY:
        return ch != "\n"
    neg = False
    hit = False
    for k, a in av:
        if k == sre_c.NEGATE:
            neg = True
        elif k == sre_c.LITERAL:
            hit = hit or o == a
        elif k == sre_c.RANGE:
            hit = hit or a[0] <= o <= a[1]
        elif k == sre_c.CATEGORY:
            from .rx import _cat
            hit = hit or _cat(ch, a)
    return hit != neg
