"""KIND -- set-of-classes abstract domain with isinstance narrowing.

Used for block-state kinds (Namespace / Extern / Class) and for type-node
kinds (Type / Pointer / Reference / MoveReference / Array / FunctionType).
Intra-procedural over the CFG; parameters start at their annotation; results
of self-method calls are their return annotation; constructor calls give a
singleton.  Narrowing idioms accepted: ``if [not] isinstance(x, T|(T,..))``,
``assert isinstance``, boolean flag variables defined from an isinstance
call, ``and`` / ``or`` / ``not`` combinations, early ``raise``/``return``."""
from __future__ import annotations

import ast
from typing import Dict, FrozenSet, Iterable, List, Optional, Set, Tuple

from .cfg import CFG, Node, solve_forward
from .model import AnalysisError, annotation_names, attr_chain, norm, walk_local
from .pmodel import ParserModel

Env = Tuple[Tuple[Tuple[str, FrozenSet[str]], ...], Tuple[Tuple[str, Tuple[str, FrozenSet[str]]], ...]]


class KindDomain:
    def __init__(self, universe: Iterable[str], aliases: Dict[str, Iterable[str]], with_none: bool = False):
        self.universe: FrozenSet[str] = frozenset(universe)
        self.with_none = with_none
        self.ALL: FrozenSet[str] = self.universe | (frozenset({"None"}) if with_none else frozenset())
        self.aliases: Dict[str, FrozenSet[str]] = {k: frozenset(v) for k, v in aliases.items()}

    def of_annotation(self, ann: Optional[ast.AST]) -> Optional[FrozenSet[str]]:
        """Kinds denoted by an annotation, or None if it says nothing about
        this domain."""
        if ann is None:
            return None
        names = annotation_names(ann)
        out: Set[str] = set()
        relevant = False
        for n in names:
            if n in self.universe:
                out.add(n)
                relevant = True
            elif n in self.aliases:
                out |= self.aliases[n]
                relevant = True
            elif n == "None":
                out.add("None")
            else:
                if relevant or any(m in self.universe or m in self.aliases for m in names):
                    # mixed union with foreign members: no information
                    return None
        if not relevant:
            return None
        if not self.with_none:
            out.discard("None")
        return frozenset(out)

    def of_types_arg(self, e: ast.AST) -> Tuple[FrozenSet[str], bool]:
        """Second argument of isinstance: (kinds in the universe, all members known)."""
        elts = e.elts if isinstance(e, (ast.Tuple, ast.Set, ast.List)) else [e]
        ks: Set[str] = set()
        allk = True
        for x in elts:
            nm = x.id if isinstance(x, ast.Name) else (x.attr if isinstance(x, ast.Attribute) else None)
            if nm in self.universe:
                ks.add(nm)
            elif nm in self.aliases:
                ks |= self.aliases[nm]
            else:
                allk = False
        return frozenset(ks), allk


class KindAnalysis:
    def __init__(self, pm: ParserModel, dom: KindDomain, paths: Iterable[Tuple[str, ...]] = (), killers: Optional[Set[str]] = None,
                 field_kinds: Optional[Dict[str, FrozenSet[str]]] = None):
        self.pm = pm
        self.dom = dom
        # attribute name -> kinds, from the field annotations of the classes that declare it
        self.field_kinds = field_kinds or {}
        # tracked access paths besides local names, e.g. ('self','state')
        self.paths = {".".join(p) for p in paths}
        # self-methods whose call invalidates the tracked access paths
        self.killers = killers or set()
        self._res: Dict[str, Dict[int, Tuple[Dict[str, FrozenSet[str]], Dict[str, Tuple[str, FrozenSet[str]]]]]] = {}

    # -- keys
    def key(self, e: ast.AST) -> Optional[str]:
        if isinstance(e, ast.Name):
            return e.id
        ch = attr_chain(e)
        if ch is not None and ".".join(ch) in self.paths:
            return ".".join(ch)
        return None

    def kinds_of(self, fname: str, e: ast.AST, env: Dict[str, FrozenSet[str]]) -> FrozenSet[str]:
        if isinstance(e, ast.Constant) and e.value is None:
            return frozenset({"None"}) if self.dom.with_none else frozenset()
        k = self.key(e)
        if k is not None:
            if k in env:
                return env[k]
            return self.dom.ALL
        if isinstance(e, ast.Call):
            f = e.func
            nm = f.id if isinstance(f, ast.Name) else None
            if nm in self.dom.universe:
                return frozenset({nm})
            r = self.pm.resolve(fname, e)
            if r and r[0] == "self":
                callee = self.pm.fn(r[1])
                ks = self.dom.of_annotation(callee.returns)
                if ks is not None:
                    return ks
        if isinstance(e, ast.Attribute) and e.attr in self.field_kinds:
            return self.field_kinds[e.attr]
        if isinstance(e, ast.IfExp):
            return self.kinds_of(fname, e.body, env) | self.kinds_of(fname, e.orelse, env)
        if isinstance(e, ast.NamedExpr):
            return self.kinds_of(fname, e.value, env)
        return self.dom.ALL

    # -- narrowing
    def narrow(self, env: Dict[str, FrozenSet[str]], flags, cond: ast.AST, truth: bool) -> Dict[str, FrozenSet[str]]:
        env = dict(env)
        if isinstance(cond, ast.UnaryOp) and isinstance(cond.op, ast.Not):
            return self.narrow(env, flags, cond.operand, not truth)
        if isinstance(cond, ast.BoolOp):
            conj = isinstance(cond.op, ast.And)
            if conj == truth:
                for v in cond.values:
                    env = self.narrow(env, flags, v, truth)
                return env
            # a disjunction that holds (or a conjunction that fails): at least one operand
            # decides, so the result is the pointwise union of the individual refinements
            outs = [self.narrow(env, flags, v, truth) for v in cond.values]
            res = dict(env)
            for k in set().union(*[set(o) for o in outs]):
                vals = [o.get(k, self.dom.ALL) for o in outs]
                u = frozenset().union(*vals)
                res[k] = u
            return res
        if isinstance(cond, ast.Call) and isinstance(cond.func, ast.Name) and cond.func.id == "isinstance" and len(cond.args) == 2:
            k = self.key(cond.args[0])
            ks, allk = self.dom.of_types_arg(cond.args[1])
            if k is not None:
                cur = env.get(k, self.dom.ALL)
                if truth:
                    if allk:
                        env[k] = cur & ks
                    # foreign classes in the tuple: true branch tells nothing
                else:
                    env[k] = cur - ks
            return env
        if isinstance(cond, ast.Name) and cond.id in flags:
            k, ks, allk = flags[cond.id]
            cur = env.get(k, self.dom.ALL)
            if truth:
                if allk:
                    env[k] = cur & ks
            else:
                env[k] = cur - ks
            return env
        if isinstance(cond, ast.Compare) and len(cond.ops) == 1 and isinstance(cond.comparators[0], ast.Constant) and cond.comparators[0].value is None:
            k = self.key(cond.left)
            if k is not None and self.dom.with_none:
                cur = env.get(k, self.dom.ALL)
                isnone = isinstance(cond.ops[0], ast.Is)
                if isinstance(cond.ops[0], (ast.Is, ast.IsNot)):
                    if truth == isnone:
                        env[k] = cur & frozenset({"None"})
                    else:
                        env[k] = cur - frozenset({"None"})
            return env
        if (isinstance(cond, ast.Name) or self.key(cond) is not None) and self.dom.with_none:
            k = self.key(cond)
            if k is not None and k not in flags:
                cur = env.get(k, self.dom.ALL)
                if truth:
                    env[k] = cur - frozenset({"None"})
            return env
        return env

    # -- per function
    def analyse(self, fname: str):
        if fname in self._res:
            return self._res[fname]
        fn = self.pm.fn(fname)
        cfg = self.pm.cfg(fname)
        env0: Dict[str, FrozenSet[str]] = {}
        a = fn.args
        for arg in a.posonlyargs + a.args + a.kwonlyargs:
            ks = self.dom.of_annotation(arg.annotation)
            if ks is not None:
                env0[arg.arg] = ks

        def freeze(env, flags):
            return (tuple(sorted(env.items())), tuple(sorted((k, (v[0], v[1], v[2])) for k, v in flags.items())))

        def thaw(f):
            return dict(f[0]), {k: v for k, v in f[1]}

        def transfer(n: Node, f):
            env, flags = thaw(f)
            st = n.stmt
            # calls that change the tracked access paths
            if self.killers and self.paths:
                for c, r in self.pm.node_calls(fname, n):
                    if r and r[0] == "self" and r[1] in self.killers:
                        for p in self.paths:
                            env[p] = self.dom.ALL
                        for fl in [k for k, v in flags.items() if v[0] in self.paths]:
                            flags.pop(fl)
            if n.kind == "stmt" and isinstance(st, (ast.Assign, ast.AnnAssign)):
                value = st.value
                tgts = st.targets if isinstance(st, ast.Assign) else [st.target]
                if value is not None:
                    for tg in tgts:
                        if isinstance(tg, (ast.Tuple, ast.List)):
                            for e in tg.elts:
                                k = self.key(e)
                                if k:
                                    env[k] = self.dom.ALL
                                    flags.pop(k, None)
                            continue
                        k = self.key(tg)
                        if k is None:
                            continue
                        flags.pop(k, None)
                        # flag variable?
                        if isinstance(value, ast.Call) and isinstance(value.func, ast.Name) and value.func.id == "isinstance" and len(value.args) == 2:
                            kk = self.key(value.args[0])
                            ks, allk = self.dom.of_types_arg(value.args[1])
                            if kk is not None:
                                flags[k] = (kk, ks, allk)
                            env.pop(k, None)
                            continue
                        ks = self.kinds_of(fname, value, env)
                        if isinstance(st, ast.AnnAssign):
                            ann = self.dom.of_annotation(st.annotation)
                            if ann is not None:
                                ks = ks & ann if ks != self.dom.ALL else ann
                        env[k] = ks
                        # a flag that talks about k is stale now
                        for fl in [x for x, v in flags.items() if v[0] == k]:
                            flags.pop(fl)
            elif n.kind == "stmt" and isinstance(st, ast.AugAssign):
                k = self.key(st.target)
                if k:
                    env[k] = self.dom.ALL
            elif n.kind == "test" and isinstance(st, (ast.For, ast.AsyncFor)):
                for e in walk_local(st.target):
                    k = self.key(e)
                    if k:
                        env[k] = self.dom.ALL
            return freeze(env, flags)

        def edge(n: Node, lab, s, f):
            if lab in ("T", "F") and n.cond is not None:
                env, flags = thaw(f)
                env = self.narrow(env, flags, n.cond, lab == "T")
                return freeze(env, flags)
            return f

        def join(a, b):
            ea, fa = thaw(a)
            eb, fb = thaw(b)
            e = {}
            for k in set(ea) | set(eb):
                if k in ea and k in eb:
                    e[k] = ea[k] | eb[k]
                elif k in self.paths:
                    e[k] = self.dom.ALL  # an access path is always bound; unknown on one side
                else:
                    # a local unbound on one side: using it there raises (no wrong-kind use),
                    # so the bound side decides
                    e[k] = ea.get(k) or eb.get(k) or frozenset()
            fl = {k: fa[k] for k in fa if k in fb and fa[k] == fb[k]}
            return freeze(e, fl)

        IN = solve_forward(cfg, freeze(env0, {}), transfer, join, edge=edge, skip_exc=True)
        res = {nid: thaw(f) for nid, f in IN.items()}
        self._res[fname] = res
        return res

    def kinds_at(self, fname: str, node: Node, e: ast.AST) -> FrozenSet[str]:
        res = self.analyse(fname)
        if node.id not in res:
            return frozenset()  # unreachable
        env, _ = res[node.id]
        return self.kinds_of(fname, e, env)


def node_containing(cfg: CFG, target: ast.AST) -> Optional[Node]:
    for n in cfg.nodes:
        for e in n.exprs():
            if e is target:
                return n
            for x in walk_local(e):
                if x is target:
                    return n
    return None
