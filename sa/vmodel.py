"""Model of the visitor protocol (visitor.py), the block-state classes
(parserstate.py) and the collecting visitor (simple.py)."""
from __future__ import annotations

import ast
from typing import Dict, FrozenSet, List, Optional, Set, Tuple

from .kinds import KindDomain
from .model import AnalysisError, Module, Repo, annotation_names, attr_chain, norm, walk_local

STATE_CLASSES = ("NamespaceBlockState", "ExternBlockState", "ClassBlockState")


class Callback:
    def __init__(self, name: str, fn: ast.FunctionDef, dom: KindDomain):
        self.name = name
        self.fn = fn
        self.params = [a.arg for a in fn.args.args[1:]]
        self.state_ann = fn.args.args[1].annotation if len(fn.args.args) > 1 else None
        self.state_kinds: Optional[FrozenSet[str]] = dom.of_annotation(self.state_ann)
        self.payload_ann = fn.args.args[2].annotation if len(fn.args.args) > 2 else None
        self.payload_types = annotation_names(self.payload_ann)
        doc = ast.get_docstring(fn) or ""
        self.promises_skip = "returns False" in doc and "not be called" in doc
        self.returns = annotation_names(fn.returns)


class VisitorModel:
    def __init__(self, repo: Repo):
        self.repo = repo
        self.vmod: Module = repo.mod("visitor")
        self.smod: Module = repo.mod("parserstate")
        # state kind domain from the Union aliases in parserstate.py
        aliases: Dict[str, List[str]] = {}
        for st in self.smod.tree.body:
            if isinstance(st, ast.Assign) and len(st.targets) == 1 and isinstance(st.targets[0], ast.Name):
                names = [n for n in annotation_names(st.value) if n in STATE_CLASSES]
                if names and isinstance(st.value, ast.Subscript):
                    aliases[st.targets[0].id] = names
        for need in ("State", "NonClassBlockState"):
            if need not in aliases:
                raise AnalysisError(f"anchor vanished: parserstate.{need} Union alias")
        for c in STATE_CLASSES:
            self.smod.cls(c)
        self.dom = KindDomain(STATE_CLASSES, aliases, with_none=False)
        proto = self.vmod.cls("CxxVisitor")
        self.callbacks: Dict[str, Callback] = {}
        for f in proto.body:
            if isinstance(f, ast.FunctionDef) and f.name.startswith("on_"):
                self.callbacks[f.name] = Callback(f.name, f, self.dom)
        if len(self.callbacks) < 20:
            raise AnalysisError("anchor vanished: CxxVisitor protocol members")
        # state constructors: parent parameter kinds
        self.ctor_parent: Dict[str, Optional[FrozenSet[str]]] = {}
        self.ctor_params: Dict[str, List[str]] = {}
        for c in STATE_CLASSES:
            init = self.smod.func(f"{c}.__init__")
            self.ctor_params[c] = [a.arg for a in init.args.args[1:]]
            self.ctor_parent[c] = self.dom.of_annotation(init.args.args[1].annotation)
        # _finish overriders: class -> callback it issues
        self.finish: Dict[str, List[Tuple[str, ast.Call]]] = {}
        for cname, cnode in self.smod.classes():
            m = self.smod.methods(cname).get("_finish")
            if m is None:
                continue
            calls = []
            for c in walk_local(m):
                if isinstance(c, ast.Call):
                    ch = attr_chain(c.func)
                    if ch and len(ch) >= 2 and ch[-1].startswith("on_"):
                        # (`visitor.on_x_end(self)`; a receiver other than the parameter -- `self._visitor.on_x_end(self)` --
                        # is still the class's end callback: who the receiver is, is R4.3 / R5.2 / R5.3's question)
                        calls.append((ch[-1], c))
            self.finish[cname] = calls
        if not any(self.finish.values()):
            # the end callbacks are no longer issued by the state classes: who delivers which end callback for which kind of
            # block is then decided somewhere this model does not read
            raise AnalysisError("anchor vanished: the _finish methods of the block states (the end callbacks are delivered some other way; not modelled)")

    def start_callbacks(self) -> List[str]:
        return sorted(n for n in self.callbacks if n.endswith("_start") and n != "on_parse_start")

    def end_callbacks(self) -> List[str]:
        return sorted(n for n in self.callbacks if n.endswith("_end"))

    def class_of_start(self, cb: str) -> str:
        ks = self.callbacks[cb].state_kinds
        if not ks or len(ks) != 1:
            raise AnalysisError(f"start callback {cb} does not name a single state class")
        return next(iter(ks))
