"""SimpleCxxVisitor.on_namespace_start decided over a finite family of scope
trees: the source of the method is interpreted (sa/miniexec.py) on model
objects -- a tree of NamespaceScope models under a parent block state, a
namespace declaration with 0, 1 or 2 name components -- and the tree it leaves
behind is compared with the tree the property demands: every component is
looked up in the scope reached so far, reused when present (the same object),
created under its own name when missing, and the block is bound to the last.

The family covers every combination of (component present / missing) for one
and two components, the anonymous namespace, a sibling with the name of the
second component (a walk that does not descend finds it) and scopes of the
same names beside and above the enclosing scope (a walk that starts elsewhere
finds those).  The interpretation is of the current source; whatever it does
not model raises Unsupported and the rule reports an analysis error.

Nothing of the package is imported or run."""
from __future__ import annotations

import ast
from typing import Any, Dict, List, NamedTuple, Optional, Tuple

from .cfg import CFG
from .miniexec import Obj, Opaque, Run, Unsupported
from .model import AnalysisError, Module, norm

Spec = Dict[str, "Spec"]  # type: ignore[misc]

# (names of the declaration, what the enclosing scope already contains)
SCENARIOS: List[Tuple[List[str], Spec]] = [
    (["a"], {}),
    (["a"], {"a": {}}),
    (["a"], {"a": {"b": {}}, "b": {}}),
    (["a"], {"b": {}}),
    (["a", "b"], {}),
    (["a", "b"], {"a": {}}),
    (["a", "b"], {"a": {"b": {}}}),
    (["a", "b"], {"a": {}, "b": {}}),
    (["a", "b"], {"a": {"b": {"c": {}}}, "b": {}}),
    (["a", "b"], {"b": {}}),
    (["a", "a"], {"a": {}}),
    (["b"], {"a": {"b": {}}}),
    ([], {}),
    ([], {"": {}}),
    ([], {"": {"a": {}}, "a": {}}),
]


class Outcome(NamedTuple):
    names: Tuple[str, ...]
    pre: str
    reused_ok: bool       # every component that existed is the same object afterwards, nothing created for it
    created_ok: bool      # exactly the missing components were created, each under its own name and key
    descend_ok: bool      # the second component sits below the first
    start_ok: bool        # nothing outside the enclosing scope changed and the first component sits in the enclosing scope
    bound_ok: bool        # state.user_data is the innermost scope
    note: str


def _dataclass_defaults(mod: Module, cname: str) -> Dict[str, Any]:
    cls = mod.cls(cname)
    out: Dict[str, Any] = {}
    for st in cls.body:
        if not (isinstance(st, ast.AnnAssign) and isinstance(st.target, ast.Name)):
            continue
        v = st.value
        if v is None:
            out[st.target.id] = ("required",)
        elif isinstance(v, ast.Constant):
            out[st.target.id] = ("const", v.value)
        elif isinstance(v, ast.Call) and norm(v.func) in ("field", "dataclasses.field"):
            fac = next((k.value for k in v.keywords if k.arg == "default_factory"), None)
            dfl = next((k.value for k in v.keywords if k.arg == "default"), None)
            if fac is not None and norm(fac) in ("list", "dict"):
                out[st.target.id] = ("factory", norm(fac))
            elif dfl is not None and isinstance(dfl, ast.Constant):
                out[st.target.id] = ("const", dfl.value)
            else:
                out[st.target.id] = ("opaque",)
        else:
            out[st.target.id] = ("opaque",)
    return out


def _shape(spec: Spec) -> str:
    return "{" + ", ".join(f"{k!r}: {_shape(v)}" for k, v in sorted(spec.items())) + "}"


def outcomes(sm: Module, qual: str = "SimpleCxxVisitor.on_namespace_start", scope_cls: str = "NamespaceScope") -> List[Outcome]:
    fn = sm.func(qual)
    cfg = CFG(fn)
    defaults = _dataclass_defaults(sm, scope_cls)
    if "namespaces" not in defaults or "name" not in defaults:
        raise AnalysisError(f"anchor vanished: fields name / namespaces of {scope_cls}")
    order = list(defaults)
    if len(fn.args.args) != 2:
        raise AnalysisError(f"{qual}: signature changed")
    self_p, st_p = fn.args.args[0].arg, fn.args.args[1].arg

    def new_scope(created: Optional[List[Obj]], *args: Any, **kw: Any) -> Obj:
        fields: Dict[str, Any] = {}
        for k, d in defaults.items():
            if d[0] == "const":
                fields[k] = d[1]
            elif d[0] == "factory":
                fields[k] = [] if d[1] == "list" else {}
            elif d[0] == "opaque":
                fields[k] = Opaque()
        for k, v in zip(order, args):
            fields[k] = v
        fields.update(kw)
        o = Obj(scope_cls, **fields)
        if created is not None:
            created.append(o)
        return o

    def build(spec: Spec, name: str, reg: Dict[int, str], path: str) -> Obj:
        o = new_scope(None, name)
        reg[id(o)] = path
        for k, sub in spec.items():
            o.fields["namespaces"][k] = build(sub, k, reg, f"{path}::{k}")
        return o

    out: List[Outcome] = []
    for names, pre in SCENARIOS:
        reg: Dict[int, str] = {}
        # scopes of the same names beside and above the enclosing one
        G = build({"a": {"b": {}}, "b": {}, "": {}}, "", reg, "<global>")
        P = build(pre, "outer", reg, "<enclosing>")
        G.fields["namespaces"]["outer"] = P
        before = _snapshot(G)
        created: List[Obj] = []
        decl = Obj("NamespaceDecl", names=list(names), inline=True, doxygen="/// doc")
        top = Obj("State", user_data=G, parent=None, location=Opaque())
        pstate = Obj("State", user_data=P, parent=top, location=Opaque())
        state = Obj("State", user_data=None, parent=pstate, namespace=decl, location=Opaque())
        me = Obj("SimpleCxxVisitor", data=Obj("ParsedData", namespace=G))

        def extern(call: ast.Call, run: Run, _created=created) -> Any:
            f = norm(call.func)
            if f == scope_cls:
                args = [run.ev(a) for a in call.args]
                kw = {k.arg: run.ev(k.value) for k in call.keywords if k.arg}
                return new_scope(_created, *args, **kw)
            if f == "isinstance" and len(call.args) == 2:
                v = run.ev(call.args[0])
                cn = [norm(x) for x in call.args[1].elts] if isinstance(call.args[1], ast.Tuple) else [norm(call.args[1])]
                return isinstance(v, Obj) and v.cls in cn
            if f in ("typing.cast", "cast") and len(call.args) == 2:
                return run.ev(call.args[1])
            # a helper of the module, or a method of the scope class itself: interpreted from its source
            if isinstance(call.func, ast.Name) and sm.has_func(call.func.id):
                return run.call_def(sm.func(call.func.id), [run.ev(a) for a in call.args], {k.arg: run.ev(k.value) for k in call.keywords if k.arg})
            if isinstance(call.func, ast.Attribute):
                recv = run.ev(call.func.value)
                if isinstance(recv, Obj) and sm.has_func(f"{recv.cls}.{call.func.attr}"):
                    return run.call_def(sm.func(f"{recv.cls}.{call.func.attr}"), [recv] + [run.ev(a) for a in call.args], {k.arg: run.ev(k.value) for k in call.keywords if k.arg})
            raise Unsupported(f"call {norm(call)[:60]}")

        try:
            r = Run(cfg, {self_p: me, st_p: state, "None": None, "True": True, "False": False}, [], lambda c: False, extern).run()
        except Unsupported as ex:
            raise AnalysisError(f"{qual} does something the scope-tree interpretation does not model: {ex}")
        if r.raised:
            out.append(Outcome(tuple(names), _shape(pre), False, False, False, False, False, f"raises {r.raised}"))
            continue
        comps = list(names) or [""]
        note: List[str] = []
        # expected walk over what is there now
        cur = P
        reused_ok = created_ok = descend_ok = start_ok = True
        spec_cur: Optional[Spec] = pre
        for i, nm in enumerate(comps):
            existed = spec_cur is not None and nm in spec_cur
            was = before.get(id(cur), {}).get(nm) if id(cur) in before else None
            child = cur.fields["namespaces"].get(nm) if isinstance(cur.fields.get("namespaces"), dict) else None
            if not isinstance(child, Obj):
                note.append(f"component {nm!r} is not in the scope reached through {comps[:i]}")
                if i == 0:
                    start_ok = False
                else:
                    descend_ok = False
                if not existed:
                    created_ok = False
                cur = None  # type: ignore[assignment]
                break
            if existed:
                if id(child) != was:
                    reused_ok = False
                    note.append(f"the existing scope {nm!r} was replaced")
            else:
                if id(child) in reg or child.fields.get("name") != nm:
                    created_ok = False
                    note.append(f"the scope created for {nm!r} is named {child.fields.get('name')!r}" if id(child) not in reg else f"{nm!r} was bound to the existing scope {reg[id(child)]}")
            spec_cur = spec_cur.get(nm) if spec_cur is not None and nm in spec_cur else None
            cur = child
        # (a scope object that is created and dropped again, as by setdefault(name, NamespaceScope(name)), changes nothing:
        # only what ends up in the tree or bound to the block is judged)
        # nothing else changed: every pre-existing scope keeps its children, plus at most the expected new one
        after = _snapshot(G)
        exp_new: Dict[int, str] = {}
        c2, sp = P, pre
        for nm in comps:
            if sp is not None and nm in sp:
                c2 = c2.fields["namespaces"].get(nm) if isinstance(c2, Obj) else None  # type: ignore[assignment]
                sp = sp[nm]
            else:
                if isinstance(c2, Obj) and id(c2) in reg:
                    exp_new[id(c2)] = nm
                break
        for oid, kids in before.items():
            now = after.get(oid)
            if now is None:
                continue
            extra = {k: v for k, v in now.items() if kids.get(k) != v}
            gone = [k for k in kids if k not in now]
            allowed = {exp_new[oid]} if oid in exp_new else set()
            bad = [k for k in extra if k not in allowed] + gone
            if bad:
                where = reg.get(oid, "?")
                note.append(f"children {sorted(bad)} of {where} changed")
                if where.startswith("<global>"):
                    start_ok = False
                elif len(comps) > 1 and where == "<enclosing>" and set(bad) <= {comps[1]} - {comps[0]}:
                    descend_ok = False
                elif set(bad) & set(kids):
                    reused_ok = False
                else:
                    created_ok = False
        bound = state.fields.get("user_data")
        bound_ok = cur is not None and bound is cur
        if not bound_ok:
            note.append(f"the block is bound to {reg.get(id(bound), 'a new scope' if isinstance(bound, Obj) else repr(bound))}")
        out.append(Outcome(tuple(names), _shape(pre), reused_ok, created_ok, descend_ok, start_ok, bound_ok, "; ".join(note)))
    return out


def _snapshot(root: Obj) -> Dict[int, Dict[str, int]]:
    out: Dict[int, Dict[str, int]] = {}
    stack = [root]
    while stack:
        o = stack.pop()
        if id(o) in out:
            continue
        ns = o.fields.get("namespaces")
        if not isinstance(ns, dict):
            out[id(o)] = {}
            continue
        out[id(o)] = {k: id(v) for k, v in ns.items()}
        stack.extend(v for v in ns.values() if isinstance(v, Obj))
    return out
